(* GENERATED on every run by harness/lib/gen_consts.py from the live pjrpc tree. Do not edit. *)
From Coq Require Import ZArith List String Ascii Bool.
From PJ Require Import Base.Json.
Import ListNotations.
Open Scope string_scope.
Definition error_registry : list (Z * string) := [((0)%Z, "HarnessZeroError"); ((3001)%Z, "HarnessAppError"); ((-32700)%Z, "ParseError"); ((-32603)%Z, "InternalError"); ((-32602)%Z, "InvalidParamsError"); ((-32601)%Z, "MethodNotFoundError"); ((-32600)%Z, "InvalidRequestError"); ((-32000)%Z, "ServerError")].
Definition error_messages : list (string * (Z * string)) := [("HarnessZeroError", ((0)%Z, "zero error")); ("HarnessAppError", ((3001)%Z, "app error")); ("ParseError", ((-32700)%Z, "Parse error")); ("InternalError", ((-32603)%Z, "Internal error")); ("InvalidParamsError", ((-32602)%Z, "Invalid params")); ("MethodNotFoundError", ((-32601)%Z, "Method not found")); ("InvalidRequestError", ((-32600)%Z, "Invalid Request")); ("ServerError", ((-32000)%Z, "Server error"))].
Definition error_bases : list (string * list string) := [("HarnessZeroError", ["JsonRpcError"; "BaseError"]); ("HarnessAppError", ["JsonRpcError"; "BaseError"]); ("ParseError", ["ClientError"; "JsonRpcError"; "BaseError"]); ("InternalError", ["JsonRpcError"; "BaseError"]); ("InvalidParamsError", ["ClientError"; "JsonRpcError"; "BaseError"]); ("MethodNotFoundError", ["ClientError"; "JsonRpcError"; "BaseError"]); ("InvalidRequestError", ["ClientError"; "JsonRpcError"; "BaseError"]); ("ServerError", ["JsonRpcError"; "BaseError"])].
Definition ParseError_code : Z := (-32700)%Z.
Definition ParseError_message : string := "Parse error".
Definition InvalidRequestError_code : Z := (-32600)%Z.
Definition InvalidRequestError_message : string := "Invalid Request".
Definition MethodNotFoundError_code : Z := (-32601)%Z.
Definition MethodNotFoundError_message : string := "Method not found".
Definition InvalidParamsError_code : Z := (-32602)%Z.
Definition InvalidParamsError_message : string := "Invalid params".
Definition InternalError_code : Z := (-32603)%Z.
Definition InternalError_message : string := "Internal error".
Definition ServerError_code : Z := (-32000)%Z.
Definition ServerError_message : string := "Server error".
Definition request_version : string := "2.0".
Definition response_version : string := "2.0".
Definition batch_request_version : string := "2.0".
Definition batch_response_version : string := "2.0".
Definition request_content_types : list string := ["application/json"; "application/json-rpc"; "application/jsonrequest"].
Definition response_content_types : list string := ["application/json"; "application/json-rpc"].
Definition default_content_type : string := "application/json".
Definition client_strict_default : bool := true.
Definition concurrent_batch_default : bool := true.
Definition max_batch_size_default : option Z := None.
Definition PeriodicBackoff_jitter_default : (Z * Z) := (0, 1)%Z.
Definition PeriodicBackoff_interval_default : (Z * Z) := (1, 1)%Z.
Definition ExponentialBackoff_jitter_default : (Z * Z) := (0, 1)%Z.
Definition ExponentialBackoff_base_default : (Z * Z) := (1, 1)%Z.
Definition ExponentialBackoff_factor_default : (Z * Z) := (2, 1)%Z.
Definition ExponentialBackoff_max_value_default : option (Z * Z) := None.
Definition FibonacciBackoff_jitter_default : (Z * Z) := (0, 1)%Z.
Definition FibonacciBackoff_multiplier_default : (Z * Z) := (1, 1)%Z.
Definition FibonacciBackoff_max_value_default : (Z * Z) := (1, 1)%Z.
Definition http_default_status : Z := (200)%Z.
Definition jsonrpc_mediatype : string := "application/json".
Definition response_always_truthy : bool := true.
Definition unset_is_falsy : bool := true.
Definition retry_twins_textually_equal : bool := true.
