(* Proofs about Model/Validators.v (C14). *)
From Coq Require Import ZArith List String Ascii Bool.
From PJ Require Import Base.Json Base.Res Model.Bind Model.Validators Lemmas.Tactics Lemmas.BindL.
Import ListNotations.
Open Scope string_scope. Open Scope list_scope.

Lemma invoke_decomp s cm ctx p :
  method_invoke s cm ctx p = match validate_bind (excluded_sig s cm) p with Some kw => call_with s cm ctx kw | None => InvInvalid end.
Proof. unfold method_invoke, excluded_sig, call_with. destruct cm; reflexivity. Qed.

(* the schema validator: executed iff the arguments bind AND the bound arguments satisfy the schema; then exactly as without validator *)
Theorem invoke_js_spec s cm ctx sc p :
  invoke_js s cm ctx sc p =
  match validate_bind (excluded_sig s cm) p with
  | Some kw => if js_valid sc (JObj kw) then method_invoke s cm ctx p else InvInvalid
  | None => InvInvalid end.
Proof.
  unfold invoke_js, validate_js. rewrite invoke_decomp. destruct (validate_bind (excluded_sig s cm) p) as [kw|]; auto.
  destruct (js_valid sc (JObj kw)); reflexivity.
Qed.
Theorem invoke_js_runs_iff s cm ctx sc p e :
  invoke_js s cm ctx sc p = InvRan e <->
  (method_invoke s cm ctx p = InvRan e /\ exists kw, validate_bind (excluded_sig s cm) p = Some kw /\ js_valid sc (JObj kw) = true).
Proof.
  rewrite invoke_js_spec. destruct (validate_bind (excluded_sig s cm) p) as [kw|] eqn:E.
  - destruct (js_valid sc (JObj kw)) eqn:V; split.
    + intros H. split; auto. eauto.
    + intros [H _]. exact H.
    + discriminate.
    + intros [_ [kw' [Hk Hv]]]. inversion Hk; subst. congruence.
  - split; [discriminate|]. intros [_ [kw' [Hk _]]]. discriminate.
Qed.
(* otherwise: invalid params, the body does not run (never a failure at call time caused by validation) *)
Theorem invoke_js_rejects s cm ctx sc p kw :
  validate_bind (excluded_sig s cm) p = Some kw -> js_valid sc (JObj kw) = false -> invoke_js s cm ctx sc p = InvInvalid.
Proof. intros H V. rewrite invoke_js_spec, H, V. reflexivity. Qed.

(* what the validator looks at never contains the context parameter, and the client cannot supply it *)
Theorem validated_mapping_excludes_context s n p kw : simple_sig s = true -> names_distinct s = true -> params_wf p ->
  validate_bind (sig_exclude n s) p = Some kw -> ~ In n (keys kw).
Proof.
  intros Hs Hd Hw E. pose proof (core _ p (exclude_simple n s Hs) (exclude_distinct n s Hd) Hw) as C. rewrite E in C.
  destruct C as [A _]. intros Hin. apply A, exclude_names in Hin. tauto.
Qed.

(* characterising the schema evaluator *)
Theorem js_required ty en mn mx props req add items kvs :
  js_valid (SNode ty en mn mx props req add items) (JObj kvs) = true -> forall r, In r req -> has r kvs = true.
Proof.
  cbn. rewrite !andb_true_iff. intros [_ [[H _] _]] r Hr. rewrite forallb_forall in H. auto.
Qed.
Theorem js_additional ty en mn mx props req items kvs :
  js_valid (SNode ty en mn mx props req false items) (JObj kvs) = true -> forall k, In k (keys kvs) -> has k props = true.
Proof.
  cbn. rewrite !andb_true_iff. intros [_ [[_ H] _]] k Hk. rewrite forallb_forall in H. specialize (H k Hk). exact H.
Qed.
Theorem js_type ty en mn mx props req add items v :
  js_valid (SNode ty en mn mx props req add items) v = true -> type_ok ty v = true /\ enum_ok en v = true /\ bound_ok mn mx v = true.
Proof. cbn. rewrite !andb_true_iff. tauto. Qed.
Theorem js_property ty en mn mx req add items kvs k sub x : forall props,
  js_valid (SNode ty en mn mx props req add items) (JObj kvs) = true -> In (k, sub) props -> get k kvs = Some x -> js_valid sub x = true.
Proof.
  intros props. cbn. rewrite !andb_true_iff. intros [_ [_ H]]. revert H. induction props as [|[k' s'] ps IH]; [intros _ []|].
  rewrite andb_true_iff. intros [H1 H2] [Hin|Hin] Hg.
  - inversion Hin; subst. rewrite Hg in H1. exact H1.
  - apply IH; auto.
Qed.

(* pydantic: every bound argument must be accepted by the oracle; with coercion the body receives the converted values *)
Lemma apply_verdicts_keys o : forall kw kw', apply_verdicts o kw = Some kw' -> keys kw' = keys kw.
Proof.
  induction kw as [|[n v] r IH]; cbn; intros kw' H; [inversion H; auto|].
  destruct (get n o) as [[v'|]|]; try discriminate. destruct (apply_verdicts o r) as [r'|]; [|discriminate].
  inversion H; subst. cbn. f_equal. apply IH. reflexivity.
Qed.
Theorem apply_verdicts_spec o : forall kw kw', apply_verdicts o kw = Some kw' ->
  Forall2 (fun a b => fst a = fst b /\ get (fst a) o = Some (Some (snd b))) kw kw'.
Proof.
  induction kw as [|[n v] r IH]; cbn; intros kw' H; [inversion H; constructor|].
  destruct (get n o) as [[v'|]|] eqn:E; try discriminate. destruct (apply_verdicts o r) as [r'|]; [|discriminate].
  inversion H; subst. constructor; auto.
Qed.
Theorem apply_verdicts_reject o kw n v : In (n, v) kw -> (get n o = None \/ get n o = Some None) -> apply_verdicts o kw = None.
Proof.
  induction kw as [|[n' v'] r IH]; cbn; [tauto|]. intros [Hin|Hin] Hr.
  - inversion Hin; subst. destruct Hr as [-> | ->]; reflexivity.
  - destruct (get n' o) as [[x|]|]; auto. rewrite IH; auto.
Qed.
Theorem invoke_pyd_no_coerce s cm ctx o p kw kw' :
  validate_bind (excluded_sig s cm) p = Some kw -> apply_verdicts o kw = Some kw' ->
  invoke_pyd s cm ctx o false p = method_invoke s cm ctx p.
Proof. intros H A. unfold invoke_pyd, validate_pyd. rewrite invoke_decomp, H, A. reflexivity. Qed.
Theorem invoke_pyd_coerce s cm ctx o p kw kw' :
  validate_bind (excluded_sig s cm) p = Some kw -> apply_verdicts o kw = Some kw' ->
  invoke_pyd s cm ctx o true p = call_with s cm ctx kw'.
Proof. intros H A. unfold invoke_pyd, validate_pyd. rewrite H, A. reflexivity. Qed.
Theorem invoke_pyd_rejects s cm ctx o coerce p kw :
  validate_bind (excluded_sig s cm) p = Some kw -> apply_verdicts o kw = None -> invoke_pyd s cm ctx o coerce p = InvInvalid.
Proof. intros H A. unfold invoke_pyd, validate_pyd. rewrite H, A. reflexivity. Qed.
Theorem invoke_pyd_unbound s cm ctx o coerce p :
  validate_bind (excluded_sig s cm) p = None -> invoke_pyd s cm ctx o coerce p = InvInvalid.
Proof. intros H. unfold invoke_pyd, validate_pyd. rewrite H. reflexivity. Qed.
