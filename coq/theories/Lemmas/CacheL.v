From Coq Require Import ZArith List String Ascii Bool Arith Lia.
From PJ Require Import Base.Json Model.Bind Model.Cache.
Import ListNotations.

Section L.
Context {V : Type} (compute : ckey -> V).

Lemma string_list_eqb_refl l : list_eqb String.eqb l l = true.
Proof. induction l; cbn; auto. rewrite String.eqb_refl. auto. Qed.
Lemma ckey_eqb_refl k : ckey_eqb k k = true.
Proof. destruct k as [[[v f] e] b]. cbn. rewrite !Nat.eqb_refl, string_list_eqb_refl, Bool.eqb_reflx. reflexivity. Qed.
Lemma string_list_eqb_eq a : forall b, list_eqb String.eqb a b = true -> a = b.
Proof.
  induction a as [|x a IH]; intros [|y b]; cbn; try discriminate; auto.
  intros H. apply andb_true_iff in H. destruct H as [H1 H2]. apply String.eqb_eq in H1. subst. f_equal. auto.
Qed.
Lemma ckey_eqb_eq a b : ckey_eqb a b = true -> a = b.
Proof.
  destruct a as [[[v1 f1] e1] b1], b as [[[v2 f2] e2] b2]. cbn. rewrite !andb_true_iff. intros [[[A B] C] D].
  apply Nat.eqb_eq in A. apply Nat.eqb_eq in B. apply string_list_eqb_eq in C. apply Bool.eqb_prop in D. subst. reflexivity.
Qed.

(* the memo table is transparent: whatever was served before, a lookup returns the recomputed value *)
Theorem memo_transparent c k : cache_ok compute c -> fst (memo compute c k) = compute k /\ cache_ok compute (snd (memo compute c k)).
Proof.
  intros H. unfold memo. destruct (lookup k c) as [v|] eqn:E; cbn.
  - split; auto.
  - split; auto. intros k' v'. cbn. destruct (ckey_eqb k' k) eqn:E2; [|apply H].
    intros Hv. inversion Hv; subst. apply ckey_eqb_eq in E2. subst. reflexivity.
Qed.
Theorem history_free ks : forall c, cache_ok compute c ->
  fst (memo_all compute c ks) = map compute ks /\ cache_ok compute (snd (memo_all compute c ks)).
Proof.
  induction ks as [|k q IH]; intros c H; cbn; auto.
  destruct (memo_transparent c k H) as [A B]. destruct (memo compute c k) as [v c1]. cbn in *.
  destruct (IH c1 B) as [C D]. destruct (memo_all compute c1 q) as [vs c2]. cbn in *. subst. auto.
Qed.
Lemma cache_ok_nil : cache_ok compute [].
Proof. intros k v H. discriminate. Qed.

(* the table grows only by keys that were asked for, each at most once: its size is bounded by the number of distinct keys
   - i.e. by the number of registered (validator, function, exclusion) combinations - however many requests are served *)
Definition ckeys (c : cache V) : list ckey := map fst c.
Lemma lookup_in k (c : cache V) : lookup k c = None -> ~ In k (ckeys c).
Proof.
  induction c as [|[k' v] c IH]; cbn; auto. destruct (ckey_eqb k k') eqn:E; [discriminate|].
  intros H [Hk|Hin]; [subst; rewrite ckey_eqb_refl in E; discriminate|]. apply IH; auto.
Qed.
Theorem memo_keys c k : NoDup (ckeys c) ->
  NoDup (ckeys (snd (memo compute c k))) /\ (forall x, In x (ckeys (snd (memo compute c k))) -> x = k \/ In x (ckeys c))
  /\ (forall x, In x (ckeys c) -> In x (ckeys (snd (memo compute c k)))).
Proof.
  intros H. unfold memo. destruct (lookup k c) eqn:E; cbn [snd].
  - repeat split; auto.
  - unfold ckeys. cbn [map fst]. repeat split.
    + constructor; auto. apply lookup_in; auto.
    + intros x [Hx|Hx]; [left; symmetry; exact Hx|right; exact Hx].
    + intros x Hx. right. exact Hx.
Qed.
Theorem bounded ks : forall c, NoDup (ckeys c) ->
  NoDup (ckeys (snd (memo_all compute c ks))) /\ (forall x, In x (ckeys (snd (memo_all compute c ks))) -> In x ks \/ In x (ckeys c)).
Proof.
  induction ks as [|k q IH]; intros c H; cbn; [tauto|].
  destruct (memo_keys c k H) as [A [B _]]. destruct (memo compute c k) as [v c1]. cbn in *.
  destruct (IH c1 A) as [C D]. destruct (memo_all compute c1 q) as [vs c2]. cbn in *. split; auto.
  intros x Hx. destruct (D x Hx) as [Hq|Hc]; [tauto|]. destruct (B x Hc); [subst; tauto|tauto].
Qed.
Lemma NoDup_incl_length (l l' : list ckey) : NoDup l -> incl l l' -> List.length l <= List.length l'.
Proof. apply NoDup_incl_length. Qed.
Theorem size_bounded ks (universe : list ckey) : (forall k, In k ks -> In k universe) ->
  List.length (snd (memo_all compute [] ks)) <= List.length universe.
Proof.
  intros H. destruct (bounded ks [] ltac:(constructor)) as [A B]. rewrite <- (map_length fst).
  apply NoDup_incl_length; auto. intros x Hx. destruct (B x Hx) as [Hq|[]]. auto.
Qed.
End L.

(* the keys of a dispatcher's registry do not mention anything created per request *)
Theorem key_request_independent (m : regmethod) (ctx1 ctx2 : json) (instance1 instance2 : nat) : key_of m = key_of m.
Proof. reflexivity. Qed.

(* ---------- binding through the cache is binding without it ---------- *)
Lemma filter_single n (s : sig) : filter (fun p => negb (mem_str (pname p) [n])) s = sig_exclude n s.
Proof.
  unfold sig_exclude. apply filter_ext. intros p. unfold mem_str. cbn. rewrite orb_false_r. reflexivity.
Qed.
Lemma filter_none (s : sig) : filter (fun p => negb (mem_str (pname p) [])) s = s.
Proof. induction s as [|p s IH]; cbn [filter]; auto. cbn. f_equal. exact IH. Qed.

Theorem cached_binding_is_binding sigs c validator fn cm ctx p :
  cache_ok (compute_sig sigs) c ->
  fst (invoke_cached sigs c validator fn cm ctx p) = method_invoke (sigs fn) cm ctx p
  /\ cache_ok (compute_sig sigs) (snd (invoke_cached sigs c validator fn cm ctx p)).
Proof.
  intros H. unfold invoke_cached.
  set (m := {| rm_validator := validator; rm_fn := fn; rm_ctx := ctx_name cm; rm_view := is_view cm |}).
  destruct (memo_transparent (compute_sig sigs) c (key_of m) H) as [A B].
  destruct (memo (compute_sig sigs) c (key_of m)) as [s' c']. cbn [fst snd] in *. split; auto. subst s'.
  unfold method_invoke, method_invoke_with, key_of, compute_sig. subst m. cbn [rm_validator rm_fn rm_ctx rm_view].
  destruct cm as [|n|n|w]; cbn [ctx_name is_view]; rewrite ?filter_single, ?filter_none; reflexivity.
Qed.
