(* C07: composing the client model, the wire round trip (C05) and the dispatcher model (C01-C03). *)
From Coq Require Import ZArith List String Ascii Bool Lia Permutation.
From PJ Require Import Base.Json Base.Res Model.Msg Model.Bind Model.Dispatch Model.Client Model.EndToEnd Generated.Consts
     Lemmas.Tactics Lemmas.MsgL Lemmas.DispatchL Lemmas.ClientL.
Import ListNotations.
Open Scope string_scope. Open Scope list_scope.

Lemma req_to_json_not_arr q es : req_to_json q <> JArr es.
Proof. unfold req_to_json. discriminate. Qed.

Lemma no_mws_handler cfg : c_mws cfg = [] -> request_handler cfg = handle_request cfg.
Proof. unfold request_handler. intros ->. reflexivity. Qed.

Lemma reclass_id rg base x : resp_id (reclass rg base x) = resp_id x.
Proof. destruct x; reflexivity. Qed.

(* ---------- single requests ---------- *)
Theorem through_single_request cfg ctx strict base g n q :
  c_mws cfg = [] -> build_single g n = Ok q ->
  through_single cfg ctx strict base g n =
  (match fst (handle_request cfg (norm_req q) ctx) with
   | Some x => COk (Some (reclass error_registry base x))
   | None => COk None end,
   snd (handle_request cfg (norm_req q) ctx)).
Proof.
  intros Hm Hb. unfold through_single, serve. rewrite Hb.
  destruct (req_roundtrip q) as [Hrt _].
  rewrite (dispatch_single_eq cfg (req_to_json q) (norm_req q) ctx Hrt), (no_mws_handler cfg Hm).
  pose proof (handle_request_answer_ok cfg (norm_req q) ctx) as Ha.
  destruct (handle_request cfg (norm_req q) ctx) as [[x|] lg]; cbn [fst snd] in *.
  - unfold answer_ok in Ha. rewrite norm_req_id in Ha. destruct (r_id q) as [i|] eqn:Ei; [|contradiction].
    unfold single. unfold recv_single. rewrite Ei.
    destruct (resp_roundtrip error_registry base x) as [Hr _]. unfold lift, bind. rewrite Hr.
    rewrite (relate_single_accepts strict q (reclass error_registry base x)); [reflexivity|].
    right. rewrite reclass_id, Ha, Ei. reflexivity.
  - unfold answer_ok in Ha. rewrite norm_req_id in Ha. destruct (r_id q) as [i|] eqn:Ei; [contradiction|].
    unfold recv_single. rewrite Ei. cbn. rewrite andb_false_r. reflexivity.
Qed.

(* what the caller of client.call gets, in terms of what the registered function does *)
Theorem call_equals_function cfg ctx strict base g m pos kw q f :
  c_mws cfg = [] -> c_ehs cfg = [] -> build_single g (NCall m pos kw) = Ok q ->
  get m (c_registry cfg) = Some f ->
  call_outcome (fst (through_single cfg ctx strict base g (NCall m pos kw))) =
  match f ctx (norm_params (r_params q)) with
  | MRan _ (ORet v) => COk v
  | MRan _ (ORpc e) => CRaise (CRpc (reclass_err error_registry base e))
  | MRan _ (OExc _) | MCallFail => CRaise (CRpc (reclass_err error_registry base server_error))
  | MInvalid d => CRaise (CRpc (reclass_err error_registry base (invalid_params d)))
  | MInternal => CRaise (CRpc (reclass_err error_registry base internal_error))
  end.
Proof.
  intros Hm He Hb Hf. rewrite (through_single_request cfg ctx strict base g _ q Hm Hb). cbn [fst].
  rewrite (handle_request_verdict cfg (norm_req q) ctx He).
  assert (Hq : r_method q = m /\ exists i, r_id q = Some i).
  { cbn in Hb. unfold bind in Hb. destruct (mk_params pos kw); [|discriminate]. destruct (gen_nth g 0); inv_res. cbn. eauto. }
  destruct Hq as [Hqm [i Hi]]. rewrite norm_req_id, Hi. cbn [norm_req r_method r_params]. rewrite Hqm, Hf.
  destruct (f ctx (norm_params (r_params q))) as [d| | |args [v|e|t]]; reflexivity.
Qed.

(* notifications: nothing comes back, nothing is raised, and the method ran exactly as for a call *)
Theorem notify_returns_nothing cfg ctx strict base g m pos kw q :
  c_mws cfg = [] -> build_single g (NNotify m pos kw) = Ok q ->
  through_single cfg ctx strict base g (NNotify m pos kw) = (COk None, snd (handle_request cfg (norm_req q) ctx)).
Proof.
  intros Hm Hb. rewrite (through_single_request cfg ctx strict base g _ q Hm Hb).
  assert (Hi : r_id q = None).
  { cbn in Hb. unfold bind in Hb. destruct (mk_params pos kw); inv_res. reflexivity. }
  pose proof (handle_request_answer_ok cfg (norm_req q) ctx) as Ha. unfold answer_ok in Ha. rewrite norm_req_id, Hi in Ha.
  destruct (fst (handle_request cfg (norm_req q) ctx)); [contradiction|reflexivity].
Qed.

(* ---------- the wire document ---------- *)
Theorem single_wire g n q : build_single g n = Ok q ->
  valid_request_json (req_to_json q) = true /\ req_from_json (req_to_json q) = Ok (norm_req q).
Proof.
  intros _. destruct (req_roundtrip q) as [H _]. split; auto. apply req_from_json_ok_iff. eauto.
Qed.

(* ---------- batches ---------- *)
Lemma fold_append_inv rs : forall acc b, binv r_id acc ->
  fold_left (fun a r => do b <- a ; breq_append b r) rs (Ok acc) = Ok b ->
  binv r_id b /\ b_items b = b_items acc ++ rs.
Proof.
  induction rs as [|r rs IH]; cbn; intros acc b Hacc H.
  - inv_res. rewrite app_nil_r. auto.
  - destruct (breq_append acc r) as [acc'|x] eqn:E.
    + unfold breq_append, batch_append in E. destruct (batch_extend_ok r_id acc [r] acc' Hacc E) as [Hb [Hi _]].
      destruct (IH acc' b Hb H) as [A B]. split; auto. rewrite B, Hi, <- app_assoc. reflexivity.
    + exfalso. clear -H. induction rs as [|r' rs IH]; cbn in H; [discriminate|auto].
Qed.
Lemma build_batch_inv g n bq : build_batch g n = Ok bq -> binv r_id bq.
Proof.
  destruct n as [items|items|rs]; cbn; unfold bind.
  - destruct (build_items g 0 items) as [rs|]; [|discriminate]. intros H.
    destruct (fold_append_inv rs batch_empty bq (binv_empty _) H). auto.
  - destruct (build_getitem g 0 items) as [rs|]; [|discriminate]. intros H.
    unfold breq_extend in H. destruct (batch_extend_ok r_id batch_empty rs bq (binv_empty _) H). auto.
  - intros H. unfold breq_extend in H. destruct (batch_extend_ok r_id batch_empty rs bq (binv_empty _) H). auto.
Qed.

(* responses aligned with the calls: the k-th response answers the k-th call *)
Inductive aligned : list request -> list response -> Prop :=
| al_nil : aligned [] []
| al_note q qs rs : r_id q = None -> aligned qs rs -> aligned (q :: qs) rs
| al_call q qs r rs i : r_id q = Some i -> resp_id r = Some i -> aligned qs rs -> aligned (q :: qs) (r :: rs).

Lemma aligned_handler (h : request -> json -> option response * log) ctx : handler_answer_ok h -> forall qs,
  aligned qs (cat_some (map (fun q => fst (h q ctx)) qs)).
Proof.
  intros Hh qs. induction qs as [|q qs IH]; cbn; [constructor|].
  pose proof (Hh q ctx) as Ha. unfold answer_ok in Ha. destruct (r_id q) as [i|] eqn:Ei; destruct (fst (h q ctx)) as [x|]; try contradiction.
  - eapply al_call; eauto.
  - apply al_note; auto.
Qed.
Lemma aligned_map_req f qs rs : (forall q, r_id (f q) = r_id q) -> aligned (map f qs) rs -> aligned qs rs.
Proof.
  intros Hf. revert rs. induction qs as [|q qs IH]; cbn; intros rs H.
  - inversion H; constructor.
  - inversion H as [|q' qs' rs' Hq Hal|q' qs' r rs' i Hq Hr Hal]; subst.
    + apply al_note; [rewrite <- Hf; exact Hq|apply IH; exact Hal].
    + eapply al_call; [rewrite <- Hf; exact Hq|exact Hr|apply IH; exact Hal].
Qed.
Lemma aligned_map_resp f qs rs : (forall r, resp_id (f r) = resp_id r) -> aligned qs rs -> aligned qs (map f rs).
Proof.
  intros Hf H. induction H; cbn; [constructor|apply al_note; auto|eapply al_call; eauto]. rewrite Hf; auto.
Qed.

Lemma aligned_relate strict qs rs : aligned qs rs -> relate_loop strict qs (response_map rs) = Ok (rs, []).
Proof.
  intros H. induction H as [|q qs rs Hq _ IH|q qs r rs i Hq Hr _ IH]; cbn.
  - reflexivity.
  - rewrite Hq. exact IH.
  - rewrite Hq. unfold response_map. cbn [map cat_some]. rewrite Hr. cbn [cat_some pop_id]. rewrite id_eqb_refl.
    fold (response_map rs). unfold bind. rewrite IH. reflexivity.
Qed.
Lemma aligned_all_related qs rs : aligned qs rs -> filter (fun r => negb (is_related rs r)) rs = [].
Proof.
  intros H. assert (Hall : forall r, In r rs -> exists i, resp_id r = Some i).
  { induction H; cbn; [tauto|auto|]. intros x [<-|Hx]; eauto. }
  clear H. assert (G : forall l, (forall r, In r l -> In r rs) -> filter (fun r => negb (is_related rs r)) l = []).
  { induction l as [|a l IH]; cbn; auto. intros Hl. destruct (Hall a (Hl a (or_introl eq_refl))) as [i Hi].
    unfold is_related at 1. rewrite Hi.
    assert (E : existsb (fun x => option_eqb id_eqb (resp_id x) (Some i)) rs = true).
    { apply existsb_exists. exists a. split; [apply Hl; cbn; auto|]. rewrite Hi. cbn. apply id_eqb_refl. }
    rewrite E. cbn. apply IH. intros; apply Hl; cbn; auto. }
  apply G. auto.
Qed.
Lemma aligned_notifications qs rs : aligned qs rs ->
  (forallb (fun r => match r_id r with None => true | Some _ => false end) qs = true <-> rs = []).
Proof.
  intros H. induction H as [|q qs rs Hq _ IH|q qs r rs i Hq Hr _ IH]; cbn.
  - tauto.
  - rewrite Hq. cbn. exact IH.
  - rewrite Hq. cbn. split; discriminate.
Qed.

Theorem through_batch_request cfg ctx strict base g n bq :
  c_mws cfg = [] -> c_max_batch cfg = None -> build_batch g n = Ok bq -> b_items bq <> [] ->
  let outs := map (fun q => handle_request cfg (norm_req q) ctx) (b_items bq) in
  let resps := map (reclass error_registry "JsonRpcError") (cat_some (map fst outs)) in
  exists ids,
  through_batch cfg ctx strict base g n =
  (if breq_is_notification bq then COk None else COk (Some (BList {| b_items := resps; b_ids := ids |})),
   List.concat (map snd outs))
  /\ aligned (b_items bq) resps.
Proof.
  intros Hm Hmb Hb Hne outs resps. pose proof (build_batch_inv g n bq Hb) as Hinv.
  destruct (breq_roundtrip bq Hinv Hne) as [Hrt _].
  assert (Hal0 : aligned (map norm_req (b_items bq)) (cat_some (map (fun q => fst (handle_request cfg q ctx)) (map norm_req (b_items bq))))).
  { apply aligned_handler. apply handle_request_answer_ok. }
  assert (Hal : aligned (b_items bq) resps).
  { subst resps outs. rewrite map_map. apply aligned_map_resp; [apply reclass_id|].
    apply (aligned_map_req norm_req); [apply norm_req_id|]. rewrite map_map in Hal0. exact Hal0. }
  unfold through_batch, serve. rewrite Hb. unfold breq_to_json in *. cbn [dispatch]. rewrite Hrt. cbn [b_items].
  unfold too_large. rewrite Hmb. rewrite (no_mws_handler cfg Hm). rewrite !map_map.
  (* the response batch is well formed: ids of responses are ids of distinct calls *)
  assert (Hh : handler_id_ok (handle_request cfg)) by (intros r c; apply answer_ok_id_ok, handle_request_answer_ok).
  assert (Hn : NoDup (cat_some (map r_id (map norm_req (b_items bq))))).
  { destruct Hinv as [Hi Hn']. rewrite Hi in Hn'. rewrite map_map.
    rewrite (map_ext (fun x => r_id (norm_req x)) r_id) by (intros; apply norm_req_id). exact Hn'. }
  pose proof (responses_nodup (handle_request cfg) ctx Hh (map norm_req (b_items bq)) Hn) as Hr. rewrite map_map in Hr.
  set (rs := cat_some (map (fun x => fst (handle_request cfg (norm_req x) ctx)) (b_items bq))) in *.
  destruct (batch_extend resp_id batch_empty rs) as [rb|x] eqn:Erb.
  2:{ exfalso. apply add_ids_iff in Hr. destruct Hr as [s Hs]. unfold batch_extend, bind in Erb. cbn in Erb. rewrite Hs in Erb. discriminate. }
  destruct (batch_extend_ok resp_id batch_empty rs rb (binv_empty _) Erb) as [Hrb [Hitems Hids]]. cbn in Hitems, Hids.
  exists (b_ids rb). split; [|exact Hal].
  assert (Hnote : breq_is_notification bq = true <-> rs = []).
  { unfold breq_is_notification. pose proof (aligned_notifications (b_items bq) resps Hal) as Hn0.
    assert (Hr0 : resps = [] <-> rs = []).
    { subst resps outs. rewrite map_map. fold rs. destruct rs; cbn; split; intros; try reflexivity; discriminate. }
    tauto. }
  assert (Elog : List.concat (map (fun x => snd (handle_request cfg (norm_req x) ctx)) (b_items bq)) = List.concat (map snd outs)).
  { subst outs. rewrite map_map. reflexivity. }
  rewrite Hitems. destruct rs as [|r0 rs0] eqn:Ers.
  - destruct Hnote as [_ Hn2]. unfold recv_batch. rewrite (Hn2 eq_refl). cbn. rewrite andb_false_r, Elog. reflexivity.
  - assert (Hnn : breq_is_notification bq = false).
    { destruct (breq_is_notification bq) eqn:E; auto. destruct Hnote as [Hn1 _]. discriminate (Hn1 eq_refl). }
    unfold recv_batch. rewrite Hnn.
    pose proof (bresp_roundtrip error_registry base (BList rb) Hrb) as Hbr. cbn [bresp_to_json] in Hbr. rewrite Hitems in Hbr.
    unfold lift, bind. rewrite Hbr.
    assert (Eres : map (reclass error_registry "JsonRpcError") (r0 :: rs0) = resps).
    { subst resps outs. rewrite map_map. fold rs. rewrite Ers. reflexivity. }
    rewrite Eres. unfold relate_batch, bind. cbn [b_items b_ids].
    rewrite (aligned_relate strict (b_items bq) resps Hal). rewrite (aligned_all_related _ _ Hal), app_nil_r.
    rewrite Elog. reflexivity.
Qed.
