(* Proofs about Model/Msg.v : totality, strictness, exactness, batch invariants, round trips. *)
From Coq Require Import ZArith List String Ascii Bool Lia.
From PJ Require Import Base.Json Base.Res Model.Msg Lemmas.Tactics.
Import ListNotations.
Open Scope string_scope.

(* ---------- json_eqb is equality ---------- *)
Lemma json_eqb_refl j : json_eqb j j = true.
Proof.
  induction j using json_ind'; cbn; auto using Bool.eqb_reflx, Z.eqb_refl, String.eqb_refl.
  - induction H; auto. rewrite H; auto.
  - induction H; auto. destruct x as [k v]; cbn in *. rewrite String.eqb_refl, H; auto.
Qed.

Lemma json_eqb_eq a : forall b, json_eqb a b = true -> a = b.
Proof.
  induction a using json_ind'; intros b0 E; destruct b0; cbn in E; try discriminate; auto.
  - apply Bool.eqb_prop in E; subst; auto.
  - apply Z.eqb_eq in E; subst; auto.
  - apply String.eqb_eq in E; subst; auto.
  - apply String.eqb_eq in E; subst; auto.
  - f_equal. revert l0 E. induction H; intros [|b l0] E; try discriminate; auto.
    apply andb_prop in E; destruct E as [E1 E2]. f_equal; auto.
  - f_equal. revert kvs0 E. induction H; intros [|[k' b] l0] E; try discriminate; auto.
    + destruct x; discriminate.
    + destruct x as [k v]; cbn in *.
      apply andb_prop in E; destruct E as [E1 E2]. apply andb_prop in E1; destruct E1 as [E0 E1].
      apply String.eqb_eq in E0; subst. f_equal; auto. f_equal; auto.
Qed.

Lemma json_eqb_iff a b : json_eqb a b = true <-> a = b.
Proof. split; [apply json_eqb_eq | intros ->; apply json_eqb_refl]. Qed.

Lemma id_eqb_eq a b : id_eqb a b = true <-> a = b.
Proof.
  destruct a, b; cbn; split; intros H; try discriminate; try congruence.
  - apply Z.eqb_eq in H; congruence.
  - inversion H; apply Z.eqb_refl.
  - apply String.eqb_eq in H; congruence.
  - inversion H; apply String.eqb_refl.
Qed.

Lemma mem_id_In i l : mem_id i l = true <-> In i l.
Proof.
  unfold mem_id. rewrite existsb_exists. split.
  - intros [x [Hin E]]. apply id_eqb_eq in E; subst; auto.
  - intros Hin; exists i; split; auto. apply id_eqb_eq; auto.
Qed.

(* ---------- C06: totality (only the deserialisation error escapes) ---------- *)
Lemma parse_id_exn o x : parse_id o = Raise x -> x = XDeser.
Proof. unfold parse_id; intros H; repeat dm; inv_res; reflexivity. Qed.

Lemma err_from_json_exn rg base j x : err_from_json rg base j = Raise x -> x = XDeser.
Proof. unfold err_from_json; intros H; repeat dm; inv_res; reflexivity. Qed.

Lemma req_from_json_exn j x : req_from_json j = Raise x -> x = XDeser.
Proof.
  unfold req_from_json, bind; intros H; repeat (dm; inv_res); auto;
  match goal with H : parse_id _ = Raise _ |- _ => apply parse_id_exn in H; subst; auto end.
Qed.

Lemma resp_from_json_exn rg base j x : resp_from_json rg base j = Raise x -> x = XDeser.
Proof.
  unfold resp_from_json, bind; intros H; repeat (dm; inv_res); auto;
  repeat match goal with
  | H : parse_id _ = Raise _ |- _ => apply parse_id_exn in H; subst
  | H : err_from_json _ _ _ = Raise _ |- _ => apply err_from_json_exn in H; subst
  end; auto.
Qed.

Lemma add_ids_exn ids : forall seen x, add_ids seen ids = Raise x -> x = XIdentity.
Proof.
  induction ids as [|[i|] q IH]; cbn; intros seen x H; try discriminate; eauto.
  destruct (mem_id i seen); inv_res; eauto.
Qed.

Lemma batch_extend_exn {A} (idof : A -> option idv) b xs x : batch_extend idof b xs = Raise x -> x = XIdentity.
Proof.
  unfold batch_extend, bind; intros H. destruct (add_ids _ _) eqn:E; inv_res. eapply add_ids_exn; eauto.
Qed.

Lemma breq_from_json_exn j x : breq_from_json j = Raise x -> x = XDeser \/ x = XIdentity.
Proof.
  unfold breq_from_json, breq_extend, bind; intros H.
  destruct j; inv_res; auto. destruct l as [|a l]; inv_res; auto.
  destruct (mapM req_from_json (a :: l)) eqn:E.
  - right. eapply batch_extend_exn; eauto.
  - inv_res. apply mapM_raise in E. destruct E as [e [_ He]]. apply req_from_json_exn in He; auto.
Qed.

Lemma bresp_from_json_exn rg base j x : bresp_from_json rg base j = Raise x -> x = XDeser \/ x = XIdentity.
Proof.
  unfold bresp_from_json, bind; intros H. destruct j; inv_res; auto.
  - destruct (mapM _ l) eqn:E.
    + destruct (batch_extend resp_id batch_empty a) eqn:E2; inv_res. right. eapply batch_extend_exn; eauto.
    + inv_res. apply mapM_raise in E. destruct E as [e [_ He]]. apply resp_from_json_exn in He; auto.
  - repeat (dm; inv_res); auto;
    match goal with H : err_from_json _ _ _ = Raise _ |- _ => apply err_from_json_exn in H; auto end.
Qed.

(* ---------- C06: strictness and exactness: accepted <-> grammatical ---------- *)
Lemma parse_id_ok_iff o : (exists i, parse_id o = Ok i) <-> valid_id_member o = true.
Proof.
  unfold parse_id, valid_id_member; split.
  - intros [i H]; repeat dm; inv_res; reflexivity.
  - intros H; repeat dm; try discriminate; eexists; reflexivity.
Qed.

Lemma err_from_json_ok_iff rg base j : (exists e, err_from_json rg base j = Ok e) <-> valid_error_json j = true.
Proof.
  unfold err_from_json, valid_error_json; split.
  - intros [e H]; repeat dm; inv_res; try reflexivity; try discriminate.
  - intros H; repeat dm; try discriminate; eexists; reflexivity.
Qed.

Lemma version_check kvs v : get "jsonrpc" kvs = Some v ->
  valid_version kvs = json_eqb v (JStr "2.0").
Proof.
  unfold valid_version; intros ->. destruct v; cbn; auto.
Qed.

Lemma req_from_json_ok_iff j : (exists r, req_from_json j = Ok r) <-> valid_request_json j = true.
Proof.
  unfold req_from_json, valid_request_json, bind; split.
  - intros [r H]. destruct j; inv_res.
    destruct (get "jsonrpc" kvs) eqn:Ev; inv_res. rewrite (version_check _ _ Ev).
    destruct (json_eqb j (JStr "2.0")); cbn in *; inv_res.
    destruct (parse_id (get "id" kvs)) eqn:Ei; inv_res.
    assert (Hv : valid_id_member (get "id" kvs) = true) by (apply parse_id_ok_iff; eauto).
    rewrite Hv. repeat (dm; inv_res); try discriminate; reflexivity.
  - intros H. destruct j; try discriminate.
    destruct (get "jsonrpc" kvs) eqn:Ev; [|unfold valid_version in H; rewrite Ev in H; discriminate].
    rewrite (version_check _ _ Ev) in H.
    destruct (json_eqb j (JStr "2.0")); cbn in *; try discriminate.
    destruct (valid_id_member (get "id" kvs)) eqn:Hv; cbn in *; try discriminate.
    apply parse_id_ok_iff in Hv. destruct Hv as [i ->].
    repeat (dmH H; try discriminate); eexists; reflexivity.
Qed.

Lemma resp_from_json_ok_iff rg base j : (exists r, resp_from_json rg base j = Ok r) <-> valid_response_json j = true.
Proof.
  unfold resp_from_json, valid_response_json, bind; split.
  - intros [r H]. destruct j; inv_res.
    destruct (get "jsonrpc" kvs) eqn:Ev; inv_res. rewrite (version_check _ _ Ev).
    destruct (json_eqb j (JStr "2.0")); cbn in *; inv_res.
    destruct (parse_id (get "id" kvs)) eqn:Ei; inv_res.
    assert (Hv : valid_id_member (get "id" kvs) = true) by (apply parse_id_ok_iff; eauto).
    rewrite Hv. cbn.
    destruct (get "error" kvs) eqn:Ee.
    + destruct (err_from_json rg base j0) eqn:Ee2; inv_res.
      assert (He : valid_error_json j0 = true) by (apply (err_from_json_ok_iff rg base); eauto).
      destruct (get "result" kvs); inv_res. auto.
    + destruct (get "result" kvs); inv_res. auto.
  - intros H. destruct j; try discriminate.
    destruct (get "jsonrpc" kvs) eqn:Ev; [|unfold valid_version in H; rewrite Ev in H; discriminate].
    rewrite (version_check _ _ Ev) in H.
    destruct (json_eqb j (JStr "2.0")); cbn in *; try discriminate.
    destruct (valid_id_member (get "id" kvs)) eqn:Hv; cbn in *; try discriminate.
    apply parse_id_ok_iff in Hv. destruct Hv as [i ->].
    destruct (get "result" kvs), (get "error" kvs) eqn:Ee; try discriminate.
    + eexists; reflexivity.
    + apply (err_from_json_ok_iff rg base) in H. destruct H as [e ->]. eexists; reflexivity.
Qed.

(* what a successful parse returns *)
Lemma req_from_json_id j r : req_from_json j = Ok r -> r_id r = doc_id j.
Proof.
  unfold req_from_json, doc_id, bind, parse_id; intros H.
  repeat (dm; inv_res); cbn; try reflexivity; try discriminate.
Qed.
Lemma resp_from_json_id rg base j r : resp_from_json rg base j = Ok r -> resp_id r = doc_id j.
Proof.
  unfold resp_from_json, doc_id, bind, parse_id; intros H.
  repeat (dm; inv_res); cbn; try reflexivity; try discriminate.
Qed.

(* add_ids characterised *)
Lemma add_ids_ok ids : forall seen s, add_ids seen ids = Ok s -> s = (seen ++ cat_some ids)%list.
Proof.
  induction ids as [|[i|] q IH]; cbn; intros seen s H.
  - inv_res. rewrite app_nil_r; auto.
  - destruct (mem_id i seen); inv_res. apply IH in H. rewrite <- app_assoc in H. exact H.
  - eauto.
Qed.

(* duplicate-freeness, as a Prop *)
Lemma add_ids_ok_nodup ids : forall seen s, NoDup seen -> add_ids seen ids = Ok s -> NoDup s.
Proof.
  induction ids as [|[i|] q IH]; cbn; intros seen s Hn H.
  - inv_res; auto.
  - destruct (mem_id i seen) eqn:E; inv_res. eapply IH; [|exact H].
    apply NoDup_app_intro_snoc; auto. intros Hin. apply mem_id_In in Hin. congruence.
  - eauto.
Qed.

Lemma add_ids_complete ids : forall seen, NoDup (seen ++ cat_some ids)%list -> exists s, add_ids seen ids = Ok s.
Proof.
  induction ids as [|[i|] q IH]; cbn; intros seen Hn.
  - eexists; reflexivity.
  - destruct (mem_id i seen) eqn:E.
    + exfalso. apply mem_id_In in E. apply NoDup_remove_2 in Hn. apply Hn. rewrite in_app_iff; auto.
    + apply IH. rewrite <- app_assoc. exact Hn.
  - auto.
Qed.

Lemma add_ids_iff ids : (exists s, add_ids [] ids = Ok s) <-> NoDup (cat_some ids).
Proof.
  split.
  - intros [s H]. pose proof (add_ids_ok _ _ _ H) as E. cbn in E. subst.
    eapply add_ids_ok_nodup in H; [exact H | constructor].
  - intros H. apply (add_ids_complete ids []). exact H.
Qed.

(* ---------- batch invariant, for every history ---------- *)
Definition binv {A} (idof : A -> option idv) (b : batch A) : Prop :=
  b_ids b = cat_some (map idof (b_items b)) /\ NoDup (b_ids b).

Lemma cat_some_app {A} (l1 l2 : list (option A)) : cat_some (l1 ++ l2) = (cat_some l1 ++ cat_some l2)%list.
Proof. induction l1 as [|[a|] l1 IH]; cbn; auto. rewrite IH; auto. Qed.

Lemma binv_empty {A} (idof : A -> option idv) : binv idof batch_empty.
Proof. split; cbn; auto. constructor. Qed.

Lemma batch_extend_ok {A} (idof : A -> option idv) b xs b' :
  binv idof b -> batch_extend idof b xs = Ok b' ->
  binv idof b' /\ b_items b' = (b_items b ++ xs)%list /\ b_ids b' = (b_ids b ++ cat_some (map idof xs))%list.
Proof.
  unfold batch_extend, bind; intros [Hi Hn] H. destruct (add_ids _ _) eqn:E; inv_res. cbn.
  pose proof (add_ids_ok _ _ _ E) as Es. pose proof (add_ids_ok_nodup _ _ _ Hn E) as Hn'.
  subst a. unfold binv; cbn. repeat split; auto. rewrite map_app, cat_some_app, Hi. reflexivity.
Qed.

Lemma batch_step_inv {A} (idof : A -> option idv) b o b' r :
  binv idof b -> batch_step idof b o = (b', r) -> binv idof b'.
Proof.
  intros Hb H. destruct o; cbn in H; unfold batch_extend_st in H;
  match type of H with context [batch_extend ?f ?b ?l] => destruct (batch_extend f b l) eqn:E end; inv_res; auto;
  eapply batch_extend_ok in E; intuition eauto.
Qed.

Theorem batch_run_inv {A} (idof : A -> option idv) ops : forall b b' rs,
  binv idof b -> batch_run idof b ops = (b', rs) -> binv idof b'.
Proof.
  induction ops as [|o q IH]; cbn; intros b b' rs Hb H.
  - inv_res; auto.
  - destruct (batch_step idof b o) eqn:E1. destruct (batch_run idof b0 q) eqn:E2. inv_res.
    eapply IH; [|exact E2]. eapply batch_step_inv; eauto.
Qed.

(* a failed mutation raises the identity error and leaves the batch as it was *)
Theorem batch_step_atomic {A} (idof : A -> option idv) b o b' x :
  batch_step idof b o = (b', Some x) -> b' = b /\ x = XIdentity.
Proof.
  intros H. destruct o; cbn in H; unfold batch_extend_st in H;
  match type of H with context [batch_extend ?f ?b ?l] => destruct (batch_extend f b l) eqn:E end; inv_res;
  split; auto; eapply batch_extend_exn; eauto.
Qed.

Theorem batch_append_dup {A} (idof : A -> option idv) b m i :
  idof m = Some i -> In i (b_ids b) -> batch_step idof b (OpAppend m) = (b, Some XIdentity).
Proof.
  intros Hi Hin. cbn. unfold batch_extend_st, batch_extend, bind. cbn. rewrite Hi.
  apply mem_id_In in Hin. rewrite Hin. reflexivity.
Qed.

Theorem batch_append_fresh {A} (idof : A -> option idv) b m :
  (forall i, idof m = Some i -> ~ In i (b_ids b)) ->
  batch_step idof b (OpAppend m) =
    ({| b_items := b_items b ++ [m]; b_ids := b_ids b ++ cat_some [idof m] |}, None).
Proof.
  intros Hf. cbn. unfold batch_extend_st, batch_extend, bind. cbn.
  destruct (idof m) as [i|] eqn:Hi; cbn.
  - destruct (mem_id i (b_ids b)) eqn:E.
    + apply mem_id_In in E. exfalso; eapply Hf; eauto.
    + reflexivity.
  - rewrite app_nil_r. reflexivity.
Qed.

Theorem batch_extend_dup {A} (idof : A -> option idv) b xs :
  binv idof b ->
  ~ NoDup (b_ids b ++ cat_some (map idof xs))%list -> batch_step idof b (OpExtend xs) = (b, Some XIdentity).
Proof.
  intros [_ Hn] Hd. cbn. unfold batch_extend_st, batch_extend, bind.
  destruct (add_ids (b_ids b) (map idof xs)) eqn:E.
  - exfalso. apply Hd. pose proof (add_ids_ok _ _ _ E); subst. eapply add_ids_ok_nodup; eauto.
  - apply add_ids_exn in E. subst. reflexivity.
Qed.

Theorem batch_extend_fresh {A} (idof : A -> option idv) b xs :
  NoDup (b_ids b ++ cat_some (map idof xs))%list ->
  batch_step idof b (OpExtend xs) =
    ({| b_items := b_items b ++ xs; b_ids := b_ids b ++ cat_some (map idof xs) |}, None).
Proof.
  intros Hn. cbn. unfold batch_extend_st, batch_extend, bind.
  destruct (add_ids_complete _ _ Hn) as [s Hs]. rewrite Hs.
  pose proof (add_ids_ok _ _ _ Hs); subst. reflexivity.
Qed.

(* ---------- C06: batches are strict ---------- *)
Lemma mapM_req_ids l rs : mapM req_from_json l = Ok rs -> map r_id rs = map doc_id l.
Proof.
  intros H; apply mapM_ok in H. induction H; cbn; auto. f_equal; auto. apply req_from_json_id; auto.
Qed.
Lemma mapM_resp_ids rg base l rs : mapM (resp_from_json rg base) l = Ok rs -> map resp_id rs = map doc_id l.
Proof.
  intros H; apply mapM_ok in H. induction H; cbn; auto. f_equal; auto. eapply resp_from_json_id; eauto.
Qed.

Lemma forallb_mapM_req l : (exists rs, mapM req_from_json l = Ok rs) <-> forallb valid_request_json l = true.
Proof.
  split.
  - intros [rs H]. apply mapM_ok in H. induction H; cbn; auto.
    rewrite IHForall2, andb_true_r. apply req_from_json_ok_iff; eauto.
  - intros H. apply mapM_ok_intro. intros a Ha. rewrite forallb_forall in H.
    apply req_from_json_ok_iff; auto.
Qed.
Lemma forallb_mapM_resp rg base l :
  (exists rs, mapM (resp_from_json rg base) l = Ok rs) <-> forallb valid_response_json l = true.
Proof.
  split.
  - intros [rs H]. apply mapM_ok in H. induction H; cbn; auto.
    rewrite IHForall2, andb_true_r. apply (resp_from_json_ok_iff rg base); eauto.
  - intros H. apply mapM_ok_intro. intros a Ha. rewrite forallb_forall in H.
    apply resp_from_json_ok_iff; auto.
Qed.

Theorem breq_from_json_ok_iff j :
  (exists b, breq_from_json j = Ok b) <->
  (valid_breq_json j = true /\ exists l, j = JArr l /\ NoDup (cat_some (map doc_id l))).
Proof.
  split.
  - intros [b H]. unfold breq_from_json, breq_extend, batch_extend, bind in H.
    destruct j; inv_res. destruct l as [|a l]; inv_res.
    destruct (mapM req_from_json (a :: l)) eqn:E; inv_res.
    destruct (add_ids _ _) eqn:E2; inv_res.
    split.
    + cbn [valid_breq_json]. apply forallb_mapM_req; eauto.
    + eexists; split; eauto. rewrite <- (mapM_req_ids _ _ E). apply add_ids_iff; eauto.
  - intros [Hv [l [-> Hn]]]. unfold breq_from_json, breq_extend, batch_extend, bind.
    destruct l as [|a l]; [discriminate|]. cbn [valid_breq_json] in Hv.
    apply forallb_mapM_req in Hv. destruct Hv as [rs Hrs]. rewrite Hrs.
    rewrite <- (mapM_req_ids _ _ Hrs) in Hn. apply add_ids_iff in Hn. destruct Hn as [s Hs].
    cbn [b_ids batch_empty]. rewrite Hs. eexists; reflexivity.
Qed.

Theorem bresp_from_json_ok_iff rg base j :
  (exists b, bresp_from_json rg base j = Ok b) <->
  (valid_bresp_json j = true /\ forall l, j = JArr l -> NoDup (cat_some (map doc_id l))).
Proof.
  split.
  - intros [b H]. unfold bresp_from_json, batch_extend, bind in H. destruct j; inv_res.
    + destruct (mapM _ l) eqn:E; inv_res. destruct (add_ids _ _) eqn:E2; inv_res. split.
      * cbn. apply (forallb_mapM_resp rg "JsonRpcError"); eauto.
      * intros l' El; inversion El; subst. rewrite <- (mapM_resp_ids _ _ _ _ E). apply add_ids_iff; eauto.
    + destruct (get "jsonrpc" kvs) eqn:Ev; inv_res. split; [|intros; discriminate].
      cbn. rewrite (version_check _ _ Ev).
      destruct (json_eqb j (JStr "2.0")); cbn in *; inv_res.
      repeat (dm; inv_res); try discriminate;
      match goal with H : err_from_json _ _ ?e = Ok _ |- _ =>
        assert (valid_error_json e = true) by (apply (err_from_json_ok_iff rg base); eauto) end; auto.
  - intros [Hv Hn]. unfold bresp_from_json, batch_extend, bind. destruct j; try discriminate.
    + cbn in Hv. apply (forallb_mapM_resp rg "JsonRpcError") in Hv. destruct Hv as [rs Hrs]. rewrite Hrs.
      specialize (Hn l eq_refl). rewrite <- (mapM_resp_ids _ _ _ _ Hrs) in Hn.
      apply add_ids_iff in Hn. destruct Hn as [s Hs]. cbn [b_ids batch_empty]. rewrite Hs. eexists; reflexivity.
    + cbn in Hv. destruct (get "jsonrpc" kvs) eqn:Ev; [|unfold valid_version in Hv; rewrite Ev in Hv; discriminate].
      rewrite (version_check _ _ Ev) in Hv.
      destruct (json_eqb j (JStr "2.0")); cbn in *; try discriminate.
      destruct (get "error" kvs) eqn:Ee; [|rewrite andb_false_r in Hv; discriminate].
      apply andb_prop in Hv. destruct Hv as [Hid He].
      apply (err_from_json_ok_iff rg base) in He. destruct He as [e ->].
      destruct (get "id" kvs) as [[]|]; try discriminate; eexists; reflexivity.
Qed.

(* ---------- C05: one trip over the wire ---------- *)
Lemma req_roundtrip r :
  req_from_json (req_to_json r) = Ok (norm_req r) /\ req_to_json (norm_req r) = req_to_json r.
Proof.
  destruct r as [m p i]. unfold norm_req, norm_params, req_to_json; cbn [r_method r_params r_id].
  destruct i as [[z|s]|]; destruct p as [|[|x l]|[|kv d]]; cbn; split; reflexivity.
Qed.

Lemma err_roundtrip rg base e :
  err_from_json rg base (err_to_json e) = Ok (reclass_err rg base e)
  /\ err_to_json (reclass_err rg base e) = err_to_json e.
Proof.
  destruct e as [c m d cl]. unfold err_to_json, reclass_err, mk_error; cbn.
  destruct d; cbn; split; reflexivity.
Qed.

Lemma resp_roundtrip rg base r :
  resp_from_json rg base (resp_to_json r) = Ok (reclass rg base r)
  /\ resp_to_json (reclass rg base r) = resp_to_json r.
Proof.
  destruct r as [i v|i e].
  - destruct i as [[z|s]|]; cbn; split; reflexivity.
  - destruct (err_roundtrip rg base e) as [H1 H2].
    unfold resp_to_json, resp_from_json, reclass.
    assert (G : forall x, get "jsonrpc" [("jsonrpc", JStr "2.0"); ("id", x); ("error", err_to_json e)] = Some (JStr "2.0")
                /\ get "id" [("jsonrpc", JStr "2.0"); ("id", x); ("error", err_to_json e)] = Some x
                /\ get "error" [("jsonrpc", JStr "2.0"); ("id", x); ("error", err_to_json e)] = Some (err_to_json e)
                /\ get "result" [("jsonrpc", JStr "2.0"); ("id", x); ("error", err_to_json e)] = None)
      by (intros; repeat split).
    destruct (G (id_json i)) as [G1 [G2 [G3 G4]]]. rewrite G1, G2, G3, G4, H2.
    change (json_eqb (JStr "2.0") (JStr "2.0")) with true. cbv iota. unfold negb.
    unfold bind. rewrite H1.
    destruct i as [[z|s]|]; cbn; split; reflexivity.
Qed.

Lemma mapM_map_ok {A B C} (g : A -> B) (f : B -> res C) (h : A -> C) l :
  (forall a, f (g a) = Ok (h a)) -> mapM f (map g l) = Ok (map h l).
Proof. intros H. induction l as [|a l IH]; cbn; auto. unfold bind. rewrite H, IH. reflexivity. Qed.

Lemma norm_req_id r : r_id (norm_req r) = r_id r.
Proof. reflexivity. Qed.

Lemma breq_roundtrip b :
  binv r_id b -> b_items b <> [] ->
  breq_from_json (breq_to_json b) = Ok {| b_items := map norm_req (b_items b); b_ids := b_ids b |}
  /\ breq_to_json {| b_items := map norm_req (b_items b); b_ids := b_ids b |} = breq_to_json b.
Proof.
  intros [Hi Hn] Hne. unfold breq_to_json, breq_from_json. cbn [b_items].
  destruct (b_items b) as [|r0 rs] eqn:E; [congruence|]. clear Hne.
  split.
  - change (map req_to_json (r0 :: rs)) with (req_to_json r0 :: map req_to_json rs).
    cbv iota. change (req_to_json r0 :: map req_to_json rs) with (map req_to_json (r0 :: rs)).
    rewrite (mapM_map_ok req_to_json req_from_json norm_req); [|intros; apply req_roundtrip].
    unfold bind, breq_extend, batch_extend, bind. cbn [b_ids b_items batch_empty].
    rewrite map_map. cbn [norm_req r_id].
    replace (map (fun x : request => r_id x) (r0 :: rs)) with (map r_id (r0 :: rs)) by reflexivity.
    assert (Hnd : NoDup (cat_some (map r_id (r0 :: rs)))) by (rewrite <- Hi; exact Hn).
    destruct (add_ids_complete (map r_id (r0 :: rs)) [] Hnd) as [s Hs].
    rewrite Hs. pose proof (add_ids_ok _ _ _ Hs) as Es. cbn [app] in Es. subst s. rewrite <- Hi. reflexivity.
  - f_equal. rewrite map_map. apply map_ext. intros; apply req_roundtrip.
Qed.

Lemma bresp_roundtrip rg base b :
  match b with
  | BError e => bresp_from_json rg base (bresp_to_json b) = Ok (BError (reclass_err rg base e))
  | BList bl => binv resp_id bl ->
      bresp_from_json rg base (bresp_to_json b)
      = Ok (BList {| b_items := map (reclass rg "JsonRpcError") (b_items bl); b_ids := b_ids bl |})
  end.
Proof.
  destruct b as [e|bl].
  - destruct (err_roundtrip rg base e) as [H1 _].
    unfold bresp_to_json, resp_to_json, bresp_from_json.
    change (get "jsonrpc" [("jsonrpc", JStr "2.0"); ("id", id_json None); ("error", err_to_json e)]) with (Some (JStr "2.0")).
    change (get "id" [("jsonrpc", JStr "2.0"); ("id", id_json None); ("error", err_to_json e)]) with (Some JNull).
    change (get "error" [("jsonrpc", JStr "2.0"); ("id", id_json None); ("error", err_to_json e)]) with (Some (err_to_json e)).
    change (json_eqb (JStr "2.0") (JStr "2.0")) with true. cbv iota. unfold negb.
    unfold bind. rewrite H1. reflexivity.
  - intros [Hi Hn]. unfold bresp_to_json, bresp_from_json.
    rewrite (mapM_map_ok resp_to_json (resp_from_json rg "JsonRpcError") (reclass rg "JsonRpcError"));
      [|intros; apply resp_roundtrip].
    unfold bind, batch_extend, bind. cbn [b_ids b_items batch_empty].
    rewrite map_map.
    assert (Hm : map (fun x => resp_id (reclass rg "JsonRpcError" x)) (b_items bl) = map resp_id (b_items bl))
      by (apply map_ext; intros []; reflexivity).
    rewrite Hm.
    assert (Hnd : NoDup (cat_some (map resp_id (b_items bl)))) by (rewrite <- Hi; exact Hn).
    destruct (add_ids_complete (map resp_id (b_items bl)) [] Hnd) as [s Hs].
    rewrite Hs. pose proof (add_ids_ok _ _ _ Hs) as Es. cbn [app] in Es. subst s. rewrite <- Hi. reflexivity.
Qed.

Lemma bresp_rewire rg base b :
  match b with
  | BError e => bresp_to_json (BError (reclass_err rg base e)) = bresp_to_json b
  | BList bl => bresp_to_json (BList {| b_items := map (reclass rg base) (b_items bl); b_ids := b_ids bl |}) = bresp_to_json b
  end.
Proof.
  destruct b as [e|bl]; cbn.
  - destruct (err_roundtrip rg base e) as [_ H2]. rewrite H2. reflexivity.
  - f_equal. rewrite map_map. apply map_ext. intros; apply resp_roundtrip.
Qed.

(* ---------- C05: the wire form is exact ---------- *)
Lemma has_In_keys {V} k (kvs : list (string * V)) : has k kvs = true -> In k (map fst kvs).
Proof.
  unfold has. induction kvs as [|[k' v] q IH]; cbn; [discriminate|].
  destruct (String.eqb_spec k k'); [subst; auto|]. intros H; right; apply IH; exact H.
Qed.

Lemma req_wire r :
  exists kvs, req_to_json r = JObj kvs
  /\ get "jsonrpc" kvs = Some (JStr "2.0")
  /\ get "method" kvs = Some (JStr (r_method r))
  /\ get "id" kvs = match r_id r with None => None | Some _ => Some (id_json (r_id r)) end
  /\ get "params" kvs = (if params_truthy (r_params r) then Some (params_json (r_params r)) else None)
  /\ (forall k, has k kvs = true -> In k ["jsonrpc"; "method"; "id"; "params"]).
Proof.
  destruct r as [m p i]. unfold req_to_json; cbn [r_method r_params r_id]. eexists; split; [reflexivity|].
  destruct i as [[z|s]|]; destruct (params_truthy p); cbn; (repeat split);
    intros k Hk; apply has_In_keys in Hk; cbn in Hk; cbn; tauto.
Qed.

Lemma resp_wire r :
  exists kvs, resp_to_json r = JObj kvs
  /\ get "jsonrpc" kvs = Some (JStr "2.0")
  /\ get "id" kvs = Some (id_json (resp_id r))
  /\ match r with
     | RResult _ v => get "result" kvs = Some v /\ get "error" kvs = None
     | RError _ e => get "result" kvs = None /\ get "error" kvs = Some (err_to_json e)
     end.
Proof. destruct r; cbn; eexists; repeat split. Qed.

Lemma err_wire e :
  exists kvs, err_to_json e = JObj kvs
  /\ get "code" kvs = Some (JInt (e_code e)) /\ get "message" kvs = Some (JStr (e_msg e))
  /\ get "data" kvs = e_data e.
Proof. destruct e as [c m [d|] cl]; cbn; eexists; repeat split. Qed.

Lemma err_from_json_class rg base j e : err_from_json rg base j = Ok e -> e_class e = class_of rg base (e_code e).
Proof. unfold err_from_json; intros H; repeat (dm; inv_res); reflexivity. Qed.
