(* Proofs about Model/Async.v (C10): schedule independence of the gathered results, conservation of each
   element's trace under every interleaving, and the sequential driver. *)
From Coq Require Import List Arith Bool Lia.
From PJ Require Import Model.Async.
Import ListNotations.

Section L.
Context {Ev Res : Type}.
Notation slot := (slot Ev Res).
Notation st := (list slot).

Lemma step_slot_final (x : slot) : slot_final (fst (step_slot x)) = slot_final x.
Proof. destruct x as [c|r]; cbn; [|reflexivity]. destruct (segs c) as [|e [|e' rest]]; reflexivity. Qed.
Lemma step_slot_trace (x : slot) : snd (step_slot x) ++ slot_rest (fst (step_slot x)) = slot_rest x.
Proof.
  destruct x as [c|r]; cbn; [|reflexivity]. destruct (segs c) as [|e [|e' rest]]; cbn; auto.
Qed.

Lemma step_at_final i : forall s : st, map slot_final (fst (step_at i s)) = map slot_final s.
Proof.
  induction i as [|j IH]; intros [|x xs]; cbn; auto.
  - pose proof (step_slot_final x) as H. destruct (step_slot x); cbn in *. rewrite H. reflexivity.
  - pose proof (IH xs) as H. destruct (step_at j xs); cbn in *. rewrite H. reflexivity.
Qed.

(* the response array: results in request order, each element's own, under EVERY schedule *)
Theorem results_order_independent sched : forall s : st, map slot_final (fst (run sched s)) = map slot_final s.
Proof.
  induction sched as [|i r IH]; intros s; cbn; auto.
  pose proof (step_at_final i s) as H1. destruct (step_at i s) as [s1 e]. cbn in H1.
  pose proof (IH s1) as H2. destruct (run r s1) as [s2 t]. cbn in *. congruence.
Qed.
Lemma run_length sched : forall s : st, length (fst (run sched s)) = length s.
Proof. intros s. rewrite <- (map_length slot_final), results_order_independent, map_length. reflexivity. Qed.

(* stepping slot i emits events of element i only and conserves its trace *)
Lemma step_at_nth i : forall (s : st) x, nth_error s i = Some x ->
  nth_error (fst (step_at i s)) i = Some (fst (step_slot x)) /\ snd (step_at i s) = snd (step_slot x).
Proof.
  induction i as [|j IH]; intros [|y ys] x H; cbn in *; try discriminate.
  - inversion H; subst. destruct (step_slot x); cbn. auto.
  - destruct (IH ys x H) as [A B]. destruct (step_at j ys); cbn in *. auto.
Qed.
Lemma step_at_other i k : forall (s : st), i <> k -> nth_error (fst (step_at i s)) k = nth_error s k.
Proof.
  revert k. induction i as [|j IH]; intros k [|y ys] Hne; cbn; auto.
  - destruct (step_slot y). destruct k; [congruence|reflexivity].
  - destruct k as [|k']; [destruct (step_at j ys); reflexivity|].
    pose proof (IH k' ys) as H. destruct (step_at j ys); cbn in *. apply H. congruence.
Qed.
Lemma step_at_none i : forall (s : st), nth_error s i = None -> step_at i s = (s, []).
Proof.
  induction i as [|j IH]; intros [|y ys] H; cbn in *; auto; try discriminate.
  rewrite (IH ys H). reflexivity.
Qed.

Lemma proj_app k (a b : list (nat * Ev)) : proj k (a ++ b) = proj k a ++ proj k b.
Proof. unfold proj. rewrite filter_app, map_app. reflexivity. Qed.
Lemma proj_tagged_same k (e : list Ev) : proj k (map (pair k) e) = e.
Proof. unfold proj. induction e as [|x e IH]; cbn; auto. rewrite Nat.eqb_refl. cbn. rewrite IH. reflexivity. Qed.
Lemma proj_tagged_other k i (e : list Ev) : i <> k -> proj k (map (pair i) e) = [].
Proof. intros H. unfold proj. induction e as [|x e IH]; cbn; auto. destruct (Nat.eqb i k) eqn:E; [apply Nat.eqb_eq in E; congruence|auto]. Qed.

(* under ANY schedule: what element k has emitted so far, followed by what it has left, is its own sequential trace *)
Theorem trace_conserved sched : forall (s : st) k x, nth_error s k = Some x ->
  exists x', nth_error (fst (run sched s)) k = Some x' /\ proj k (snd (run sched s)) ++ slot_rest x' = slot_rest x
             /\ slot_final x' = slot_final x.
Proof.
  induction sched as [|i r IH]; intros s k x H; cbn.
  - exists x. auto.
  - destruct (Nat.eq_dec i k) as [->|Hne].
    + destruct (step_at_nth k s x H) as [A B]. destruct (step_at k s) as [s1 e]. cbn in A, B.
      destruct (IH s1 k _ A) as [x' [C [D F]]]. destruct (run r s1) as [s2 t]. cbn [fst snd] in *.
      exists x'. split; [exact C|]. split.
      * rewrite proj_app, proj_tagged_same, <- app_assoc, D, B. apply step_slot_trace.
      * rewrite F. apply step_slot_final.
    + pose proof (step_at_other i k s Hne) as A. destruct (step_at i s) as [s1 e]. cbn in A. rewrite <- A in H.
      destruct (IH s1 k x H) as [x' [C [D F]]]. destruct (run r s1) as [s2 t]. cbn [fst snd] in *.
      exists x'. split; [exact C|]. split; [|exact F]. rewrite proj_app, proj_tagged_other by exact Hne. exact D.
Qed.

Lemma finished_nth (s : st) k x : finished s = true -> nth_error s k = Some x -> slot_rest x = [].
Proof.
  unfold finished. rewrite forallb_forall. intros H Hn. apply nth_error_In in Hn. specialize (H x Hn). destruct x; [discriminate|reflexivity].
Qed.
(* once every element has finished: each element emitted exactly its own trace - every method ran exactly once *)
Theorem complete_traces sched (s : st) k x : finished (fst (run sched s)) = true -> nth_error s k = Some x ->
  proj k (snd (run sched s)) = slot_rest x.
Proof.
  intros Hf H. destruct (trace_conserved sched s k x H) as [x' [A [B _]]].
  rewrite (finished_nth _ _ _ Hf A), app_nil_r in B. exact B.
Qed.

(* ---------- the sequential driver ---------- *)
Lemma run_app a : forall b (s : st), run (a ++ b) s =
  let '(s1, t1) := run a s in let '(s2, t2) := run b s1 in (s2, t1 ++ t2).
Proof.
  induction a as [|i a IH]; intros b s; cbn.
  - destruct (run b s); reflexivity.
  - destruct (step_at i s) as [s1 e]. rewrite IH. destruct (run a s1) as [s2 t]. destruct (run b s2) as [s3 t']. rewrite app_assoc. reflexivity.
Qed.

Fixpoint iter_slot (n : nat) (x : slot) : slot * list Ev :=
  match n with O => (x, []) | S m => let '(x1, e) := step_slot x in let '(x2, t) := iter_slot m x1 in (x2, e ++ t) end.
Lemma iter_slot_complete (x : slot) : iter_slot (steps_needed x) x = (Done (slot_final x), slot_rest x).
Proof.
  destruct x as [c|r]; cbn; [|reflexivity]. destruct c as [sg rs]. cbn.
  induction sg as [|e [|e' rest] IH]; cbn in *.
  - reflexivity.
  - rewrite app_nil_r. reflexivity.
  - rewrite IH. reflexivity.
Qed.
Lemma run_repeat_head n : forall (x : slot) (xs : st),
  run (repeat 0 n) (x :: xs) = let '(x', e) := iter_slot n x in (x' :: xs, map (pair 0) e).
Proof.
  induction n as [|n IH]; intros x xs; cbn; auto.
  destruct (step_slot x) as [x1 e]. rewrite IH. destruct (iter_slot n x1) as [x2 t]. rewrite map_app. reflexivity.
Qed.
Lemma run_shift sched : forall (x : slot) (xs : st),
  run (map S sched) (x :: xs) = let '(xs', t) := run sched xs in (x :: xs', map (fun p => (S (fst p), snd p)) t).
Proof.
  induction sched as [|i r IH]; intros x xs; cbn; auto.
  destruct (step_at i xs) as [s1 e]. rewrite IH. destruct (run r s1) as [s2 t]. rewrite map_app, map_map. reflexivity.
Qed.
Lemma seq_schedule_shift (s : st) : forall i, seq_schedule (S i) s = map S (seq_schedule i s).
Proof.
  induction s as [|x xs IH]; intros i; cbn; auto. rewrite map_app, IH. f_equal.
  induction (steps_needed x); cbn; auto. f_equal. auto.
Qed.

Fixpoint tagged_traces (i : nat) (s : st) : list (nat * Ev) :=
  match s with [] => [] | x :: xs => map (pair i) (slot_rest x) ++ tagged_traces (S i) xs end.
Lemma tagged_traces_shift (s : st) : forall i, tagged_traces (S i) s = map (fun p => (S (fst p), snd p)) (tagged_traces i s).
Proof. induction s as [|x xs IH]; intros i; cbn; auto. rewrite map_app, map_map, IH. reflexivity. Qed.

(* concurrent_batch = False: every element runs to completion before the next one starts - the global trace is the
   concatenation of the elements' own traces in request order (no two elements ever in flight together) *)
Theorem sequential_run (s : st) :
  run (seq_schedule 0 s) s = (map (fun x => Done (slot_final x)) s, tagged_traces 0 s).
Proof.
  induction s as [|x xs IH]; cbn; auto.
  rewrite run_app, run_repeat_head, iter_slot_complete.
  rewrite seq_schedule_shift, run_shift, IH, tagged_traces_shift. reflexivity.
Qed.
End L.
