(* Proofs about Model/Bind.v (C04, C17): on signatures made of positional-or-keyword and keyword-only
   parameters, pjrpc's path (inspect.Signature.bind on the context-free signature, then
   functools.partial( **arguments ) plus the context) binds exactly what a direct Python call binds. *)
From Coq Require Import ZArith List String Ascii Bool Lia.
From PJ Require Import Base.Json Base.Res Model.Bind Lemmas.Tactics.
Import ListNotations.
Open Scope string_scope. Open Scope list_scope.

Definition names (s : sig) : list string := map pname s.

(* ---------- association lists ---------- *)
Lemma get_In_keys {V} n (l : list (string * V)) v : get n l = Some v -> In n (keys l).
Proof.
  induction l as [|[k x] l IH]; cbn; [discriminate|]. destruct (String.eqb n k) eqn:E.
  - apply String.eqb_eq in E. subst. auto.
  - intros H. right. apply IH; auto.
Qed.
Lemma get_notin {V} n (l : list (string * V)) : ~ In n (keys l) -> get n l = None.
Proof.
  induction l as [|[k x] l IH]; cbn; auto. intros H. destruct (String.eqb n k) eqn:E.
  - apply String.eqb_eq in E. subst. exfalso; auto.
  - apply IH. intros Hin. apply H; auto.
Qed.
Lemma get_none_notin {V} n (l : list (string * V)) : get n l = None -> ~ In n (keys l).
Proof.
  induction l as [|[k x] l IH]; cbn; auto. destruct (String.eqb n k) eqn:E; [discriminate|].
  intros H [Hk|Hin]; [subst; rewrite String.eqb_refl in E; discriminate|]. apply IH; auto.
Qed.
Lemma has_false {V} n (l : list (string * V)) : ~ In n (keys l) -> has n l = false.
Proof. intros H. unfold has. rewrite get_notin; auto. Qed.
Lemma get_app {V} n (a b : list (string * V)) : get n (a ++ b) = match get n a with Some v => Some v | None => get n b end.
Proof. induction a as [|[k x] a IH]; cbn; auto. destruct (String.eqb n k); auto. Qed.
Lemma keys_app {V} (a b : list (string * V)) : keys (a ++ b) = keys a ++ keys b.
Proof. unfold keys. apply map_app. Qed.
Lemma set_notin {V} n (v : V) l : ~ In n (keys l) -> set n v l = l ++ [(n, v)].
Proof.
  induction l as [|[k x] l IH]; cbn; auto. intros H. destruct (String.eqb n k) eqn:E.
  - apply String.eqb_eq in E. subst. exfalso; auto.
  - rewrite IH; auto.
Qed.
Lemma get_remove_all n m d : get n (remove_all m d) = if String.eqb n m then None else get n d.
Proof.
  induction d as [|[k x] d IH]; cbn.
  - destruct (String.eqb n m); auto.
  - destruct (String.eqb m k) eqn:E.
    + apply String.eqb_eq in E. subst k. rewrite IH. destruct (String.eqb n m); auto.
    + cbn. rewrite IH. destruct (String.eqb n k) eqn:E2; auto.
      apply String.eqb_eq in E2. subst k. rewrite String.eqb_sym, E. reflexivity.
Qed.
Lemma In_keys_remove_all n m d : In n (keys (remove_all m d)) -> In n (keys d) /\ n <> m.
Proof.
  induction d as [|[k x] d IH]; cbn; [tauto|]. destruct (String.eqb m k) eqn:E.
  - intros H. destruct (IH H). auto.
  - cbn. intros [->|H].
    + split; auto. intros ->. rewrite String.eqb_refl in E. discriminate.
    + destruct (IH H). auto.
Qed.
Lemma In_keys_remove_all_intro n m d : In n (keys d) -> n <> m -> In n (keys (remove_all m d)).
Proof.
  induction d as [|[k x] d IH]; cbn; [tauto|]. intros [->|H] Hne.
  - destruct (String.eqb m n) eqn:E; [apply String.eqb_eq in E; congruence|]. cbn; auto.
  - destruct (String.eqb m k); cbn; auto.
Qed.

(* ---------- simple signatures ---------- *)
Lemma simple_cons p s : simple_sig (p :: s) = true -> (pk p = PK \/ pk p = KO) /\ simple_sig s = true.
Proof. unfold simple_sig; cbn. rewrite andb_true_iff. intros [H1 H2]. split; auto. destruct (pk p); auto; discriminate. Qed.
Lemma distinct_cons p s : names_distinct (p :: s) = true -> ~ In (pname p) (names s) /\ names_distinct s = true.
Proof.
  cbn. rewrite andb_true_iff, negb_true_iff. intros [H1 H2]. split; auto.
  intros Hin. apply in_map_iff in Hin. destruct Hin as [q [Hq Hin]].
  assert (existsb (fun q => String.eqb (pname p) (pname q)) s = true).
  { apply existsb_exists. exists q. split; auto. rewrite Hq. apply String.eqb_refl. }
  congruence.
Qed.
Lemma simple_kinds s : simple_sig s = true -> has_kind VK s = false /\ has_kind VP s = false.
Proof.
  induction s as [|p s IH]; cbn; auto. intros H. destruct (simple_cons _ _ H) as [Hk Hs]. destruct (IH Hs) as [A B].
  unfold has_kind in *. cbn. rewrite A, B. destruct Hk as [-> | ->]; auto.
Qed.
Lemma find_param_simple s n : simple_sig s = true -> In n (names s) ->
  exists p, find_param n s = Some p /\ (pk p = PK \/ pk p = KO).
Proof.
  induction s as [|q s IH]; cbn; [tauto|]. intros H Hin. destruct (simple_cons _ _ H) as [Hk Hs].
  unfold find_param. cbn. destruct (String.eqb (pname q) n) eqn:E.
  - exists q; auto.
  - destruct Hin as [Hq|Hin]; [subst; rewrite String.eqb_refl in E; discriminate|]. apply IH; auto.
Qed.
Lemma find_param_notin s n : ~ In n (names s) -> find_param n s = None.
Proof.
  induction s as [|q s IH]; cbn; auto. intros H. unfold find_param. cbn. destruct (String.eqb (pname q) n) eqn:E.
  - apply String.eqb_eq in E. exfalso; auto.
  - apply IH. auto.
Qed.
Lemma find_param_kind s n p : simple_sig s = true -> find_param n s = Some p -> pk p = PK \/ pk p = KO.
Proof.
  induction s as [|q s IH]; cbn; [discriminate|]. intros H. destruct (simple_cons _ _ H) as [Hk Hs].
  unfold find_param. cbn. destruct (String.eqb (pname q) n); [intros E; inversion E; subst; auto|]. apply IH; auto.
Qed.

(* ---------- place_kw on simple signatures ---------- *)
Lemma place_kw_simple_ok s : simple_sig s = true -> forall kw b,
  (forall n, In n (keys kw) -> In n (names s)) -> NoDup (keys b ++ keys kw) -> place_kw s b kw = Some (b ++ kw, []).
Proof.
  intros Hs. induction kw as [|[n v] kw IH]; intros b Hin Hnd; cbn.
  - rewrite app_nil_r; auto.
  - destruct (find_param_simple s n Hs (Hin n (or_introl eq_refl))) as [p [Hf Hk]]. rewrite Hf.
    assert (Hb : has n b = false).
    { apply has_false. cbn in Hnd. intros Hb. apply NoDup_remove_2 in Hnd. apply Hnd. apply in_or_app; auto. }
    assert (E : place_kw s (b ++ [(n, v)]) kw = Some ((b ++ [(n, v)]) ++ kw, [])).
    { apply IH; [intros m Hm; apply Hin; right; auto|]. rewrite keys_app. cbn. rewrite <- app_assoc. exact Hnd. }
    rewrite <- app_assoc in E. cbn in E. destruct Hk as [-> | ->]; rewrite Hb; exact E.
Qed.
Lemma place_kw_simple_unknown s : simple_sig s = true -> forall kw b n,
  In n (keys kw) -> ~ In n (names s) -> place_kw s b kw = None.
Proof.
  intros Hs. destruct (simple_kinds s Hs) as [Hvk _].
  induction kw as [|[m v] kw IH]; intros b n Hin Hn; cbn; [destruct Hin|]. rewrite Hvk.
  cbn in Hin. destruct Hin as [Hm|Hin]; [subst m|].
  - rewrite (find_param_notin s n Hn). reflexivity.
  - destruct (find_param m s) as [p|] eqn:Hf; auto.
    destruct (find_param_kind s m p Hs Hf) as [-> | ->]; destruct (has m b); auto; eapply IH; eauto.
Qed.
Lemma place_kw_dup s : forall kw b n, In n (keys b) -> In n (keys kw) -> simple_sig s = true -> place_kw s b kw = None.
Proof.
  intros kw b n Hb Hkw Hs. destruct (simple_kinds s Hs) as [Hvk _]. revert b Hb.
  induction kw as [|[m v] kw IH]; intros b Hb; cbn; [destruct Hkw|]. rewrite Hvk.
  destruct (find_param m s) as [p|] eqn:Hf; auto.
  cbn in Hkw. destruct Hkw as [Hm|Hkw]; [subst m|].
  - assert (Hh : has n b = true).
    { unfold has. destruct (get n b) eqn:E; auto. exfalso. eapply get_none_notin; eauto. }
    destruct (find_param_kind s n p Hs Hf) as [-> | ->]; rewrite Hh; auto.
  - destruct (find_param_kind s m p Hs Hf) as [-> | ->]; destruct (has m b); auto; apply IH; auto; rewrite keys_app; apply in_or_app; auto.
Qed.

(* ---------- finish on simple signatures ---------- *)
Definition slot_of (b : list (string * json)) (p : param) : slotv :=
  match get (pname p) b with Some v => Given v | None => Default end.
Lemma finish_agree s : forall b1 b2 st ex,
  (forall n, In n (names s) -> get n b1 = get n b2) -> finish s b1 st ex = finish s b2 st ex.
Proof.
  induction s as [|p s IH]; cbn; auto. intros b1 b2 st ex H.
  rewrite (H (pname p)) by auto. rewrite (IH b1 b2 st ex); auto.
Qed.
Lemma finish_simple_char s : simple_sig s = true -> forall b e,
  finish s b [] [] = Some e -> e = map (fun p => (pname p, slot_of b p)) s.
Proof.
  induction s as [|p s IH]; cbn; intros Hs b e H; [inv_res; auto|].
  destruct (simple_cons _ _ Hs) as [Hk Hs']. unfold slot_of.
  destruct (finish s b [] []) as [r|] eqn:E.
  - rewrite (IH Hs' b r E) in *.
    destruct Hk as [Hk|Hk]; rewrite Hk in H; destruct (get (pname p) b); try destruct (pdef p); inv_res; reflexivity.
  - destruct Hk as [Hk|Hk]; rewrite Hk in H; destruct (get (pname p) b); try destruct (pdef p); discriminate.
Qed.
Lemma finish_simple_some s : simple_sig s = true -> forall b,
  (forall p, In p s -> pdef p = false -> get (pname p) b <> None) -> exists e, finish s b [] [] = Some e.
Proof.
  induction s as [|p s IH]; cbn; intros Hs b H; [eauto|].
  destruct (simple_cons _ _ Hs) as [Hk Hs']. destruct (IH Hs' b) as [r Hr]; [intros; apply H; auto|]. rewrite Hr.
  specialize (H p (or_introl eq_refl)).
  destruct Hk as [-> | ->]; destruct (get (pname p) b); eauto; destruct (pdef p); eauto; exfalso; apply H; auto.
Qed.
Lemma finish_simple_none s : simple_sig s = true -> forall b p,
  In p s -> pdef p = false -> get (pname p) b = None -> finish s b [] [] = None.
Proof.
  induction s as [|q s IH]; cbn; intros Hs b p Hin Hd Hg; [destruct Hin|].
  destruct (simple_cons _ _ Hs) as [Hk Hs']. destruct Hin as [->|Hin].
  - rewrite Hg, Hd. destruct Hk as [-> | ->]; reflexivity.
  - rewrite (IH Hs' b p Hin Hd Hg). destruct Hk as [-> | ->]; destruct (get (pname q) b); try destruct (pdef q); reflexivity.
Qed.
Lemma finish_some_required s : simple_sig s = true -> forall b e,
  finish s b [] [] = Some e -> forall p, In p s -> pdef p = false -> get (pname p) b <> None.
Proof.
  intros Hs b e H p Hin Hd Hg. rewrite (finish_simple_none s Hs b p Hin Hd Hg) in H. discriminate.
Qed.

(* ---------- inspect.Signature.bind with a mapping ---------- *)
Lemma sbk_some s : simple_sig s = true -> names_distinct s = true -> forall d kw,
  sig_bind_kw_go s d None = Some kw ->
  (forall n, In n (names s) -> get n kw = get n d)
  /\ (forall n, In n (keys d) -> In n (names s))
  /\ (forall n, In n (keys kw) -> In n (names s))
  /\ NoDup (keys kw).
Proof.
  induction s as [|p s IH]; intros Hs Hd d kw H.
  - cbn in H. destruct d; inv_res. repeat split; cbn; try tauto. constructor.
  - destruct (simple_cons _ _ Hs) as [Hk Hs']. destruct (distinct_cons _ _ Hd) as [Hp Hd'].
    cbn [sig_bind_kw_go] in H.
    assert (H' : match get (pname p) d with
                 | Some v => match sig_bind_kw_go s (remove_all (pname p) d) None with
                             | Some r => Some ((pname p, v) :: r) | None => None end
                 | None => if pdef p then sig_bind_kw_go s d None else None end = Some kw).
    { destruct Hk as [Hk|Hk]; rewrite Hk in H; cbn in H; exact H. }
    clear H. destruct (get (pname p) d) as [v|] eqn:Eg.
    + destruct (sig_bind_kw_go s (remove_all (pname p) d) None) as [r|] eqn:Er; inv_res.
      destruct (IH Hs' Hd' _ _ Er) as [A [B [C D]]]. repeat split.
      * intros n [<-|Hin]; cbn; [rewrite String.eqb_refl; auto|].
        destruct (String.eqb n (pname p)) eqn:E; [apply String.eqb_eq in E; subst; contradiction|].
        rewrite (A n Hin), get_remove_all, E. reflexivity.
      * intros n Hin. destruct (String.eqb n (pname p)) eqn:E; [apply String.eqb_eq in E; subst; cbn; auto|].
        right. apply B. apply In_keys_remove_all_intro; auto. intros ->. rewrite String.eqb_refl in E. discriminate.
      * intros n [<-|Hin]; cbn; auto.
      * cbn. constructor; auto.
    + destruct (pdef p); [|discriminate]. destruct (IH Hs' Hd' _ _ H') as [A [B [C D]]]. repeat split; auto.
      * intros n [<-|Hin]; auto. rewrite Eg. apply get_notin. intros Hin. apply Hp, C, Hin.
      * intros n Hin. right. auto.
      * intros n Hin. right. auto.
Qed.

Lemma sbk_none s : simple_sig s = true -> names_distinct s = true -> forall d,
  sig_bind_kw_go s d None = None ->
  (exists n, In n (keys d) /\ ~ In n (names s)) \/ (exists p, In p s /\ pdef p = false /\ get (pname p) d = None).
Proof.
  induction s as [|p s IH]; intros Hs Hd d H.
  - cbn in H. destruct d as [|[k x] d]; [discriminate|]. left. exists k. cbn; auto.
  - destruct (simple_cons _ _ Hs) as [Hk Hs']. destruct (distinct_cons _ _ Hd) as [Hp Hd'].
    cbn [sig_bind_kw_go] in H.
    assert (H' : match get (pname p) d with
                 | Some v => match sig_bind_kw_go s (remove_all (pname p) d) None with
                             | Some r => Some ((pname p, v) :: r) | None => None end
                 | None => if pdef p then sig_bind_kw_go s d None else None end = None).
    { destruct Hk as [Hk|Hk]; rewrite Hk in H; cbn in H; exact H. }
    clear H. destruct (get (pname p) d) as [v|] eqn:Eg.
    + destruct (sig_bind_kw_go s (remove_all (pname p) d) None) as [r|] eqn:Er; [discriminate|].
      destruct (IH Hs' Hd' _ Er) as [[n [Hin Hn]]|[q [Hq [Hdq Hgq]]]].
      * apply In_keys_remove_all in Hin. destruct Hin as [Hin Hne]. left. exists n. split; auto. cbn. intros [E|E]; auto.
      * right. exists q. repeat split; cbn; auto. rewrite get_remove_all in Hgq.
        destruct (String.eqb (pname q) (pname p)) eqn:E; auto.
        apply String.eqb_eq in E. exfalso. apply Hp. rewrite <- E. apply in_map; auto.
    + destruct (pdef p) eqn:Edef.
      * destruct (IH Hs' Hd' _ H') as [[n [Hin Hn]]|[q [Hq [Hdq Hgq]]]].
        -- left. exists n. split; auto. cbn. intros [E|E]; auto. subst. eapply get_none_notin; eauto.
        -- right. exists q. cbn; auto.
      * right. exists p. cbn; auto.
Qed.

(* ---------- inspect.Signature.bind with a positional list ---------- *)
Lemma rest_optional_false s : simple_sig s = true -> rest_optional s = false -> exists p, In p s /\ pdef p = false.
Proof.
  induction s as [|p s IH]; cbn; [discriminate|]. intros Hs H. destruct (simple_cons _ _ Hs) as [Hk Hs'].
  assert (H' : pdef p && rest_optional s = false) by (destruct Hk as [Hk|Hk]; rewrite Hk in H; exact H).
  apply andb_false_iff in H'. destruct H' as [H'|H']; [exists p; auto|].
  destruct (IH Hs' H') as [q [Hq Hd]]. exists q; auto.
Qed.
Lemma rest_optional_true s : simple_sig s = true -> rest_optional s = true -> forall p, In p s -> pdef p = true.
Proof.
  induction s as [|p s IH]; cbn; [tauto|]. intros Hs H q Hin. destruct (simple_cons _ _ Hs) as [Hk Hs'].
  assert (H' : pdef p && rest_optional s = true) by (destruct Hk as [Hk|Hk]; rewrite Hk in H; exact H).
  apply andb_true_iff in H'. destruct H' as [H1 H2]. destruct Hin as [<-|Hin]; auto.
Qed.

Lemma sbp_some s : simple_sig s = true -> names_distinct s = true -> forall l kw,
  sig_bind_pos s l = Some kw ->
  fill_pos s l = (kw, [])
  /\ (forall p, In p s -> pdef p = false -> get (pname p) kw <> None)
  /\ (forall n, In n (keys kw) -> In n (names s))
  /\ NoDup (keys kw).
Proof.
  induction s as [|p s IH]; intros Hs Hd l kw H.
  - destruct l; cbn in H; inv_res. cbn. repeat split; try tauto. constructor.
  - destruct (simple_cons _ _ Hs) as [Hk Hs']. destruct (distinct_cons _ _ Hd) as [Hp Hd'].
    destruct l as [|a l].
    + cbn [sig_bind_pos] in H. destruct (rest_optional (p :: s)) eqn:Er; inv_res. cbn. repeat split; try tauto; try constructor.
      intros q Hq Hdq. rewrite (rest_optional_true _ Hs Er q Hq) in Hdq. discriminate.
    + cbn [sig_bind_pos] in H. destruct Hk as [Hk|Hk]; rewrite Hk in H; [|discriminate].
      destruct (sig_bind_pos s l) as [r|] eqn:Er; inv_res.
      destruct (IH Hs' Hd' _ _ Er) as [A [B [C D]]]. repeat split.
      * cbn. unfold is_positional. rewrite Hk, A. reflexivity.
      * intros q [<-|Hq] Hdq; cbn; [rewrite String.eqb_refl; discriminate|].
        destruct (String.eqb (pname q) (pname p)); [discriminate|]. apply B; auto.
      * intros n [<-|Hin]; cbn; auto.
      * cbn. constructor; auto.
Qed.

Lemma sbp_none s : simple_sig s = true -> names_distinct s = true -> forall l,
  sig_bind_pos s l = None ->
  snd (fill_pos s l) <> [] \/ (exists p, In p s /\ pdef p = false /\ get (pname p) (fst (fill_pos s l)) = None).
Proof.
  induction s as [|p s IH]; intros Hs Hd l H.
  - destruct l; cbn in H; [discriminate|]. left. cbn. discriminate.
  - destruct (simple_cons _ _ Hs) as [Hk Hs']. destruct (distinct_cons _ _ Hd) as [Hp Hd'].
    destruct l as [|a l].
    + cbn [sig_bind_pos] in H. destruct (rest_optional (p :: s)) eqn:Er; [discriminate|].
      destruct (rest_optional_false _ Hs Er) as [q [Hq Hdq]]. right. exists q. cbn. auto.
    + cbn [sig_bind_pos] in H. destruct Hk as [Hk|Hk]; rewrite Hk in H.
      * destruct (sig_bind_pos s l) as [r|] eqn:Er; [discriminate|].
        cbn [fill_pos]. unfold is_positional. rewrite Hk. destruct (fill_pos s l) as [b rest] eqn:Ef.
        destruct (IH Hs' Hd' _ Er) as [Hrest|[q [Hq [Hdq Hgq]]]]; rewrite Ef in *; cbn [fst snd] in *.
        -- left; auto.
        -- right. exists q. repeat split; cbn; auto.
           destruct (String.eqb (pname q) (pname p)) eqn:E; auto.
           apply String.eqb_eq in E. exfalso. apply Hp. rewrite <- E. apply in_map; auto.
      * left. cbn [fill_pos]. unfold is_positional. rewrite Hk. cbn. discriminate.
Qed.

(* ---------- the core: validation and a direct call agree on a simple signature ---------- *)
Definition params_wf (p : pparams) : Prop := match p with PPos _ => True | PKw d => NoDup (keys d) end.
Definition split_params (p : pparams) : list json * list (string * json) :=
  match p with PPos l => (l, []) | PKw d => ([], d) end.

Lemma classic_subset (s : sig) (d : list (string * json)) :
  (forall n, In n (keys d) -> In n (names s)) \/ (exists n, In n (keys d) /\ ~ In n (names s)).
Proof.
  induction d as [|[k x] d IH]; cbn; [left; tauto|].
  destruct (in_dec string_dec k (names s)) as [Hk|Hk].
  - destruct IH as [IH|[n [Hin Hn]]]; [left; intros n [<-|H]; auto|right; exists n; auto].
  - right. exists k. auto.
Qed.

Lemma py_call_kwonly s kw : simple_sig s = true ->
  (forall n, In n (keys kw) -> In n (names s)) -> NoDup (keys kw) ->
  py_call s [] kw = finish s kw [] [].
Proof.
  intros Hs Hin Hnd. unfold py_call.
  assert (Ef : fill_pos s [] = ([], [])) by (destruct s; reflexivity). rewrite Ef.
  destruct (simple_kinds s Hs) as [_ Hvp]. rewrite Hvp. cbn [negb andb].
  rewrite (place_kw_simple_ok s Hs kw []); auto.
Qed.

Lemma core s p : simple_sig s = true -> names_distinct s = true -> params_wf p ->
  match validate_bind s p with
  | Some kw => (forall n, In n (keys kw) -> In n (names s)) /\ NoDup (keys kw)
               /\ exists e, finish s kw [] [] = Some e
                            /\ py_call s (fst (split_params p)) (snd (split_params p)) = Some e
  | None => py_call s (fst (split_params p)) (snd (split_params p)) = None
  end.
Proof.
  intros Hs Hd Hwf. destruct (simple_kinds s Hs) as [Hvk Hvp]. destruct p as [l|d]; cbn [validate_bind split_params fst snd].
  - destruct (sig_bind_pos s l) as [kw|] eqn:E.
    + destruct (sbp_some s Hs Hd l kw E) as [A [B [C D]]]. repeat split; auto.
      destruct (finish_simple_some s Hs kw B) as [e He]. exists e. split; auto.
      unfold py_call. rewrite A, Hvp. cbn. exact He.
    + unfold py_call. destruct (fill_pos s l) as [b rest] eqn:Ef. rewrite Hvp. cbn [negb andb].
      destruct (sbp_none s Hs Hd l E) as [Hrest|[q [Hq [Hdq Hgq]]]]; rewrite Ef in *; cbn [fst snd] in *.
      * destruct rest; [congruence|reflexivity].
      * destruct rest; [|reflexivity]. cbn. eapply finish_simple_none; eauto.
  - unfold sig_bind_kw. destruct (sig_bind_kw_go s d None) as [kw|] eqn:E.
    + destruct (sbk_some s Hs Hd d kw E) as [A [B [C D]]]. repeat split; auto.
      assert (Hreq : forall p, In p s -> pdef p = false -> get (pname p) kw <> None).
      { intros q Hq Hdq Hg. rewrite A in Hg by (apply in_map; auto).
        (* a required parameter missing from d makes the binder fail *)
        clear -Hs Hd E Hq Hdq Hg. revert d kw E Hg. induction s as [|p s IH]; intros d kw E Hg; [destruct Hq|].
        destruct (simple_cons _ _ Hs) as [Hk Hs']. destruct (distinct_cons _ _ Hd) as [Hp Hd'].
        cbn [sig_bind_kw_go] in E. destruct Hq as [->|Hq].
        - rewrite Hg, Hdq in E. destruct Hk as [Hk|Hk]; rewrite Hk in E; discriminate.
        - destruct (get (pname p) d) eqn:Eg.
          + destruct (sig_bind_kw_go s (remove_all (pname p) d) None) as [r|] eqn:Er;
              [|destruct Hk as [Hk|Hk]; rewrite Hk in E; cbn in E; discriminate].
            eapply (IH Hs' Hd' Hq _ _ Er). rewrite get_remove_all, Hg. destruct (String.eqb _ _); auto.
          + destruct (pdef p); [|destruct Hk as [Hk|Hk]; rewrite Hk in E; discriminate].
            assert (E' : sig_bind_kw_go s d None = Some kw) by (destruct Hk as [Hk|Hk]; rewrite Hk in E; exact E).
            eapply (IH Hs' Hd' Hq _ _ E'); auto. }
      destruct (finish_simple_some s Hs kw Hreq) as [e He]. exists e. split; auto.
      rewrite py_call_kwonly; auto. rewrite <- He. apply finish_agree. intros n Hn. symmetry. auto.
    + destruct (sbk_none s Hs Hd d E) as [[n [Hin Hn]]|[q [Hq [Hdq Hgq]]]].
      * unfold py_call. assert (Ef : fill_pos s [] = ([], [])) by (destruct s; reflexivity). rewrite Ef, Hvp. cbn [negb andb].
        rewrite (place_kw_simple_unknown s Hs d [] n); auto.
      * destruct (classic_subset s d) as [Hsub|[n [Hin Hn]]].
        -- rewrite py_call_kwonly; auto. eapply finish_simple_none; eauto.
        -- unfold py_call. assert (Ef : fill_pos s [] = ([], [])) by (destruct s; reflexivity). rewrite Ef, Hvp. cbn [negb andb].
           rewrite (place_kw_simple_unknown s Hs d [] n); auto.
Qed.

(* ---------- the context parameter ---------- *)
Definition ctx_ok (s : sig) (cm : ctxmode) : Prop :=
  match cm with
  | CtxByName n => In n (names s)
  | CtxPositional n => exists p s', s = p :: s' /\ pname p = n /\ pk p = PK
  | _ => True end.

Lemma exclude_names n s m : In m (names (sig_exclude n s)) <-> In m (names s) /\ m <> n.
Proof.
  unfold names, sig_exclude. rewrite !in_map_iff. split.
  - intros [p [<- Hp]]. apply filter_In in Hp. destruct Hp as [Hp Hn]. split; [exists p; auto|].
    intros E. rewrite E, String.eqb_refl in Hn. discriminate.
  - intros [[p [<- Hp]] Hne]. exists p. split; auto. apply filter_In. split; auto.
    destruct (String.eqb (pname p) n) eqn:E; auto. apply String.eqb_eq in E. congruence.
Qed.
Lemma exclude_In n s p : In p (sig_exclude n s) <-> In p s /\ pname p <> n.
Proof.
  unfold sig_exclude. rewrite filter_In. split; intros [A B]; split; auto.
  - intros E. rewrite E, String.eqb_refl in B. discriminate.
  - destruct (String.eqb (pname p) n) eqn:E; auto. apply String.eqb_eq in E. congruence.
Qed.
Lemma exclude_simple n s : simple_sig s = true -> simple_sig (sig_exclude n s) = true.
Proof.
  unfold simple_sig. rewrite !forallb_forall. intros H p Hp. apply H. apply exclude_In in Hp. tauto.
Qed.
Lemma exclude_distinct n s : names_distinct s = true -> names_distinct (sig_exclude n s) = true.
Proof.
  induction s as [|p s IH]; cbn; auto. rewrite andb_true_iff, negb_true_iff. intros [H1 H2].
  specialize (IH H2). unfold sig_exclude in *.
  destruct (negb (String.eqb (pname p) n)); auto. cbn. rewrite IH. rewrite andb_true_r, negb_true_iff.
  destruct (existsb (fun q => String.eqb (pname p) (pname q)) (filter (fun p0 => negb (String.eqb (pname p0) n)) s)) eqn:E; auto.
  apply existsb_exists in E. destruct E as [q [Hq Hq2]].
  apply filter_In in Hq. destruct Hq as [Hq _].
  assert (existsb (fun q => String.eqb (pname p) (pname q)) s = true) by (apply existsb_exists; eauto). congruence.
Qed.

Lemma get_map_distinct (f : param -> slotv) s : names_distinct s = true -> forall p, In p s ->
  get (pname p) (map (fun q => (pname q, f q)) s) = Some (f p).
Proof.
  induction s as [|q s IH]; cbn; [tauto|]. intros Hd p [->|Hin].
  - rewrite String.eqb_refl. reflexivity.
  - destruct (distinct_cons _ _ Hd) as [Hq Hd']. destruct (String.eqb (pname p) (pname q)) eqn:E.
    + apply String.eqb_eq in E. exfalso. apply Hq. rewrite <- E. apply in_map; auto.
    + apply IH; auto.
Qed.

Lemma finish_with_ctx s n ctx kw e' : simple_sig s = true -> names_distinct s = true ->
  finish (sig_exclude n s) kw [] [] = Some e' ->
  forall b, (forall m, In m (names s) -> get m b = if String.eqb m n then Some ctx else get m kw) ->
  finish s b [] [] = Some (insert_ctx s n ctx e').
Proof.
  intros Hs Hd He' b Hb.
  pose proof (finish_simple_char _ (exclude_simple n s Hs) kw e' He') as Ec.
  assert (Hreq : forall p, In p s -> pdef p = false -> get (pname p) b <> None).
  { intros p Hp Hdp. rewrite Hb by (apply in_map; auto). destruct (String.eqb (pname p) n) eqn:E; [discriminate|].
    apply (finish_some_required _ (exclude_simple n s Hs) kw e' He'); auto. apply exclude_In. split; auto.
    intros En. rewrite En, String.eqb_refl in E. discriminate. }
  destruct (finish_simple_some s Hs b Hreq) as [e He]. rewrite He. f_equal.
  rewrite (finish_simple_char s Hs b e He). unfold insert_ctx. apply map_ext_in. intros p Hp. f_equal.
  unfold slot_of. rewrite Hb by (apply in_map; auto). destruct (String.eqb (pname p) n) eqn:E; auto.
  rewrite Ec. rewrite (get_map_distinct (slot_of kw) (sig_exclude n s)).
  - reflexivity.
  - apply exclude_distinct; auto.
  - apply exclude_In. split; auto. intros En. rewrite En, String.eqb_refl in E. discriminate.
Qed.

Lemma direct_call_split s cm ctx p :
  direct_call s cm ctx p =
  match cm with
  | CtxByName n | CtxPositional n =>
      match py_call (sig_exclude n s) (fst (split_params p)) (snd (split_params p)) with
      | Some e' => Some (insert_ctx s n ctx e') | None => None end
  | _ => py_call s (fst (split_params p)) (snd (split_params p))
  end.
Proof. unfold direct_call. destruct p; reflexivity. Qed.

(* THE binding theorem: on simple signatures pjrpc's path is a direct call *)
Theorem invoke_agrees s cm ctx p :
  simple_sig s = true -> names_distinct s = true -> ctx_ok s cm -> params_wf p ->
  method_invoke s cm ctx p = match direct_call s cm ctx p with Some e => InvRan e | None => InvInvalid end.
Proof.
  intros Hs Hd Hc Hwf. rewrite direct_call_split. unfold method_invoke.
  destruct cm as [|n|n|w].
  - pose proof (core s p Hs Hd Hwf) as C. destruct (validate_bind s p) as [kw|].
    + destruct C as [A [B [e [He Hp]]]]. rewrite Hp. rewrite py_call_kwonly, He; auto.
    + rewrite C. reflexivity.
  - cbn in Hc. pose proof (core _ p (exclude_simple n s Hs) (exclude_distinct n s Hd) Hwf) as C.
    destruct (validate_bind (sig_exclude n s) p) as [kw|].
    + destruct C as [A [B [e' [He' Hp]]]]. rewrite Hp.
      assert (Hn : ~ In n (keys kw)) by (intros Hin; apply A, exclude_names in Hin; tauto).
      rewrite (set_notin n ctx kw Hn). rewrite py_call_kwonly; auto.
      * erewrite finish_with_ctx; eauto. intros m Hm. rewrite get_app. cbn.
        destruct (String.eqb m n) eqn:E.
        -- apply String.eqb_eq in E. subst. rewrite (get_notin n kw Hn). reflexivity.
        -- destruct (get m kw); reflexivity.
      * intros m Hm. rewrite keys_app in Hm. apply in_app_or in Hm. destruct Hm as [Hm|[<-|[]]]; auto.
        apply A, exclude_names in Hm. tauto.
      * rewrite keys_app. cbn. apply NoDup_app_intro_snoc; auto.
    + rewrite C. reflexivity.
  - cbn in Hc. destruct Hc as [p0 [s0 [-> [Hn0 Hk0]]]].
    pose proof (core _ p (exclude_simple n (p0 :: s0) Hs) (exclude_distinct n (p0 :: s0) Hd) Hwf) as C.
    destruct (validate_bind (sig_exclude n (p0 :: s0)) p) as [kw|].
    + destruct C as [A [B [e' [He' Hp]]]]. rewrite Hp.
      assert (Hn : ~ In n (keys kw)) by (intros Hin; apply A, exclude_names in Hin; tauto).
      destruct (simple_kinds _ Hs) as [_ Hvp].
      unfold py_call. cbn [fill_pos]. unfold is_positional. rewrite Hk0.
      assert (Ef : fill_pos s0 [] = ([], [])) by (destruct s0; reflexivity). rewrite Ef, Hvp. cbn [negb andb].
      rewrite (place_kw_simple_ok _ Hs kw [(pname p0, ctx)]).
      * cbn [app]. erewrite finish_with_ctx; eauto. intros m Hm. cbn [get]. rewrite Hn0. reflexivity.
      * intros m Hm. apply A, exclude_names in Hm. tauto.
      * cbn. rewrite Hn0. constructor; auto.
    + rewrite C. reflexivity.
  - pose proof (core s p Hs Hd Hwf) as C. destruct (validate_bind s p) as [kw|].
    + destruct C as [A [B [e [He Hp]]]]. rewrite Hp. rewrite py_call_kwonly, He; auto.
    + rewrite C. reflexivity.
Qed.

(* the context parameter always receives the server-side context ... *)
Lemma get_insert_ctx s n ctx e' : In n (names s) -> get n (insert_ctx s n ctx e') = Some (Given ctx).
Proof.
  unfold insert_ctx. induction s as [|p s IH]; cbn; [tauto|]. intros [<-|Hin].
  - rewrite !String.eqb_refl. reflexivity.
  - destruct (String.eqb n (pname p)) eqn:E.
    + apply String.eqb_eq in E. subst. rewrite String.eqb_refl. reflexivity.
    + apply IH; auto.
Qed.
Theorem ctx_sealed s n cm ctx p e :
  cm = CtxByName n \/ cm = CtxPositional n ->
  simple_sig s = true -> names_distinct s = true -> ctx_ok s cm -> params_wf p ->
  method_invoke s cm ctx p = InvRan e -> get n e = Some (Given ctx).
Proof.
  intros Hcm Hs Hd Hc Hwf H. rewrite (invoke_agrees s cm ctx p Hs Hd Hc Hwf), direct_call_split in H.
  assert (Hin : In n (names s)).
  { destruct Hcm as [-> | ->]; cbn in Hc; auto. destruct Hc as [p0 [s0 [-> [<- _]]]]. cbn; auto. }
  destruct Hcm as [-> | ->];
    destruct (py_call (sig_exclude n s) _ _) as [e'|]; inversion H; subst; apply get_insert_ctx; auto.
Qed.
(* ... and the client can never supply it: naming it is an invalid-params failure, the body does not run *)
Theorem ctx_not_settable s n ctx d :
  simple_sig s = true -> names_distinct s = true -> In n (keys d) ->
  method_invoke s (CtxByName n) ctx (PKw d) = InvInvalid /\ method_invoke s (CtxPositional n) ctx (PKw d) = InvInvalid.
Proof.
  intros Hs Hd Hin. unfold method_invoke. cbn [validate_bind]. unfold sig_bind_kw.
  destruct (sig_bind_kw_go (sig_exclude n s) d None) as [kw|] eqn:E; auto.
  destruct (sbk_some _ (exclude_simple n s Hs) (exclude_distinct n s Hd) d kw E) as [_ [B _]].
  apply B, exclude_names in Hin. tauto.
Qed.
(* a positional list can never reach the context either: it is bound against the context-free signature *)
Theorem positional_agrees_without_ctx s n ctx l :
  simple_sig s = true -> names_distinct s = true -> In n (names s) ->
  method_invoke s (CtxByName n) ctx (PPos l)
  = match py_call (sig_exclude n s) l [] with Some e' => InvRan (insert_ctx s n ctx e') | None => InvInvalid end.
Proof.
  intros Hs Hd Hin. rewrite (invoke_agrees s (CtxByName n) ctx (PPos l) Hs Hd Hin I), direct_call_split. cbn.
  destruct (py_call (sig_exclude n s) l []); reflexivity.
Qed.

(* ---------- outside the simple class the pinned behaviour differs from a direct call (finding F5) ---------- *)
Definition sig_kw : sig := [{| pname := "a"; pk := PK; pdef := false |}; {| pname := "kw"; pk := VK; pdef := false |}].
Definition sig_args : sig := [{| pname := "args"; pk := VP; pdef := false |}].
Definition sig_po : sig := [{| pname := "a"; pk := PO; pdef := false |}].
Lemma agrees_refuted :
  (wf_sig sig_kw = true /\ method_invoke sig_kw CtxNone JNull (PKw [("a", JInt 1); ("b", JInt 2)])
     <> match direct_call sig_kw CtxNone JNull (PKw [("a", JInt 1); ("b", JInt 2)]) with Some e => InvRan e | None => InvInvalid end)
  /\ (wf_sig sig_args = true /\ method_invoke sig_args CtxNone JNull (PPos [JInt 1]) = InvCallFail
      /\ direct_call sig_args CtxNone JNull (PPos [JInt 1]) = Some [("args", Star [JInt 1])])
  /\ (wf_sig sig_po = true /\ method_invoke sig_po CtxNone JNull (PPos [JInt 1]) = InvCallFail
      /\ direct_call sig_po CtxNone JNull (PPos [JInt 1]) = Some [("a", Given (JInt 1))]).
Proof. vm_compute. repeat split; try reflexivity; discriminate. Qed.

(* ---------- C17: documented parameters are the accepted parameters ---------- *)
(* the schema extractor keeps the positional-or-keyword and keyword-only parameters that are not excluded
   (specs/extractors/pydantic.py _build_params_model); required = no default *)
Definition documented (s : sig) (excl : list string) : list param :=
  filter (fun p => negb (mem_str (pname p) excl) && match pk p with PK | KO => true | _ => false end) s.
Definition documented_names (s : sig) (excl : list string) : list string := map pname (documented s excl).
Definition documented_required (s : sig) (excl : list string) : list string :=
  map pname (filter (fun p => negb (pdef p)) (documented s excl)).

Lemma documented_simple s n : simple_sig s = true -> documented s [n] = sig_exclude n s.
Proof.
  unfold documented, sig_exclude, simple_sig. intros H. apply filter_ext_in. intros p Hp.
  rewrite forallb_forall in H. specialize (H p Hp). unfold mem_str. cbn. rewrite orb_false_r.
  destruct (pk p); try discriminate; rewrite andb_true_r; reflexivity.
Qed.
Lemma documented_simple_nil s : simple_sig s = true -> documented s [] = s.
Proof.
  unfold documented, simple_sig. intros H. induction s as [|p s IH]; cbn in *; auto.
  apply andb_true_iff in H. destruct H as [H1 H2]. destruct (pk p); try discriminate; cbn; rewrite IH; auto.
Qed.

Lemma sbk_required s : simple_sig s = true -> names_distinct s = true -> forall d kw,
  sig_bind_kw_go s d None = Some kw -> forall p, In p s -> pdef p = false -> get (pname p) d <> None.
Proof.
  induction s as [|q s IH]; intros Hs Hd d kw E p Hp Hdp Hg; [destruct Hp|].
  destruct (simple_cons _ _ Hs) as [Hk Hs']. destruct (distinct_cons _ _ Hd) as [Hq Hd'].
  cbn [sig_bind_kw_go] in E. destruct Hp as [->|Hp].
  - rewrite Hg, Hdp in E. destruct Hk as [Hk|Hk]; rewrite Hk in E; discriminate.
  - destruct (get (pname q) d) eqn:Eg.
    + destruct (sig_bind_kw_go s (remove_all (pname q) d) None) as [r|] eqn:Er;
        [|destruct Hk as [Hk|Hk]; rewrite Hk in E; cbn in E; discriminate].
      eapply (IH Hs' Hd' _ _ Er p Hp Hdp). rewrite get_remove_all, Hg. destruct (String.eqb _ _); auto.
    + destruct (pdef q); [|destruct Hk as [Hk|Hk]; rewrite Hk in E; discriminate].
      assert (E' : sig_bind_kw_go s d None = Some kw) by (destruct Hk as [Hk|Hk]; rewrite Hk in E; exact E).
      eapply (IH Hs' Hd' _ _ E' p Hp Hdp); auto.
Qed.

(* a params OBJECT binds iff it names only documented parameters and all the required ones *)
Theorem mapping_binds_iff s d : simple_sig s = true -> names_distinct s = true ->
  ((exists kw, sig_bind_kw s d = Some kw) <->
   ((forall n, In n (keys d) -> In n (names s)) /\ (forall p, In p s -> pdef p = false -> In (pname p) (keys d)))).
Proof.
  intros Hs Hd. unfold sig_bind_kw. split.
  - intros [kw E]. destruct (sbk_some s Hs Hd d kw E) as [_ [B _]]. split; auto.
    intros p Hp Hdp. pose proof (sbk_required s Hs Hd d kw E p Hp Hdp) as Hg.
    destruct (get (pname p) d) eqn:Eg; [eapply get_In_keys; eauto|congruence].
  - intros [A B]. destruct (sig_bind_kw_go s d None) as [kw|] eqn:E; [eauto|].
    exfalso. destruct (sbk_none s Hs Hd d E) as [[n [Hin Hn]]|[q [Hq [Hdq Hgq]]]].
    + apply Hn, A, Hin.
    + apply (get_none_notin _ _ Hgq). apply B; auto.
Qed.
