(* Proofs about Model/Mocker.v (C20). *)
From Coq Require Import ZArith List String Ascii Bool Lia.
From PJ Require Import Base.Json Base.Res Model.Msg Model.Mocker Generated.Consts Lemmas.Tactics Lemmas.RegistryL.
Import ListNotations.
Open Scope string_scope. Open Scope list_scope.

(* ---------- dict facts ---------- *)
Lemma get_remove_key {V} n k (l : list (string * V)) : NoDup (keys l) -> get n (remove_key k l) = if String.eqb n k then None else get n l.
Proof.
  induction l as [|[k' v'] l IH]; cbn; intros H.
  - destruct (String.eqb n k); reflexivity.
  - inversion H; subst. destruct (String.eqb k k') eqn:E.
    + apply String.eqb_eq in E. subst k'. destruct (String.eqb n k) eqn:E2; auto.
      apply String.eqb_eq in E2. subst. clear -H2. induction l as [|[a b] l IH]; cbn in *; auto.
      destruct (String.eqb k a) eqn:E; [apply String.eqb_eq in E; subst; exfalso; auto|]. apply IH. tauto.
    + cbn. rewrite IH by auto. destruct (String.eqb n k') eqn:E2; auto. destruct (String.eqb n k) eqn:E3; auto.
      apply String.eqb_eq in E2. apply String.eqb_eq in E3. subst. rewrite String.eqb_refl in E. discriminate.
Qed.

Section Forall.
Context {V : Type} (P : V -> bool).
Definition allv (l : list (string * V)) : bool := forallb (fun kv => P (snd kv)) l.
Lemma allv_set k v l : allv l = true -> P v = true -> allv (set k v l) = true.
Proof.
  unfold allv. induction l as [|[k' v'] l IH]; cbn; intros H Hv.
  - rewrite Hv. reflexivity.
  - apply andb_true_iff in H. destruct H as [H1 H2]. destruct (String.eqb k k'); cbn; rewrite ?Hv, ?H1, ?H2, ?IH; auto.
Qed.
Lemma allv_remove k l : allv l = true -> allv (remove_key k l) = true.
Proof.
  unfold allv. induction l as [|[k' v'] l IH]; cbn; auto. intros H. apply andb_true_iff in H. destruct H as [H1 H2].
  destruct (String.eqb k k'); cbn; rewrite ?H1, ?IH; auto.
Qed.
Lemma allv_get k l v : allv l = true -> get k l = Some v -> P v = true.
Proof.
  unfold allv. induction l as [|[k' v'] l IH]; cbn; [discriminate|]. intros H. apply andb_true_iff in H. destruct H as [H1 H2].
  destruct (String.eqb k k'); [intros E; inversion E; subst; exact H1|auto].
Qed.
Lemma allv_set_remove k v l : allv (remove_key k l) = true -> P v = true -> allv (set k v l) = true.
Proof.
  unfold allv. induction l as [|[k' v'] l IH]; cbn; intros H Hv.
  - rewrite Hv. reflexivity.
  - destruct (String.eqb k k') eqn:E; cbn in *.
    + rewrite Hv, H. reflexivity.
    + apply andb_true_iff in H. destruct H as [H1 H2]. rewrite H1. cbn. apply IH; auto.
Qed.
End Forall.

Lemma set_nonempty {V} k (v : V) l : set k v l <> [].
Proof. destruct l as [|[k' v'] l]; cbn; [discriminate|]. destruct (String.eqb k k'); discriminate. Qed.

(* ---------- the invariant: a patched endpoint has a method, a patched method has a patch ---------- *)
Definition nonnil {A} (l : list A) : bool := match l with [] => false | _ => true end.
Definition table_ok (t : mtable) : bool := nonnil t && allv nonnil t.
Definition inv (s : mstate) : bool := allv table_ok (matches s).

Lemma replace_nth_nonnil {A} n (x : A) l l' : replace_nth n x l = Some l' -> nonnil l' = true.
Proof. destruct l; destruct n; cbn; try discriminate; [intros H; inversion H; reflexivity|]. destruct (replace_nth n x l); intros H; inversion H; reflexivity. Qed.
Lemma nonnil_set {V} k (v : V) l : nonnil (set k v l) = true.
Proof. pose proof (set_nonempty k v l). destruct (set k v l); [congruence|reflexivity]. Qed.
Lemma nonnil_snoc {A} (l : list A) x : nonnil (l ++ [x]) = true.
Proof. destruct l; reflexivity. Qed.

Lemma table_ok_set m l t : (t = [] \/ table_ok t = true) -> nonnil l = true -> table_ok (set m l t) = true.
Proof.
  intros Ht Hl. unfold table_ok. rewrite nonnil_set. cbn. apply allv_set; auto.
  destruct Ht as [->|Ht]; [reflexivity|]. unfold table_ok in Ht. apply andb_true_iff in Ht. tauto.
Qed.

Lemma cleanup_inv ms ep m : (forall t, get ep ms = Some t -> allv nonnil (remove_key m t) = true) ->
  allv table_ok (remove_key ep ms) = true ->
  (forall t, get ep ms = Some t -> match get m t with Some [] => True | _ => table_ok t = true end) ->
  allv table_ok (cleanup ms ep m) = true.
Proof.
  intros Hrem Hothers Ht. unfold cleanup, mtable in *. destruct (get ep ms) as [t|] eqn:E.
  2:{ (* endpoint absent: nothing changes *)
      assert (Hsame : remove_key ep ms = ms).
      { clear -E. induction ms as [|[k v] ms IH]; cbn in *; auto.
        destruct (String.eqb ep k) eqn:E2; [discriminate|]. rewrite IH; auto. }
      rewrite Hsame in Hothers. exact Hothers. }
  specialize (Hrem t eq_refl). specialize (Ht t eq_refl).
  assert (Hset : forall t', table_ok t' = true -> allv table_ok (set ep t' ms) = true).
  { intros t' Hok. apply allv_set_remove; auto. }
  destruct (get m t) as [[|p l]|] eqn:Em.
  - destruct (remove_key m t) as [|x t'] eqn:Er; [exact Hothers|]. apply Hset. unfold table_ok. rewrite Hrem. reflexivity.
  - destruct t as [|x t'] eqn:Et; [exact Hothers|]. apply Hset. exact Ht.
  - destruct t as [|x t'] eqn:Et; [exact Hothers|]. apply Hset. exact Ht.
Qed.

Lemma allv_remove_of_all ms ep : allv table_ok ms = true -> allv table_ok (remove_key ep ms) = true.
Proof. apply allv_remove. Qed.

Lemma remove_set_same {V} k (v : V) l : remove_key k (set k v l) = remove_key k l.
Proof.
  induction l as [|[k' v'] l IH]; cbn.
  - rewrite String.eqb_refl. reflexivity.
  - destruct (String.eqb k k') eqn:E; cbn; rewrite ?E, ?String.eqb_refl; auto. rewrite IH. reflexivity.
Qed.
Lemma get_set_same {V} k (v : V) l : get k (set k v l) = Some v.
Proof. rewrite get_set, String.eqb_refl. reflexivity. Qed.

Lemma match_request_inv s ep r : inv s = true -> inv (snd (match_request s ep r)) = true.
Proof.
  unfold inv, match_request. intros H.
  destruct (get ep (matches s)) as [t|] eqn:Et; [|exact H].
  destruct (get (r_method r) t) as [[|p rest]|] eqn:Em; try exact H.
  cbn [snd matches].
  pose proof (allv_get table_ok ep _ t H Et) as Htok. unfold table_ok in Htok. apply andb_true_iff in Htok. destruct Htok as [Hn Hall].
  apply cleanup_inv.
  - intros t0 Ht0. rewrite get_set_same in Ht0. inversion Ht0; subst. rewrite remove_set_same. apply allv_remove. exact Hall.
  - rewrite remove_set_same. apply allv_remove. exact H.
  - intros t0 Ht0. rewrite get_set_same in Ht0. inversion Ht0; subst. rewrite get_set_same.
    destruct (if p_once p then rest else rest ++ [p]) eqn:El; [exact I|].
    apply table_ok_set; [right; unfold table_ok; rewrite Hn, Hall; reflexivity|reflexivity].
Qed.
Lemma match_all_inv rs : forall s ep acc, inv s = true -> inv (snd (match_all s ep rs acc)) = true.
Proof.
  induction rs as [|r q IH]; intros s ep acc H; cbn; auto.
  pose proof (match_request_inv s ep r H) as H1. destruct (match_request s ep r) as [x s1]. cbn in H1.
  destruct (raises s ep r); [exact H1|].
  destruct (batch_append resp_id acc x); [apply IH; exact H1|exact H1].
Qed.

(* every operation - successful or failing - keeps the invariant; hence every reachable state has it *)
Theorem step_inv pt s o : inv s = true -> inv (snd (step pt s o)) = true.
Proof.
  intros H. unfold inv in *. destruct o as [ep m p|ep m idx p|ep [m|]| |ep r|ep rs]; cbn [step].
  - cbn [snd matches]. apply allv_set; auto. apply table_ok_set; [|apply nonnil_snoc].
    destruct (get ep (matches s)) as [t|] eqn:E; [right; eapply allv_get; eauto|left; reflexivity].
  - destruct (get ep (matches s)) as [t|] eqn:E; [|exact H]. destruct (get m t) as [l|] eqn:Em; [|exact H].
    destruct (norm_index idx (List.length l)) as [k|]; [|exact H].
    destruct (replace_nth k p l) as [l'|] eqn:Er; [|exact H]. cbn [snd matches].
    apply allv_set; auto. apply table_ok_set; [right; eapply allv_get; eauto|eapply replace_nth_nonnil; eauto].
  - destruct (get ep (matches s)) as [t|] eqn:E; [|exact H]. destruct (get m t) as [l|] eqn:Em; [|exact H]. cbn [snd matches].
    pose proof (allv_get table_ok ep _ t H E) as Htok. unfold table_ok in Htok. apply andb_true_iff in Htok. destruct Htok as [Hn Hall].
    destruct (remove_key m t) as [|x t'] eqn:Er; [apply allv_remove; exact H|].
    apply allv_set; auto. unfold table_ok. rewrite <- Er. rewrite (allv_remove nonnil m t Hall). rewrite Er. reflexivity.
  - destruct (get ep (matches s)); [|exact H]. cbn [snd matches]. apply allv_remove; exact H.
  - reflexivity.
  - destruct (get ep (matches s)) eqn:E; [|destruct pt; exact H].
    pose proof (match_request_inv s ep r H) as H1. destruct (match_request s ep r). exact H1.
  - destruct (get ep (matches s)) eqn:E; [|destruct pt; exact H].
    pose proof (match_all_inv rs s ep batch_empty H) as H1. destruct (match_all s ep rs batch_empty) as [[b|] s']; exact H1.
Qed.
Theorem run_inv pt ops : forall s, inv s = true -> inv (snd (run_ops pt s ops)) = true.
Proof.
  induction ops as [|o q IH]; intros s H; cbn; auto.
  pose proof (step_inv pt s o H) as H1. destruct (step pt s o) as [x s1]. cbn in H1.
  pose proof (IH s1 H1) as H2. destruct (run_ops pt s1 q) as [xs s2]. exact H2.
Qed.
Theorem reachable_inv pt ops : inv (snd (run_ops pt m_init ops)) = true.
Proof. apply run_inv. reflexivity. Qed.

Lemma batch_extend_cons' {A} (idof : A -> option idv) b x xs :
  batch_extend idof b (x :: xs) = (do b' <- batch_extend idof b [x] ; batch_extend idof b' xs).
Proof.
  unfold batch_extend, bind. cbn [map add_ids]. destruct (idof x) as [i|] eqn:E.
  - cbn [add_ids]. destruct (mem_id i (b_ids b)); [reflexivity|]. cbn [b_ids b_items].
    destruct (add_ids (b_ids b ++ [i]) (map idof xs)); [|reflexivity]. rewrite <- app_assoc. reflexivity.
  - cbn [add_ids b_ids b_items]. destruct (add_ids (b_ids b) (map idof xs)); [|reflexivity]. rewrite <- app_assoc. reflexivity.
Qed.

(* ---------- answering a call ---------- *)
Definition answer (p : patch) (r : request) : response :=
  match p_kind p with
  | PCallback tag => RResult (r_id r) (callback_value tag (r_params r))
  | PResult v => RResult (match r_id r with Some i => Some i | None => p_id p end) v
  | PError e => RError (match r_id r with Some i => Some i | None => p_id p end) e
  | PRaise => RError (r_id r) raise_marker
  end.
Definition patches (s : mstate) (ep m : string) : list patch :=
  match get ep (matches s) with Some t => match get m t with Some l => l | None => [] end | None => [] end.

Lemma cleanup_patches ms ep m k : NoDup (keys ms) -> (forall t, get ep ms = Some t -> NoDup (keys t)) ->
  match get ep (cleanup ms ep m) with Some t => match get k t with Some l => l | None => [] end | None => [] end
  = match get ep ms with Some t => match get k t with Some l => l | None => [] end | None => [] end.
Proof.
  intros Hn Ht. unfold cleanup, mtable in *. destruct (get ep ms) as [t|] eqn:E; [|rewrite E; reflexivity].
  specialize (Ht t eq_refl).
  assert (G : forall t', (forall j, match get j t' with Some l => l | None => [] end = match get j t with Some l => l | None => [] end) ->
              match (match t' with [] => get ep (remove_key ep ms) | _ => get ep (set ep t' ms) end) with
              | Some t0 => match get k t0 with Some l => l | None => [] end | None => [] end
              = match get k t with Some l => l | None => [] end).
  { intros t' Hj. destruct t' as [|x t''] eqn:Et'.
    - rewrite get_remove_key by exact Hn. rewrite String.eqb_refl. specialize (Hj k). cbn in Hj. auto.
    - rewrite get_set_same. apply Hj. }
  destruct (get m t) as [[|p l]|] eqn:Em.
  - destruct (remove_key m t) as [|x t''] eqn:Er.
    + rewrite get_remove_key by exact Hn. rewrite String.eqb_refl.
      assert (Hk : get k (remove_key m t) = None) by (rewrite Er; reflexivity).
      rewrite get_remove_key in Hk by exact Ht. destruct (String.eqb k m) eqn:Ek.
      * apply String.eqb_eq in Ek. subst. rewrite Em. reflexivity.
      * rewrite Hk. reflexivity.
    + rewrite get_set_same. rewrite <- Er. rewrite get_remove_key by exact Ht. destruct (String.eqb k m) eqn:Ek; auto.
      apply String.eqb_eq in Ek. subst. rewrite Em. reflexivity.
  - destruct t as [|x t'']; [discriminate|]. rewrite get_set_same. reflexivity.
  - destruct t as [|x t''].
    + rewrite get_remove_key by exact Hn. rewrite String.eqb_refl. reflexivity.
    + rewrite get_set_same. reflexivity.
Qed.

(* ---------- dict well-formedness (unique keys), preserved by every operation ---------- *)
Lemma uniq_remove {V} k (l : list (string * V)) : NoDup (keys l) -> NoDup (keys (remove_key k l)).
Proof.
  induction l as [|[k' v'] l IH]; cbn; auto. intros H. inversion H; subst. destruct (String.eqb k k'); auto. cbn.
  constructor; auto. intros Hin. apply H2. clear -Hin. induction l as [|[a b] l IH]; cbn in *; auto.
  destruct (String.eqb k a); cbn in *; tauto.
Qed.
Definition wfm (s : mstate) : Prop :=
  NoDup (keys (matches s)) /\ forall ep t, get ep (matches s) = Some t -> NoDup (keys t).

Lemma cleanup_keys ms ep m : NoDup (keys ms) -> NoDup (keys (cleanup ms ep m)).
Proof.
  intros H. unfold cleanup, mtable in *. destruct (get ep ms) as [t|]; auto.
  destruct (match get m t with Some [] => remove_key m t | _ => t end); [apply uniq_remove|apply uniq_set]; auto.
Qed.
Lemma cleanup_tables ms ep m : NoDup (keys ms) -> (forall e t, get e ms = Some t -> NoDup (keys t)) ->
  forall e t, get e (cleanup ms ep m) = Some t -> NoDup (keys t).
Proof.
  intros Hn Ht e t0. unfold cleanup, mtable in *. destruct (get ep ms) as [t|] eqn:E; [|apply Ht].
  set (t' := match get m t with Some [] => remove_key m t | _ => t end).
  assert (Ht' : NoDup (keys t')).
  { subst t'. destruct (get m t) as [[|p l]|]; [apply uniq_remove| |]; eapply Ht; eauto. }
  destruct t' as [|x t''] eqn:Et'.
  - rewrite get_remove_key by exact Hn. destruct (String.eqb e ep); [discriminate|apply Ht].
  - rewrite get_set. destruct (String.eqb e ep); [intros H; inversion H; subst; exact Ht'|apply Ht].
Qed.

Lemma match_request_wfm s ep r : wfm s -> wfm (snd (match_request s ep r)).
Proof.
  intros [Hn Ht]. unfold match_request. destruct (get ep (matches s)) as [t|] eqn:Et; [|split; auto].
  destruct (get (r_method r) t) as [[|p rest]|] eqn:Em; try (split; auto; fail).
  cbn [snd]. unfold wfm. cbn [matches].
  assert (Hn' : NoDup (keys (set ep (set (r_method r) (if p_once p then rest else rest ++ [p]) t) (matches s)))) by (apply uniq_set; auto).
  assert (Ht' : forall e t0, get e (set ep (set (r_method r) (if p_once p then rest else rest ++ [p]) t) (matches s)) = Some t0 -> NoDup (keys t0)).
  { intros e t0. rewrite get_set. destruct (String.eqb e ep); [intros H; inversion H; subst; apply uniq_set; eapply Ht; eauto|apply Ht]. }
  split; [apply cleanup_keys; auto|apply cleanup_tables; auto].
Qed.

(* ---------- what a call to a patched (endpoint, method) does ---------- *)
Theorem call_patched s ep r t p rest : wfm s ->
  get ep (matches s) = Some t -> get (r_method r) t = Some (p :: rest) ->
  fst (match_request s ep r) = answer p r
  /\ patches (snd (match_request s ep r)) ep (r_method r) = (if p_once p then rest else rest ++ [p])
  /\ (forall k, k <> r_method r -> patches (snd (match_request s ep r)) ep k = patches s ep k)
  /\ calls (snd (match_request s ep r)) = record_call (calls s) ep (r_method r) (r_params r).
Proof.
  intros [Hn Ht] Et Em. unfold match_request. rewrite Et, Em. cbn [fst snd calls]. repeat split.
  - unfold patches. cbn [matches]. rewrite cleanup_patches.
    + rewrite !get_set_same. reflexivity.
    + apply uniq_set; auto.
    + intros t0. rewrite get_set_same. intros H; inversion H; subst. apply uniq_set. eapply Ht; eauto.
  - intros k Hk. unfold patches. cbn [matches]. rewrite cleanup_patches.
    + rewrite get_set_same, get_set, Et. destruct (String.eqb k (r_method r)) eqn:E; [apply String.eqb_eq in E; contradiction|reflexivity].
    + apply uniq_set; auto.
    + intros t0. rewrite get_set_same. intros H; inversion H; subst. apply uniq_set. eapply Ht; eauto.
Qed.

(* a method that is not patched on a patched endpoint: -32601 carrying the request id, nothing changes *)
Theorem call_unpatched_method s ep r t : get ep (matches s) = Some t -> get (r_method r) t = None ->
  exists e, match_request s ep r = (RError (r_id r) e, s) /\ e_code e = MethodNotFoundError_code.
Proof. intros Et Em. unfold match_request. rewrite Et, Em. eexists. split; reflexivity. Qed.
(* an endpoint without patches: passed through to the real transport or refused, as configured; nothing changes *)
Theorem call_unpatched_endpoint pt s ep r : get ep (matches s) = None ->
  step pt s (MCall ep r) = (if pt then MPassthrough else MRefused, s).
Proof. intros E. cbn. rewrite E. reflexivity. Qed.
(* the reply carries the request id *)
Theorem reply_id s ep r i : r_id r = Some i -> resp_id (fst (match_request s ep r)) = Some i.
Proof.
  intros Hi. unfold match_request. destruct (get ep (matches s)) as [t|]; [|cbn; auto].
  destruct (get (r_method r) t) as [[|p rest]|]; cbn; auto. destruct (p_kind p); cbn; rewrite ?Hi; reflexivity.
Qed.

(* a patch whose serving raises *)
Theorem call_raising pt s ep r t p rest : wfm s ->
  get ep (matches s) = Some t -> get (r_method r) t = Some (p :: rest) -> p_kind p = PRaise ->
  fst (step pt s (MCall ep r)) = MRaised
  /\ patches (snd (step pt s (MCall ep r))) ep (r_method r) = (if p_once p then rest else rest ++ [p])
  /\ calls (snd (step pt s (MCall ep r))) = record_call (calls s) ep (r_method r) (r_params r).
Proof.
  intros Hw Et Em Hk. destruct (call_patched s ep r t p rest Hw Et Em) as [_ [B [_ D]]].
  cbn [step]. rewrite Et. assert (Hr : raises s ep r = true) by (unfold raises; rewrite Et, Em, Hk; reflexivity).
  destruct (match_request s ep r) as [x s'] eqn:E. cbn [fst snd] in *. rewrite Hr. repeat split; assumption.
Qed.
Lemma norm_index_spec idx n k : norm_index idx n = Some k ->
  ((0 <= idx)%Z /\ k = Z.to_nat idx) \/ ((idx < 0)%Z /\ (0 <= Z.of_nat n + idx)%Z /\ k = Z.to_nat (Z.of_nat n + idx)).
Proof.
  unfold norm_index. destruct (Z.leb_spec 0 idx) as [H|H].
  - intros E. inversion E. left. split; auto.
  - destruct (Z.leb_spec 0 (Z.of_nat n + idx)) as [H2|H2]; [|discriminate]. intros E. inversion E. right. repeat split; auto.
Qed.

(* ---------- round robin ---------- *)
Fixpoint calls_for (s : mstate) (ep : string) (rs : list request) : list response * mstate :=
  match rs with [] => ([], s) | r :: q => let '(x, s1) := match_request s ep r in let '(xs, s2) := calls_for s1 ep q in (x :: xs, s2) end.

Lemma patches_some s ep m p rest : patches s ep m = p :: rest ->
  exists t, get ep (matches s) = Some t /\ get m t = Some (p :: rest).
Proof.
  unfold patches. destruct (get ep (matches s)) as [t|]; [|discriminate]. destruct (get m t) as [l|] eqn:E; [|discriminate].
  intros ->. eauto.
Qed.

(* the patches of a pair answer in the order of addition, each going to the back of the queue after use; after as many calls
   as there are (non-once) patches at the front, the queue has rotated by exactly that many *)
Theorem round_robin ep m : forall (a b : list patch) (rs : list request) s, wfm s ->
  patches s ep m = a ++ b -> forallb (fun p => negb (p_once p)) a = true ->
  List.length rs = List.length a -> (forall r, In r rs -> r_method r = m) ->
  fst (calls_for s ep rs) = map (fun pr => answer (fst pr) (snd pr)) (combine a rs)
  /\ patches (snd (calls_for s ep rs)) ep m = b ++ a.
Proof.
  induction a as [|p a IH]; intros b rs s Hw Hp Ha Hl Hm.
  - destruct rs; [|discriminate]. cbn. rewrite app_nil_r. auto.
  - destruct rs as [|r rs]; [discriminate|]. cbn in Ha. apply andb_true_iff in Ha. destruct Ha as [Hp1 Ha].
    assert (Hr : r_method r = m) by (apply Hm; left; reflexivity).
    cbn in Hp. destruct (patches_some s ep m p (a ++ b) Hp) as [t [Et Em]]. rewrite <- Hr in Em.
    destruct (call_patched s ep r t p (a ++ b) Hw Et Em) as [A [B [C D]]].
    pose proof (match_request_wfm s ep r Hw) as Hw1.
    cbn [calls_for]. destruct (match_request s ep r) as [x s1]. cbn [fst snd] in *.
    rewrite negb_true_iff in Hp1. rewrite Hp1, Hr in B. rewrite <- app_assoc in B.
    destruct (IH (b ++ [p]) rs s1 Hw1 B Ha ltac:(cbn in Hl; lia) ltac:(intros; apply Hm; right; auto)) as [I1 I2].
    destruct (calls_for s1 ep rs) as [xs s2]. cbn [fst snd] in *. split.
    + cbn. rewrite A, I1. reflexivity.
    + rewrite I2, <- app_assoc. reflexivity.
Qed.

(* a once-patch answers exactly one call and is gone *)
Theorem once_used_once s ep r t p rest : wfm s ->
  get ep (matches s) = Some t -> get (r_method r) t = Some (p :: rest) -> p_once p = true ->
  fst (match_request s ep r) = answer p r /\ patches (snd (match_request s ep r)) ep (r_method r) = rest.
Proof.
  intros Hw Et Em Ho. destruct (call_patched s ep r t p rest Hw Et Em) as [A [B _]]. rewrite Ho in B. auto.
Qed.

(* batches are answered element-wise, threading the state through the elements in order: when the replies carry pairwise
   distinct ids the answer is the array of exactly the replies the elements get one after the other *)
(* no element of the batch is served by a patch that raises *)
Fixpoint no_raise (s : mstate) (ep : string) (rs : list request) : bool :=
  match rs with [] => true | r :: q => negb (raises s ep r) && no_raise (snd (match_request s ep r)) ep q end.
Lemma match_all_calls_for rs : forall s ep acc, no_raise s ep rs = true ->
  match batch_extend resp_id acc (fst (calls_for s ep rs)) with
  | Ok b => match_all s ep rs acc = (Some b, snd (calls_for s ep rs))
  | Raise _ => fst (match_all s ep rs acc) = None end.
Proof.
  induction rs as [|r q IH]; intros s ep acc Hnr; cbn [calls_for match_all].
  - cbn. unfold batch_extend, bind. cbn. rewrite !app_nil_r. destruct acc; reflexivity.
  - cbn [no_raise] in Hnr. apply andb_true_iff in Hnr. destruct Hnr as [Hr Hq]. apply negb_true_iff in Hr. rewrite Hr.
    destruct (match_request s ep r) as [x s1]. cbn [snd] in Hq. specialize (IH s1 ep).
    destruct (calls_for s1 ep q) as [xs s2]. cbn [fst snd] in *.
    rewrite batch_extend_cons'. unfold batch_append. destruct (batch_extend resp_id acc [x]) as [acc'|e]; cbn [bind]; [apply IH; exact Hq|reflexivity].
Qed.
Theorem batch_elementwise pt s ep rs t b : get ep (matches s) = Some t -> no_raise s ep rs = true ->
  batch_extend resp_id batch_empty (fst (calls_for s ep rs)) = Ok b ->
  step pt s (MBatch ep rs) = (MReply (JArr (map resp_to_json (fst (calls_for s ep rs)))), snd (calls_for s ep rs)).
Proof.
  intros E Hnr Hb. cbn [step]. rewrite E. pose proof (match_all_calls_for rs s ep batch_empty Hnr) as H. rewrite Hb in H. rewrite H.
  unfold batch_extend, bind in Hb. cbn in Hb. destruct (add_ids [] _); inversion Hb; subst. reflexivity.
Qed.

Lemma match_all_wfm rs : forall s ep acc, wfm s -> wfm (snd (match_all s ep rs acc)).
Proof.
  induction rs as [|r q IH]; intros s ep acc H; cbn; auto.
  pose proof (match_request_wfm s ep r H) as H1. destruct (match_request s ep r) as [x s1]. cbn in H1.
  destruct (raises s ep r); [exact H1|].
  destruct (batch_append resp_id acc x); [apply IH; exact H1|exact H1].
Qed.
Lemma wfm_set s ep t' : wfm s -> NoDup (keys t') -> wfm {| matches := set ep t' (matches s); calls := calls s |}.
Proof.
  intros [Hn Ht] Hk. split; cbn [matches]; [apply uniq_set; auto|].
  intros e t0. rewrite get_set. destruct (String.eqb e ep); [intros H; inversion H; subst; auto|apply Ht].
Qed.
Lemma wfm_remove s ep : wfm s -> wfm {| matches := remove_key ep (matches s); calls := calls s |}.
Proof.
  intros [Hn Ht]. split; cbn [matches]; [apply uniq_remove; auto|].
  intros e t0. rewrite get_remove_key by exact Hn. destruct (String.eqb e ep); [discriminate|apply Ht].
Qed.
Theorem step_wfm pt s o : wfm s -> wfm (snd (step pt s o)).
Proof.
  intros H. pose proof H as [Hn Ht]. destruct o as [ep m p|ep m idx p|ep [m|]| |ep r|ep rs]; cbn [step].
  - cbn [snd]. apply wfm_set; auto. apply uniq_set. destruct (get ep (matches s)) eqn:E; [eapply Ht; eauto|constructor].
  - destruct (get ep (matches s)) as [t|] eqn:E; [|exact H]. destruct (get m t) as [l|]; [|exact H].
    destruct (norm_index idx (List.length l)) as [k|]; [|exact H].
    destruct (replace_nth k p l); [|exact H]. cbn [snd]. apply wfm_set; auto. apply uniq_set. eapply Ht; eauto.
  - destruct (get ep (matches s)) as [t|] eqn:E; [|exact H]. destruct (get m t) as [l|]; [|exact H]. cbn [snd].
    destruct (remove_key m t) as [|x t'] eqn:Er; [apply wfm_remove; auto|].
    apply wfm_set; auto. rewrite <- Er. apply uniq_remove. eapply Ht; eauto.
  - destruct (get ep (matches s)); [|exact H]. cbn [snd]. apply wfm_remove; auto.
  - split; cbn; [constructor|discriminate].
  - destruct (get ep (matches s)); [|destruct pt; exact H].
    pose proof (match_request_wfm s ep r H) as H1. destruct (match_request s ep r). exact H1.
  - destruct (get ep (matches s)); [|destruct pt; exact H].
    pose proof (match_all_wfm rs s ep batch_empty H) as H1. destruct (match_all s ep rs batch_empty) as [[b|] s']; exact H1.
Qed.
Theorem reachable_wfm pt ops : wfm (snd (run_ops pt m_init ops)).
Proof.
  assert (G : forall ops s, wfm s -> wfm (snd (run_ops pt s ops))).
  { induction ops0 as [|o q IH]; intros s H; cbn; auto.
    pose proof (step_wfm pt s o H) as H1. destruct (step pt s o) as [x s1]. cbn in H1.
    pose proof (IH s1 H1) as H2. destruct (run_ops pt s1 q) as [xs s2]. exact H2. }
  apply G. split; cbn; [constructor|discriminate].
Qed.
