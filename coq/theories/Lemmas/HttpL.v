(* Proofs about Model/Http.v (C18). *)
From Coq Require Import ZArith List String Ascii Bool.
From PJ Require Import Base.Json Base.Res Generated.Consts Model.Msg Model.Bind Model.Dispatch Model.Http Lemmas.DispatchL.
Import ListNotations.
Open Scope string_scope. Open Scope list_scope.

(* parameters after the media type (charset=..., anything after the first ';') do not matter *)
Lemma before_semicolon_params t p : before_semicolon ((t ++ String ";" p)%string) = before_semicolon t.
Proof.
  induction t as [|c t IH]; cbn.
  - reflexivity.
  - destruct (Ascii.eqb c ";"); [reflexivity|]. rewrite IH. reflexivity.
Qed.
Theorem media_type_ignores_params t p : media_type (Some ((t ++ String ";" p)%string)) = media_type (Some (before_semicolon t)).
Proof.
  unfold media_type. rewrite before_semicolon_params.
  assert (H : before_semicolon (before_semicolon t) = before_semicolon t).
  { induction t as [|c t IH]; cbn; auto. destruct (Ascii.eqb c ";") eqn:E; cbn; [reflexivity|]. rewrite E, IH. reflexivity. }
  rewrite H. reflexivity.
Qed.
Theorem accepted_ignores_params t p : accepted_type (Some ((t ++ String ";" p)%string)) = accepted_type (Some (before_semicolon t)).
Proof. unfold accepted_type. rewrite media_type_ignores_params. reflexivity. Qed.

(* letter case does not matter *)
Lemma lower_ascii_semicolon c : Ascii.eqb (lower_ascii c) ";" = Ascii.eqb c ";".
Proof. destruct c as [[] [] [] [] [] [] [] []]; reflexivity. Qed.
Lemma lower_ascii_space c : is_space (lower_ascii c) = is_space c.
Proof. destruct c as [[] [] [] [] [] [] [] []]; reflexivity. Qed.
Lemma lower_ascii_idem c : lower_ascii (lower_ascii c) = lower_ascii c.
Proof. destruct c as [[] [] [] [] [] [] [] []]; reflexivity. Qed.
Lemma lower_before s : before_semicolon (lower s) = lower (before_semicolon s).
Proof. induction s as [|c s IH]; cbn; auto. rewrite lower_ascii_semicolon. destruct (Ascii.eqb c ";"); cbn; [reflexivity|rewrite IH; reflexivity]. Qed.
Lemma lower_ltrim s : ltrim (lower s) = lower (ltrim s).
Proof. induction s as [|c s IH]; cbn; auto. rewrite lower_ascii_space. destruct (is_space c); auto. Qed.
Lemma lower_rtrim s : rtrim (lower s) = lower (rtrim s).
Proof.
  induction s as [|c s IH]; cbn; auto. rewrite IH. destruct (rtrim s) as [|d r]; cbn.
  - rewrite lower_ascii_space. destruct (is_space c); reflexivity.
  - reflexivity.
Qed.
Lemma lower_idem s : lower (lower s) = lower s.
Proof. induction s as [|c s IH]; cbn; auto. rewrite lower_ascii_idem, IH. reflexivity. Qed.
Theorem media_type_case_insensitive s : media_type (Some (lower s)) = media_type (Some s).
Proof. unfold media_type. rewrite lower_before, lower_ltrim, lower_rtrim, lower_idem. reflexivity. Qed.

(* every documented request content type is accepted (re-proved against the regenerated constants) *)
Theorem documented_types_accepted : forallb (fun t => accepted_type (Some t)) request_content_types = true.
Proof. vm_compute. reflexivity. Qed.

(* the verdict *)
Theorem relay i f h out : accepted_type h = true ->
  handle i f h (BText out) =
  match out with
  | None => {| r_status := 200; r_ctype := None; r_body := None; r_dispatched := true |}
  | Some (doc, codes) => {| r_status := status_of (effective_status i f) codes; r_ctype := Some default_content_type;
                            r_body := Some doc; r_dispatched := true |} end.
Proof. intros H. unfold handle. rewrite H. destruct out as [[doc codes]|]; reflexivity. Qed.
Theorem refuse i f h b : accepted_type h = false ->
  handle i f h b = {| r_status := 415; r_ctype := None; r_body := None; r_dispatched := false |}.
Proof. intros H. unfold handle. rewrite H. reflexivity. Qed.
Theorem default_status i codes : status_of (effective_status i SDefault) codes = 200%Z.
Proof. destruct i; reflexivity. Qed.
Theorem uniform i j h b : handle i SDefault h b = handle j SDefault h b.
Proof. unfold handle. destruct (accepted_type h); cbn; auto. destruct b as [[[doc codes]|]|]; auto. destruct i, j; reflexivity. Qed.
Theorem uniform_status_fn f h b : handle IAiohttp f h b = handle IFlask f h b.
Proof. reflexivity. Qed.

(* composed with Model/Dispatch.v: whatever the dispatcher answers, the status handed back is the status function applied to the
   error tuple OF THE DOCUMENT - one entry per answered call, 0 for a success - so a status function may count and compare *)
Theorem relay_dispatch cfg l ctx i f h doc codes lg :
  accepted_type h = true -> dispatch cfg l ctx = (Ok (Some (doc, codes)), lg) ->
  handle i f h (BText (Some (doc, codes))) =
  {| r_status := status_of (effective_status i f) (codes_of_doc doc); r_ctype := Some default_content_type;
     r_body := Some doc; r_dispatched := true |}.
Proof.
  intros Ha Hd. rewrite (relay i f h (Some (doc, codes)) Ha).
  destruct (dispatch_wf _ _ _ _ _ _ Hd) as [_ Hc]. rewrite Hc. reflexivity.
Qed.
Theorem codes_per_call docs : List.length (codes_of_doc (JArr docs)) = List.length docs.
Proof. cbn. apply map_length. Qed.
(* the two status functions of the harness that look at successes / at the count *)
Theorem mixed_spec a p k codes :
  status_of (SMixed a p k) codes =
  if forallb (Z.eqb 0) codes then k else if existsb (Z.eqb 0) codes then p else a.
Proof. reflexivity. Qed.
Theorem mixed_partial a p k codes : In 0%Z codes -> (exists c, In c codes /\ c <> 0%Z) -> status_of (SMixed a p k) codes = p.
Proof.
  intros H0 [c [Hc Hn]]. cbn.
  destruct (forallb (Z.eqb 0) codes) eqn:E.
  - rewrite forallb_forall in E. specialize (E c Hc). apply Z.eqb_eq in E. congruence.
  - assert (X : existsb (Z.eqb 0) codes = true) by (apply existsb_exists; exists 0%Z; split; [assumption|reflexivity]).
    rewrite X. reflexivity.
Qed.
Theorem count_spec b docs : status_of (SCount b) (codes_of_doc (JArr docs)) = (b + Z.of_nat (List.length docs))%Z.
Proof. cbn [status_of]. rewrite codes_per_call. reflexivity. Qed.
