(* Proofs about the exclusion predicate of the validators (C14, C17): Model/Validators.v, second part. *)
From Coq Require Import ZArith List String Ascii Bool.
From PJ Require Import Base.Json Base.Res Model.Bind Model.Validators Lemmas.Tactics Lemmas.BindL Lemmas.ValidatorsL.
Import ListNotations.
Open Scope string_scope. Open Scope list_scope.

Lemma mem_In x l : mem_str x l = true <-> In x l.
Proof.
  unfold mem_str. rewrite existsb_exists. split.
  - intros [y [Hy E]]. apply String.eqb_eq in E. subst. exact Hy.
  - intros H. exists x. split; auto. apply String.eqb_refl.
Qed.
Lemma mem_false x l : mem_str x l = false <-> ~ In x l.
Proof. rewrite <- mem_In. destruct (mem_str x l); split; congruence. Qed.

Lemma exclude_all_nil s : sig_exclude_all [] s = s.
Proof. unfold sig_exclude_all, mem_str. induction s as [|p s IH]; cbn; [reflexivity|]. f_equal. exact IH. Qed.
Lemma exclude_all_In xs s p : In p (sig_exclude_all xs s) <-> In p s /\ ~ In (pname p) xs.
Proof. unfold sig_exclude_all. rewrite filter_In, negb_true_iff, mem_false. tauto. Qed.
Lemma exclude_all_names xs s m : In m (names (sig_exclude_all xs s)) <-> In m (names s) /\ ~ In m xs.
Proof.
  unfold names. rewrite !in_map_iff. split.
  - intros [p [<- Hp]]. apply exclude_all_In in Hp. destruct Hp. split; eauto.
  - intros [[p [<- Hp]] Hn]. exists p. split; auto. apply exclude_all_In. auto.
Qed.
Lemma exclude_all_simple xs s : simple_sig s = true -> simple_sig (sig_exclude_all xs s) = true.
Proof. unfold simple_sig. rewrite !forallb_forall. intros H p Hp. apply H. apply exclude_all_In in Hp. tauto. Qed.
Lemma filter_distinct (f : param -> bool) s : names_distinct s = true -> names_distinct (filter f s) = true.
Proof.
  induction s as [|p s IH]; cbn; auto. rewrite andb_true_iff, negb_true_iff. intros [H1 H2]. specialize (IH H2).
  destruct (f p); auto. cbn. rewrite IH, andb_true_r, negb_true_iff.
  destruct (existsb (fun q => String.eqb (pname p) (pname q)) (filter f s)) eqn:E; auto.
  apply existsb_exists in E. destruct E as [q [Hq Hq2]]. apply filter_In in Hq. destruct Hq as [Hq _].
  assert (existsb (fun q => String.eqb (pname p) (pname q)) s = true) by (apply existsb_exists; eauto). congruence.
Qed.
Lemma exclude_all_distinct xs s : names_distinct s = true -> names_distinct (sig_exclude_all xs s) = true.
Proof. apply filter_distinct. Qed.
Lemma excluded_sig_simple s cm : simple_sig s = true -> simple_sig (excluded_sig s cm) = true.
Proof. destruct cm; cbn; auto using exclude_simple. Qed.
Lemma excluded_sig_distinct s cm : names_distinct s = true -> names_distinct (excluded_sig s cm) = true.
Proof. destruct cm; cbn; auto using exclude_distinct. Qed.
Lemma excluded_sig_names s cm m : In m (names (excluded_sig s cm)) -> In m (names s).
Proof. destruct cm; cbn; auto; intros H; apply exclude_names in H; tauto. Qed.

(* without a predicate nothing changes: the three validators of the first part are the special case xs = [] *)
Theorem invoke_x_nil s cm ctx p sc o coerce :
  invoke_base_x s cm [] ctx p = method_invoke s cm ctx p
  /\ invoke_js_x s cm [] ctx sc p = invoke_js s cm ctx sc p
  /\ invoke_pyd_x s cm [] ctx o coerce p = invoke_pyd s cm ctx o coerce p.
Proof.
  unfold invoke_base_x, invoke_js_x, invoke_pyd_x, excluded_sig_x. rewrite exclude_all_nil, invoke_decomp. repeat split.
Qed.

(* an excluded parameter is never part of what is validated ... *)
Theorem excluded_not_validated s cm xs p kw : simple_sig s = true -> names_distinct s = true -> params_wf p ->
  validate_bind (excluded_sig_x s cm xs) p = Some kw -> forall n, In n xs -> ~ In n (keys kw).
Proof.
  intros Hs Hd Hw E n Hn Hin. unfold excluded_sig_x in E.
  pose proof (core _ p (exclude_all_simple xs _ (excluded_sig_simple s cm Hs))
                   (exclude_all_distinct xs _ (excluded_sig_distinct s cm Hd)) Hw) as C.
  rewrite E in C. destruct C as [A _]. apply A, exclude_all_names in Hin. tauto.
Qed.
(* ... and the client can never supply it: naming it is an invalid-params failure under every validator, the body does not run *)
Lemma x_mapping_unbound s cm xs d n : simple_sig s = true -> names_distinct s = true -> In n xs -> In n (keys d) ->
  validate_bind (excluded_sig_x s cm xs) (PKw d) = None.
Proof.
  intros Hs Hd Hn Hin. cbn [validate_bind]. unfold sig_bind_kw, excluded_sig_x.
  destruct (sig_bind_kw_go (sig_exclude_all xs (excluded_sig s cm)) d None) as [kw|] eqn:E; auto.
  destruct (sbk_some _ (exclude_all_simple xs _ (excluded_sig_simple s cm Hs))
                     (exclude_all_distinct xs _ (excluded_sig_distinct s cm Hd)) d kw E) as [_ [B _]].
  apply B, exclude_all_names in Hin. tauto.
Qed.
Theorem excluded_not_settable s cm xs ctx d n sc o coerce :
  simple_sig s = true -> names_distinct s = true -> In n xs -> In n (keys d) ->
  invoke_base_x s cm xs ctx (PKw d) = InvInvalid
  /\ invoke_js_x s cm xs ctx sc (PKw d) = InvInvalid
  /\ invoke_pyd_x s cm xs ctx o coerce (PKw d) = InvInvalid.
Proof.
  intros Hs Hd Hn Hin. unfold invoke_base_x, invoke_js_x, invoke_pyd_x, validate_js, validate_pyd.
  rewrite (x_mapping_unbound s cm xs d n Hs Hd Hn Hin). repeat split.
Qed.

(* the schema / type validators with a predicate: executed iff the arguments bind to the reduced signature and conform; then the
   body is called exactly as the plain binder would call it *)
Theorem invoke_js_x_spec s cm xs ctx sc p :
  invoke_js_x s cm xs ctx sc p =
  match validate_bind (excluded_sig_x s cm xs) p with
  | Some kw => if js_valid sc (JObj kw) then invoke_base_x s cm xs ctx p else InvInvalid
  | None => InvInvalid end.
Proof.
  unfold invoke_js_x, invoke_base_x, validate_js. destruct (validate_bind (excluded_sig_x s cm xs) p) as [kw|]; auto.
  destruct (js_valid sc (JObj kw)); reflexivity.
Qed.
Theorem invoke_pyd_x_spec s cm xs ctx o coerce p :
  invoke_pyd_x s cm xs ctx o coerce p =
  match validate_bind (excluded_sig_x s cm xs) p with
  | Some kw => match apply_verdicts o kw with
               | Some kw' => if coerce then call_with s cm ctx kw' else invoke_base_x s cm xs ctx p
               | None => InvInvalid end
  | None => InvInvalid end.
Proof.
  unfold invoke_pyd_x, invoke_base_x, validate_pyd. destruct (validate_bind (excluded_sig_x s cm xs) p) as [kw|]; auto.
  destruct (apply_verdicts o kw); auto. destruct coerce; reflexivity.
Qed.

(* THE exclusion theorem (no context parameter): when the excluded parameters have defaults, the dispatcher's path is a direct
   call of the function the client sees - the signature minus the excluded parameters - and the excluded parameters take their
   defaults whatever the client sent *)
Lemma get_widen_distinct s (e' : env) p : names_distinct s = true -> In p s ->
  get (pname p) (widen s e') = Some (match get (pname p) e' with Some v => v | None => Default end).
Proof. intros Hd Hp. unfold widen. apply (get_map_distinct (fun q => match get (pname q) e' with Some v => v | None => Default end) s Hd p Hp). Qed.
Theorem invoke_base_x_direct s xs ctx p :
  simple_sig s = true -> names_distinct s = true -> params_wf p ->
  (forall q, In q s -> In (pname q) xs -> pdef q = true) ->
  invoke_base_x s CtxNone xs ctx p =
  match py_call (sig_exclude_all xs s) (fst (split_params p)) (snd (split_params p)) with
  | Some e' => InvRan (widen s e') | None => InvInvalid end.
Proof.
  intros Hs Hd Hw Hdef. unfold invoke_base_x, excluded_sig_x. cbn [excluded_sig].
  pose proof (core _ p (exclude_all_simple xs s Hs) (exclude_all_distinct xs s Hd) Hw) as C.
  destruct (validate_bind (sig_exclude_all xs s) p) as [kw|]; [|rewrite C; reflexivity].
  destruct C as [A [B [e' [He' Hp]]]]. rewrite Hp. unfold call_with.
  assert (Hsub : forall n, In n (keys kw) -> In n (names s)) by (intros n Hn; apply A, exclude_all_names in Hn; tauto).
  rewrite py_call_kwonly; auto.
  assert (Hreq : forall q, In q s -> pdef q = false -> get (pname q) kw <> None).
  { intros q Hq Hdq. apply (finish_some_required _ (exclude_all_simple xs s Hs) kw e' He'); auto.
    apply exclude_all_In. split; auto. intros Hx. rewrite (Hdef q Hq Hx) in Hdq. discriminate. }
  destruct (finish_simple_some s Hs kw Hreq) as [e He]. rewrite He. f_equal.
  rewrite (finish_simple_char s Hs kw e He). unfold widen. apply map_ext_in. intros q Hq. f_equal.
  rewrite (finish_simple_char _ (exclude_all_simple xs s Hs) kw e' He').
  destruct (in_dec string_dec (pname q) xs) as [Hx|Hx].
  - (* excluded: absent from e', and never bound *)
    assert (G : get (pname q) (map (fun p0 => (pname p0, slot_of kw p0)) (sig_exclude_all xs s)) = None).
    { apply get_notin. unfold keys. rewrite map_map. cbn. intros Hin. apply in_map_iff in Hin. destruct Hin as [r [Hr1 Hr2]].
      apply exclude_all_In in Hr2. rewrite Hr1 in Hr2. tauto. }
    rewrite G. unfold slot_of. rewrite get_notin; auto. intros Hk. apply A, exclude_all_names in Hk. tauto.
  - rewrite (get_map_distinct (slot_of kw) _ (exclude_all_distinct xs s Hd) q); auto. apply exclude_all_In. auto.
Qed.
Corollary excluded_takes_default s xs ctx p e n :
  simple_sig s = true -> names_distinct s = true -> params_wf p ->
  (forall q, In q s -> In (pname q) xs -> pdef q = true) ->
  invoke_base_x s CtxNone xs ctx p = InvRan e -> In n xs -> In n (names s) -> get n e = Some Default.
Proof.
  intros Hs Hd Hw Hdef H Hn Hin. rewrite (invoke_base_x_direct s xs ctx p Hs Hd Hw Hdef) in H.
  pose proof (core _ p (exclude_all_simple xs s Hs) (exclude_all_distinct xs s Hd) Hw) as C.
  destruct (py_call (sig_exclude_all xs s) _ _) as [e'|] eqn:E; [|discriminate]. inversion H; subst. clear H.
  apply in_map_iff in Hin. destruct Hin as [q [<- Hq]]. rewrite (get_widen_distinct s e' q Hd Hq).
  destruct (validate_bind (sig_exclude_all xs s) p) as [kw|]; [|congruence].
  destruct C as [_ [_ [e2 [He2 Hp2]]]]. inversion Hp2; subst.
  rewrite (finish_simple_char _ (exclude_all_simple xs s Hs) kw e2 He2).
  rewrite get_notin; auto. unfold keys. rewrite map_map. cbn. intros Hin. apply in_map_iff in Hin. destruct Hin as [r [Hr1 Hr2]].
  apply exclude_all_In in Hr2. rewrite Hr1 in Hr2. tauto.
Qed.

(* C17: the documents list exactly the parameters the binder sees, whatever the set of excluded names *)
Theorem documented_is_bound_sig s excl : simple_sig s = true -> documented s excl = sig_exclude_all excl s.
Proof.
  unfold documented, sig_exclude_all, simple_sig. intros H. apply filter_ext_in. intros p Hp.
  rewrite forallb_forall in H. specialize (H p Hp). destruct (pk p); try discriminate; rewrite andb_true_r; reflexivity.
Qed.
Theorem documented_binds_iff s excl d : simple_sig s = true -> names_distinct s = true ->
  ((exists kw, sig_bind_kw (sig_exclude_all excl s) d = Some kw) <->
   ((forall n, In n (keys d) -> In n (documented_names s excl))
    /\ (forall r, In r (documented_required s excl) -> In r (keys d)))).
Proof.
  intros Hs Hd. rewrite (mapping_binds_iff _ d (exclude_all_simple excl s Hs) (exclude_all_distinct excl s Hd)).
  unfold documented_names, documented_required. rewrite (documented_is_bound_sig s excl Hs). unfold names.
  split; intros [A B]; split; auto.
  - intros r Hr. apply in_map_iff in Hr. destruct Hr as [q [<- Hq]]. apply filter_In in Hq. destruct Hq as [Hq1 Hq2].
    apply B; auto. apply negb_true_iff in Hq2. exact Hq2.
  - intros q Hq Hdq. apply B. apply in_map_iff. exists q. split; auto. apply filter_In. split; auto. rewrite Hdq. reflexivity.
Qed.
