From Coq Require Import ZArith List String Ascii Bool Lia.
From PJ Require Import Base.Json Model.Spec Lemmas.RegistryL.
Import ListNotations.
Open Scope string_scope. Open Scope list_scope.

Definition step (global : string) (h : heap) (d : sdoc) (m : smethod) : sdoc :=
  let e := entry_of global h m in
  {| d_paths := set (sm_key m) e (d_paths d); d_components := add_all (en_comps e) (d_components d) |}.
Lemma generate_fold global h ms : fst (generate global h ms) = fold_left (step global h) ms {| d_paths := []; d_components := [] |}.
Proof. reflexivity. Qed.

(* pure: the heap of user-owned lists is returned untouched; hence repeating the generation yields the identical document *)
Theorem pure global h ms : snd (generate global h ms) = h.
Proof. reflexivity. Qed.
Theorem idempotent global h ms : generate global (snd (generate global h ms)) ms = generate global h ms.
Proof. rewrite pure. reflexivity. Qed.
Theorem pure_rpc h ms : snd (generate_rpc h ms) = h /\ generate_rpc (snd (generate_rpc h ms)) ms = generate_rpc h ms.
Proof. split; reflexivity. Qed.

(* complete: with pairwise distinct keys every method has exactly one entry, in registration order, and it is its own *)
Lemma set_fresh {V} k (v : V) l : ~ In k (keys l) -> set k v l = l ++ [(k, v)].
Proof.
  induction l as [|[k' v'] l IH]; cbn; auto. intros H. destruct (String.eqb k k') eqn:E.
  - apply String.eqb_eq in E. subst. exfalso; auto.
  - rewrite IH; auto.
Qed.
Lemma paths_fold global h ms : forall d,
  NoDup (keys (d_paths d) ++ map sm_key ms) ->
  d_paths (fold_left (step global h) ms d) = d_paths d ++ map (fun m => (sm_key m, entry_of global h m)) ms.
Proof.
  induction ms as [|m ms IH]; intros d Hn; cbn.
  - rewrite app_nil_r. reflexivity.
  - rewrite IH.
    + cbn [step d_paths]. rewrite set_fresh.
      * rewrite <- app_assoc. reflexivity.
      * intros Hin. apply NoDup_remove_2 in Hn. apply Hn. apply in_or_app. left. exact Hin.
    + cbn [step d_paths]. rewrite set_fresh.
      * unfold keys. rewrite map_app. cbn. rewrite <- app_assoc. exact Hn.
      * intros Hin. apply NoDup_remove_2 in Hn. apply Hn. apply in_or_app. left. exact Hin.
Qed.
Theorem complete global h ms : NoDup (map sm_key ms) ->
  d_paths (fst (generate global h ms)) = map (fun m => (sm_key m, entry_of global h m)) ms.
Proof. intros H. rewrite generate_fold, paths_fold; auto. Qed.

(* isolated: the entry of a method is a function of that method's own annotations, the extractor output for it and the global
   configuration - no other method of the set occurs in it *)
Theorem isolated global h ms m : NoDup (map sm_key ms) -> In m ms ->
  get (sm_key m) (d_paths (fst (generate global h ms))) = Some (entry_of global h m).
Proof.
  intros Hn Hin. rewrite complete by exact Hn. clear -Hn Hin. induction ms as [|a ms IH]; [destruct Hin|].
  cbn. inversion Hn; subst. destruct Hin as [->|Hin].
  - rewrite String.eqb_refl. reflexivity.
  - destruct (String.eqb (sm_key m) (sm_key a)) eqn:E; [|apply IH; auto].
    apply String.eqb_eq in E. exfalso. apply H1. rewrite <- E. apply in_map. exact Hin.
Qed.

(* closed: if the extractors only refer to components they return (the oracle contract), every reference resolves *)
Lemma add_all_keeps l : forall acc x, In x acc -> In x (add_all l acc).
Proof. induction l as [|a l IH]; cbn; auto. intros acc x H. apply IH. destruct (mem_str a acc); auto. apply in_or_app; auto. Qed.
Lemma mem_str_In x l : mem_str x l = true <-> In x l.
Proof.
  unfold mem_str. rewrite existsb_exists. split.
  - intros [y [Hy E]]. apply String.eqb_eq in E. subst. exact Hy.
  - intros H. exists x. split; auto. apply String.eqb_refl.
Qed.
Lemma add_all_adds l : forall acc x, In x l -> In x (add_all l acc).
Proof.
  induction l as [|a l IH]; cbn; [tauto|]. intros acc x [->|H]; [|apply IH; exact H].
  apply add_all_keeps. destruct (mem_str x acc) eqn:E; [apply mem_str_In; exact E|apply in_or_app; right; left; reflexivity].
Qed.
Lemma components_fold global h ms : forall d x,
  (In x (d_components d) \/ exists m, In m ms /\ In x (en_comps (entry_of global h m))) ->
  In x (d_components (fold_left (step global h) ms d)).
Proof.
  induction ms as [|m ms IH]; intros d x H; cbn.
  - destruct H as [H|[m [[] _]]]. exact H.
  - apply IH. cbn [step d_components]. destruct H as [H|[m' [[->|Hin] Hx]]].
    + left. apply add_all_keeps. exact H.
    + left. apply add_all_adds. exact Hx.
    + right. exists m'. auto.
Qed.
Theorem closed global h ms : NoDup (map sm_key ms) ->
  (forall m, In m ms -> forall n, In n (sm_refs m) -> In n (sm_comps m)) ->
  forall k e r, In (k, e) (d_paths (fst (generate global h ms))) -> In r (en_refs e) -> In r (d_components (fst (generate global h ms))).
Proof.
  intros Hn Hc k e r Hin Hr. rewrite complete in Hin by exact Hn. apply in_map_iff in Hin. destruct Hin as [m [E Hm]].
  inversion E; subst. rewrite generate_fold. apply components_fold. right. exists m. split; auto.
  cbn [entry_of en_refs en_comps] in *. apply in_map_iff in Hr. destruct Hr as [n [<- Hn']]. apply in_map. apply Hc; auto.
Qed.
