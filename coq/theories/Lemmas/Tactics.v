From Coq Require Import ZArith List String Ascii Bool Lia.
From PJ Require Import Base.Json Base.Res.
Import ListNotations.

Ltac inv_res :=
  repeat match goal with
  | H : Ok _ = Ok _ |- _ => inversion H; subst; clear H
  | H : Raise _ = Ok _ |- _ => discriminate H
  | H : Ok _ = Raise _ |- _ => discriminate H
  | H : Raise _ = Raise _ |- _ => inversion H; subst; clear H
  | H : Some _ = Some _ |- _ => inversion H; subst; clear H
  | H : Some _ = None |- _ => discriminate H
  | H : None = Some _ |- _ => discriminate H
  | H : (_, _) = (_, _) |- _ => inversion H; subst; clear H
  end.

(* destruct the innermost match scrutinee in the goal or in a hypothesis *)
Ltac dm :=
  match goal with
  | |- context [match ?x with _ => _ end] =>
      lazymatch x with context [match _ with _ => _ end] => fail | _ => destruct x eqn:? end
  | H : context [match ?x with _ => _ end] |- _ =>
      lazymatch x with context [match _ with _ => _ end] => fail | _ => destruct x eqn:? end
  end.
Ltac dmH H :=
  match type of H with
  | context [match ?x with _ => _ end] =>
      lazymatch x with context [match _ with _ => _ end] => fail | _ => destruct x eqn:? end
  end.
Ltac dmG :=
  match goal with
  | |- context [match ?x with _ => _ end] =>
      lazymatch x with context [match _ with _ => _ end] => fail | _ => destruct x eqn:? end
  end.

Lemma mapM_raise {A B} (f : A -> res B) l x :
  mapM f l = Raise x -> exists a, In a l /\ f a = Raise x.
Proof.
  induction l as [|a l IH]; cbn; intros H; [discriminate|].
  unfold bind in H. destruct (f a) eqn:Ha.
  - destruct (mapM f l) eqn:Hl; [discriminate|]. inversion H; subst.
    destruct (IH eq_refl) as [a' [Hin Hf]]. exists a'; auto.
  - inversion H; subst. exists a; auto.
Qed.

Lemma mapM_ok {A B} (f : A -> res B) l ys :
  mapM f l = Ok ys -> Forall2 (fun a y => f a = Ok y) l ys.
Proof.
  revert ys; induction l as [|a l IH]; cbn; intros ys H.
  - inversion H; constructor.
  - unfold bind in H. destruct (f a) eqn:Ha; [|discriminate].
    destruct (mapM f l) eqn:Hl; [|discriminate]. inversion H; subst. constructor; auto.
Qed.

Lemma mapM_ok_intro {A B} (f : A -> res B) l :
  (forall a, In a l -> exists y, f a = Ok y) -> exists ys, mapM f l = Ok ys.
Proof.
  induction l as [|a l IH]; cbn; intros H; [eexists; reflexivity|].
  destruct (H a (or_introl eq_refl)) as [y Hy]. destruct IH as [ys Hys]; [intros; apply H; auto|].
  unfold bind. rewrite Hy, Hys. eexists; reflexivity.
Qed.

Lemma mapM_length {A B} (f : A -> res B) l ys : mapM f l = Ok ys -> List.length ys = List.length l.
Proof. intros H; apply mapM_ok in H. induction H; cbn; auto. Qed.

Lemma mapM_app {A B} (f : A -> res B) l1 l2 :
  mapM f (l1 ++ l2)%list = (do a <- mapM f l1 ; do b <- mapM f l2 ; Ok (a ++ b)%list).
Proof.
  induction l1 as [|x l1 IH]; cbn.
  - destruct (mapM f l2); reflexivity.
  - unfold bind in *. destruct (f x); [|reflexivity]. rewrite IH.
    destruct (mapM f l1); [|reflexivity]. destruct (mapM f l2); reflexivity.
Qed.

Lemma NoDup_app_intro_snoc {A} (l : list A) x : NoDup l -> ~ In x l -> NoDup (l ++ [x])%list.
Proof.
  induction l as [|a l IH]; cbn; intros Hn Hx.
  - constructor; auto.
  - inversion Hn; subst. constructor.
    + rewrite in_app_iff; cbn. intros [H|[H|[]]]; auto.
    + apply IH; auto.
Qed.
