(* Proofs about Model/Client.v: relating responses to requests (C08) and request building (C07). *)
From Coq Require Import ZArith List String Ascii Bool Lia Permutation.
From PJ Require Import Base.Json Base.Res Model.Msg Model.Client Generated.Consts Lemmas.Tactics Lemmas.MsgL.
Import ListNotations.
Open Scope string_scope. Open Scope list_scope.

Definition call_ids (qs : list request) : list idv := cat_some (map r_id qs).
Definition mkeys (m : list (idv * response)) : list idv := map fst m.
(* every entry of the id -> response map is keyed by the id of its response *)
Definition keyed (m : list (idv * response)) : Prop := forall k r, In (k, r) m -> resp_id r = Some k.

Lemma id_eqb_refl i : id_eqb i i = true.
Proof. apply id_eqb_eq. reflexivity. Qed.
Lemma id_eqb_false a b : id_eqb a b = false <-> a <> b.
Proof. split; intros H. - intros E. apply id_eqb_eq in E. congruence. - destruct (id_eqb a b) eqn:E; auto. apply id_eqb_eq in E. contradiction. Qed.

(* ---------- single responses ---------- *)
Theorem relate_single_strict q r i :
  resp_id r = Some i -> r_id q <> Some i -> relate_single true q r = Raise XIdentity.
Proof.
  intros Hr Hq. unfold relate_single. rewrite Hr. cbn.
  destruct (r_id q) as [j|]; cbn; auto. destruct (id_eqb i j) eqn:E; auto. apply id_eqb_eq in E. congruence.
Qed.
Theorem relate_single_accepts strict q r :
  resp_id r = None \/ resp_id r = r_id q -> relate_single strict q r = Ok r.
Proof.
  unfold relate_single. intros [H|H]; rewrite H; auto. destruct (r_id q) as [i|]; auto. cbn.
  rewrite id_eqb_refl. cbn. rewrite andb_false_r. reflexivity.
Qed.
Theorem relate_single_ok_inv strict q r r' : relate_single strict q r = Ok r' ->
  r' = r /\ (strict = true -> resp_id r = None \/ resp_id r = r_id q).
Proof.
  unfold relate_single. destruct (resp_id r) as [i|] eqn:Hr; [|intros H; inv_res; auto].
  destruct strict; cbn; [|intros H; inv_res; split; auto; discriminate].
  destruct (r_id q) as [j|]; cbn; [|discriminate]. destruct (id_eqb i j) eqn:E; cbn; [|discriminate].
  intros H; inv_res. split; auto. intros _. right. apply id_eqb_eq in E. congruence.
Qed.
Theorem relate_single_lenient q r : relate_single false q r = Ok r.
Proof. unfold relate_single. destruct (resp_id r); reflexivity. Qed.

(* ---------- the id -> response map ---------- *)
Lemma pop_id_none i m m' : pop_id i m = (None, m') -> m' = m /\ ~ In i (mkeys m).
Proof.
  revert m'. induction m as [|[k r] m IH]; cbn; intros m' H; [inv_res; auto|].
  destruct (id_eqb k i) eqn:E; [discriminate|]. destruct (pop_id i m) as [x q'] eqn:Ep. inv_res.
  destruct (IH _ eq_refl) as [-> Hn]. split; auto. intros [Hk|Hin]; auto. subst. rewrite id_eqb_refl in E. discriminate.
Qed.
Lemma pop_id_some i m r m' : pop_id i m = (Some r, m') ->
  In (i, r) m /\ Permutation m ((i, r) :: m') /\ (NoDup (mkeys m) -> ~ In i (mkeys m') /\ NoDup (mkeys m')).
Proof.
  revert m'. induction m as [|[k x] m IH]; cbn; intros m' H; [discriminate|].
  destruct (id_eqb k i) eqn:E.
  - inv_res. apply id_eqb_eq in E. subst k. repeat split; auto. + inversion H; auto. + inversion H; auto.
  - destruct (pop_id i m) as [y q'] eqn:Ep. inv_res. destruct (IH _ eq_refl) as [A [B C]]. repeat split; auto.
    + rewrite perm_swap. constructor. exact B.
    + inversion H; subst. destruct (C H3) as [C1 C2]. cbn. intros [Hk|Hin]; auto. subst. rewrite id_eqb_refl in E. discriminate.
    + inversion H; subst. destruct (C H3) as [C1 C2]. cbn. constructor; auto.
      intros Hin. apply H2. unfold mkeys in *. apply in_map_iff in Hin. destruct Hin as [[k' r'] [Hk Hin]]. cbn in Hk. subst k'.
      apply in_map_iff. exists (k, r'). split; auto. eapply Permutation_in; [symmetry; exact B|]. right; exact Hin.
Qed.
Lemma pop_id_in i m : In i (mkeys m) -> exists r m', pop_id i m = (Some r, m').
Proof.
  induction m as [|[k x] m IH]; cbn; [tauto|]. intros [Hk|Hin].
  - subst. rewrite id_eqb_refl. eauto.
  - destruct (id_eqb k i); eauto. destruct (IH Hin) as [r [m' E]]. rewrite E. eauto.
Qed.

Lemma response_map_keyed rs : keyed (response_map rs).
Proof.
  unfold keyed, response_map. induction rs as [|r rs IH]; cbn; [tauto|]. intros k x.
  destruct (resp_id r) as [i|] eqn:E; cbn; auto. intros [H|H]; auto. inversion H; subst. exact E.
Qed.
Lemma response_map_keys rs : mkeys (response_map rs) = cat_some (map resp_id rs).
Proof. unfold mkeys, response_map. induction rs as [|r rs IH]; cbn; auto. destruct (resp_id r); cbn; rewrite ?IH; auto. Qed.
Lemma response_map_snd rs : map snd (response_map rs) = filter (fun r => match resp_id r with Some _ => true | None => false end) rs.
Proof. unfold response_map. induction rs as [|r rs IH]; cbn; auto. destruct (resp_id r); cbn; rewrite ?IH; auto. Qed.

(* ---------- the relate loop ---------- *)
Lemma relate_loop_exn strict qs : forall m x, relate_loop strict qs m = Raise x -> x = XIdentity /\ strict = true.
Proof.
  induction qs as [|q qs IH]; cbn; intros m x H; [discriminate|].
  destruct (r_id q) as [i|]; [|eauto]. destruct (pop_id i m) as [y m'] eqn:Ep. destruct y as [r|].
  - unfold bind in H. destruct (relate_loop strict qs m') eqn:E; [discriminate|]. inv_res. eauto.
  - destruct strict; [inv_res; auto|eauto].
Qed.

Lemma relate_loop_ok strict qs : forall m related lft,
  keyed m -> relate_loop strict qs m = Ok (related, lft) ->
  Permutation (map snd m) (related ++ map snd lft)
  /\ (strict = true -> map resp_id related = map Some (call_ids qs))
  /\ (forall r, In r related -> exists i, resp_id r = Some i /\ In i (call_ids qs))
  /\ (forall k, In k (mkeys lft) -> In k (mkeys m))
  /\ (NoDup (mkeys m) -> forall k, In k (mkeys lft) -> ~ In k (call_ids qs)).
Proof.
  induction qs as [|q qs IH]; cbn; intros m related lft Hk H.
  - inv_res. cbn. repeat split; auto. intros r [].
  - unfold call_ids in *. cbn. destruct (r_id q) as [i|] eqn:Eq; [|apply IH; auto].
    destruct (pop_id i m) as [y m'] eqn:Ep. destruct y as [r|].
    + unfold bind in H. destruct (relate_loop strict qs m') as [[rel l]|] eqn:E; [|discriminate]. cbn in H. inv_res.
      destruct (pop_id_some _ _ _ _ Ep) as [Hin [Hperm Hnd]].
      assert (Hk' : keyed m').
      { intros k x Hx. apply Hk. eapply Permutation_in; [symmetry; exact Hperm|]. right; auto. }
      destruct (IH _ _ _ Hk' E) as [A [B [C [D F]]]]. repeat split.
      * eapply perm_trans; [apply Permutation_map; exact Hperm|]. cbn. constructor. exact A.
      * intros Hs. cbn. rewrite (Hk _ _ Hin), (B Hs). reflexivity.
      * intros x [<-|Hx]; [exists i; split; cbn; auto|]. destruct (C x Hx) as [j [Hj1 Hj2]]. exists j. cbn; auto.
      * intros k Hkl. apply D in Hkl. unfold mkeys in *. apply in_map_iff in Hkl. destruct Hkl as [[k' r'] [E1 E2]].
        apply in_map_iff. exists (k', r'). split; auto. eapply Permutation_in; [symmetry; exact Hperm|]. right; auto.
      * intros Hn k Hkl. destruct (Hnd Hn) as [N1 N2]. cbn. intros [Hik|Hin']; [|exact (F N2 k Hkl Hin')].
        subst k. apply N1. apply D. exact Hkl.
    + destruct (pop_id_none _ _ _ Ep) as [-> Hni]. destruct strict; [discriminate|].
      destruct (IH _ _ _ Hk H) as [A [B [C [D F]]]]. repeat split; auto.
      * discriminate.
      * intros x Hx. destruct (C x Hx) as [j [Hj1 Hj2]]. exists j. cbn; auto.
      * intros Hn k Hkl. cbn. intros [Hik|Hin']; [subst; apply Hni, D, Hkl|exact (F Hn k Hkl Hin')].
Qed.

Lemma relate_loop_complete qs : forall m,
  (forall i, In i (call_ids qs) -> In i (mkeys m)) -> NoDup (call_ids qs) -> NoDup (mkeys m) ->
  exists related lft, relate_loop true qs m = Ok (related, lft).
Proof.
  induction qs as [|q qs IH]; cbn; intros m Hsub Hn Hm; [eauto|].
  unfold call_ids in *. cbn in *. destruct (r_id q) as [i|] eqn:Eq; [|apply IH; auto].
  destruct (pop_id_in i m (Hsub i (or_introl eq_refl))) as [r [m' Ep]]. rewrite Ep.
  destruct (pop_id_some _ _ _ _ Ep) as [Hin [Hperm Hnd]]. destruct (Hnd Hm) as [N1 N2].
  inversion Hn as [|? ? Hi Hn']; subst.
  destruct (IH m') as [rel [l E]]; auto.
  - intros j Hj. assert (Hjm : In j (mkeys m)) by (apply Hsub; right; exact Hj). unfold mkeys in *.
    apply in_map_iff in Hjm. destruct Hjm as [[k x] [E1 E2]]. cbn in E1. subst k.
    eapply Permutation_in in E2; [|exact Hperm]. destruct E2 as [E2|E2]; [inversion E2; subst; contradiction|].
    apply in_map_iff. exists (j, x). auto.
  - unfold bind. rewrite E. cbn. eauto.
Qed.

(* ---------- batches ---------- *)
Definition null_id (r : response) : bool := match resp_id r with None => true | Some _ => false end.

Lemma filter_partition_perm {A} (f : A -> bool) l : Permutation l (filter f l ++ filter (fun x => negb (f x)) l).
Proof.
  induction l as [|a l IH]; cbn; auto. destruct (f a); cbn.
  - constructor. exact IH.
  - eapply perm_trans; [constructor; exact IH|]. apply Permutation_middle.
Qed.

(* strict mode, accepted: the responses of the calls come first, IN THE ORDER THE CALLS WERE MADE, whatever order the
   server used; the remaining (null-id) responses follow; nothing is lost or invented *)
Theorem relate_batch_strict_ok qs bl b' :
  NoDup (b_ids bl) -> b_ids bl = cat_some (map resp_id (b_items bl)) ->
  relate_batch true qs (BList bl) = Ok b' ->
  exists related,
    b' = BList {| b_items := related ++ filter null_id (b_items bl); b_ids := b_ids bl |}
    /\ map resp_id related = map Some (call_ids qs)
    /\ Permutation (b_items bl) (related ++ filter null_id (b_items bl)).
Proof.
  intros Hnd Hids H. unfold relate_batch, bind in H.
  destruct (relate_loop true qs (response_map (b_items bl))) as [[related lft]|] eqn:E; [|discriminate].
  destruct lft as [|x lft]; [|discriminate]. inv_res.
  destruct (relate_loop_ok true qs _ _ _ (response_map_keyed _) E) as [A [B [C _]]].
  cbn in A. rewrite app_nil_r, response_map_snd in A.
  assert (Hf : filter (fun r => negb (is_related related r)) (b_items bl) = filter null_id (b_items bl)).
  { apply filter_ext_in. intros r Hr. unfold is_related, null_id. destruct (resp_id r) as [i|] eqn:Ei; auto.
    assert (Hin : In r related).
    { eapply Permutation_in; [exact A|]. apply filter_In. split; auto. rewrite Ei. reflexivity. }
    cbn. rewrite negb_false_iff. apply existsb_exists. exists r. split; auto. rewrite Ei. cbn. apply id_eqb_refl. }
  exists related. rewrite Hf. repeat split; auto.
  eapply perm_trans; [apply (filter_partition_perm (fun r => negb (null_id r)))|].
  apply Permutation_app.
  - erewrite filter_ext; [exact A|]. intros r. unfold null_id. destruct (resp_id r); reflexivity.
  - erewrite filter_ext; [apply Permutation_refl|]. intros r. cbn. rewrite negb_involutive. reflexivity.
Qed.

(* strict mode rejects exactly: a call without response, or a (non-null-id) response no call asked for *)
Theorem relate_batch_strict_iff qs bl :
  NoDup (call_ids qs) -> NoDup (b_ids bl) -> b_ids bl = cat_some (map resp_id (b_items bl)) ->
  ((exists b', relate_batch true qs (BList bl) = Ok b') <->
   (forall i, In i (call_ids qs) <-> In i (b_ids bl))).
Proof.
  intros Hq Hnd Hids. split.
  - intros [b' H]. unfold relate_batch, bind in H.
    destruct (relate_loop true qs (response_map (b_items bl))) as [[related lft]|] eqn:E; [|discriminate].
    destruct lft as [|x lft]; [|discriminate].
    destruct (relate_loop_ok true qs _ _ _ (response_map_keyed _) E) as [A [B [C _]]].
    cbn in A. rewrite app_nil_r in A. specialize (B eq_refl).
    intros i. rewrite Hids, <- response_map_keys. split.
    + intros Hi. assert (Hs : In (Some i) (map resp_id related)) by (rewrite B; apply in_map; auto).
      apply in_map_iff in Hs. destruct Hs as [r [Hr1 Hr2]].
      eapply Permutation_in in Hr2; [|symmetry; exact A]. apply in_map_iff in Hr2. destruct Hr2 as [[k r'] [E1 E2]]. cbn in E1. subst r'.
      pose proof (response_map_keyed _ _ _ E2) as Hk. rewrite Hr1 in Hk. inversion Hk; subst. apply in_map_iff. exists (k, r). auto.
    + intros Hi. unfold mkeys in Hi. apply in_map_iff in Hi. destruct Hi as [[k r] [E1 E2]]. cbn in E1. subst k.
      assert (Hr : In r related) by (eapply Permutation_in; [exact A|]; apply in_map_iff; exists (i, r); auto).
      destruct (C r Hr) as [j [Hj1 Hj2]]. rewrite (response_map_keyed _ _ _ E2) in Hj1. inversion Hj1; subst. exact Hj2.
  - intros Hiff.
    assert (Hm : NoDup (mkeys (response_map (b_items bl)))) by (rewrite response_map_keys, <- Hids; exact Hnd).
    destruct (relate_loop_complete qs (response_map (b_items bl))) as [related [lft E]]; auto.
    { intros i Hi. rewrite response_map_keys, <- Hids. apply Hiff. exact Hi. }
    unfold relate_batch, bind. rewrite E. destruct lft as [|[k x] lft]; [eauto|]. exfalso.
    destruct (relate_loop_ok true qs _ _ _ (response_map_keyed _) E) as [_ [_ [_ [D F]]]].
    apply (F Hm k); [cbn; auto|]. apply Hiff. rewrite Hids, <- response_map_keys. apply D. cbn; auto.
Qed.

Theorem relate_batch_exn strict qs b x : relate_batch strict qs b = Raise x -> x = XIdentity /\ strict = true.
Proof.
  destruct b as [e|bl]; cbn; [discriminate|]. unfold bind.
  destruct (relate_loop strict qs _) as [[related lft]|y] eqn:E.
  - destruct lft; [discriminate|]. destruct strict; [intros H; inv_res; auto|discriminate].
  - intros H. inv_res. eapply relate_loop_exn; eauto.
Qed.

(* the tuple of results follows the order of the calls *)
Lemma results_ok rs l : results rs = COk l -> rs = map (fun rv => RResult (fst rv) (snd rv)) (combine (map resp_id rs) l) /\ List.length l = List.length rs.
Proof.
  revert l. induction rs as [|[i v|i e] rs IH]; cbn; intros l H; [inversion H; auto| |discriminate].
  destruct (results rs) as [l'|] eqn:E; [|discriminate]. inversion H; subst. destruct (IH _ eq_refl) as [A B]. cbn. split; [f_equal; auto|auto].
Qed.
Lemma results_app_ok a b l : results (a ++ b) = COk l -> exists la lb, l = la ++ lb /\ results a = COk la /\ results b = COk lb.
Proof.
  revert l. induction a as [|[i v|i e] a IH]; cbn; intros l H; [exists [], l; auto| |discriminate].
  destruct (results (a ++ b)) as [l'|] eqn:E; [|discriminate]. inversion H; subst.
  destruct (IH _ eq_refl) as [la [lb [-> [A B]]]]. exists (v :: la), lb. rewrite A. auto.
Qed.

(* batch-level error object: raised for the batch, whatever the requests were *)
Theorem batch_level_error strict qs e : relate_batch strict qs (BError e) = Ok (BError e) /\ result_batch (BError e) = CRaise (CRpc e).
Proof. split; reflexivity. Qed.

(* ---------- request building (C07) ---------- *)
Lemma add_ids_snoc seen i ids : add_ids seen (Some i :: ids) = if mem_id i seen then Raise XIdentity else add_ids (seen ++ [i]) ids.
Proof. reflexivity. Qed.
Lemma batch_extend_cons {A} (idof : A -> option idv) b x xs :
  batch_extend idof b (x :: xs) = (do b' <- batch_extend idof b [x] ; batch_extend idof b' xs).
Proof.
  unfold batch_extend, bind. cbn [map add_ids]. destruct (idof x) as [i|] eqn:E.
  - cbn [add_ids]. destruct (mem_id i (b_ids b)); [reflexivity|]. cbn [b_ids b_items].
    destruct (add_ids (b_ids b ++ [i]) (map idof xs)); [|reflexivity]. rewrite <- app_assoc. reflexivity.
  - cbn [add_ids b_ids b_items]. destruct (add_ids (b_ids b) (map idof xs)); [|reflexivity]. rewrite <- app_assoc. reflexivity.
Qed.
(* adding the requests one by one (batch.add / batch(...) / proxy) is adding them all at once (batch[...]) *)
Lemma fold_append_extend rs : forall acc,
  fold_left (fun a r => do b <- a ; breq_append b r) rs (Ok acc) = breq_extend acc rs.
Proof.
  induction rs as [|r rs IH]; intros acc.
  - cbn. unfold breq_extend, batch_extend, bind. cbn. rewrite app_nil_r. destruct acc; reflexivity.
  - cbn [fold_left]. unfold breq_extend. rewrite batch_extend_cons. cbn [bind].
    unfold breq_append, batch_append. destruct (batch_extend r_id acc [r]) as [acc'|x].
    + apply IH.
    + cbn. clear. induction rs as [|r' rs IH]; cbn; auto.
Qed.

Lemma mk_params_pos pos : mk_params pos [] = Ok (match pos with [] => PDict [] | _ => PList pos end).
Proof. destruct pos; reflexivity. Qed.
Lemma req_to_json_empty_params m i : 
  req_to_json {| r_method := m; r_params := PDict []; r_id := i |} = req_to_json {| r_method := m; r_params := PList []; r_id := i |}.
Proof. reflexivity. Qed.

Lemma build_items_getitem g items : forall k,
  match build_getitem g k items, build_items g k (map (fun mp => BCall (fst mp) (snd mp) []) items) with
  | Ok a, Ok b => map req_to_json a = map req_to_json b /\ map r_id a = map r_id b
  | Raise x, Raise y => x = y
  | _, _ => False end.
Proof.
  induction items as [|[m pos] items IH]; intros k; cbn; [auto|].
  rewrite mk_params_pos. unfold bind. cbn. destruct (gen_nth g k) as [i|x]; [|reflexivity].
  specialize (IH (S k)). destruct (build_getitem g (S k) items) as [a|x]; destruct (build_items g (S k) _) as [b|y]; try contradiction; auto.
  destruct IH as [A B]. cbn. split; [|rewrite B; reflexivity]. rewrite A. f_equal. destruct pos; reflexivity.
Qed.

Lemma extend_same_ids (a b : list request) acc : map r_id a = map r_id b ->
  match breq_extend acc a, breq_extend acc b with
  | Ok x, Ok y => b_ids x = b_ids y /\ b_items x = b_items acc ++ a /\ b_items y = b_items acc ++ b
  | Raise x, Raise y => x = y
  | _, _ => False end.
Proof.
  intros H. unfold breq_extend, batch_extend, bind. rewrite H. destruct (add_ids (b_ids acc) (map r_id b)); cbn; auto.
Qed.

(* every notation for the same calls puts the same document on the wire *)
Theorem notations_same_wire g items :
  match build_batch g (BnGetitem items), build_batch g (BnAdd (map (fun mp => BCall (fst mp) (snd mp) []) items)) with
  | Ok a, Ok b => breq_to_json a = breq_to_json b
  | Raise x, Raise y => x = y
  | _, _ => False end.
Proof.
  cbn [build_batch]. unfold bind. pose proof (build_items_getitem g items 0) as H.
  destruct (build_getitem g 0 items) as [a|x]; destruct (build_items g 0 _) as [b|y]; try contradiction; auto.
  destruct H as [A B]. rewrite fold_append_extend.
  pose proof (extend_same_ids a b batch_empty B) as E.
  destruct (breq_extend batch_empty a) as [x|x]; destruct (breq_extend batch_empty b) as [y|y]; try contradiction; auto.
  destruct E as [_ [Ea Eb]]. unfold breq_to_json. rewrite Ea, Eb. cbn. rewrite A. reflexivity.
Qed.
