(* Proofs about Model/Retry.v (C09, C19). *)
From Coq Require Import ZArith QArith List Bool Lia.
From PJ Require Import Model.Retry.
Import ListNotations.

(* ---------- the loop ---------- *)
Lemma loop_bound s : forall ds script, (r_sends (retry_loop s ds script) <= List.length ds + 1)%nat.
Proof.
  intros ds script. revert ds. induction script as [|a rest IH]; intros ds; cbn; [lia|].
  destruct (retryable s a); cbn; [|lia]. destruct ds as [|d ds']; cbn; [lia|]. specialize (IH ds'). lia.
Qed.

(* how many sends: one more than the number of leading retryable outcomes, capped by the available delays *)
Fixpoint leading (s : strategy) (script : list attempt) : nat :=
  match script with a :: rest => if retryable s a then S (leading s rest) else O | [] => O end.
Lemma loop_sends s : forall ds script, (Nat.min (leading s script) (List.length ds) < List.length script)%nat ->
  r_sends (retry_loop s ds script) = S (Nat.min (leading s script) (List.length ds))
  /\ r_final (retry_loop s ds script) = nth_error script (Nat.min (leading s script) (List.length ds))
  /\ r_sleeps (retry_loop s ds script) = firstn (Nat.min (leading s script) (List.length ds)) ds.
Proof.
  intros ds script. revert ds. induction script as [|a rest IH]; intros ds Hlen; cbn in *; [lia|].
  destruct (retryable s a); cbn; [|auto]. destruct ds as [|d ds']; cbn; [auto|].
  cbn in Hlen. destruct (IH ds' ltac:(lia)) as [A [B C]]. rewrite A, B, C. auto.
Qed.

(* the sleeps are exactly the first sends-1 delays: none before the first send, none after the last *)
Lemma loop_sleeps s ds script : (Nat.min (leading s script) (List.length ds) < List.length script)%nat ->
  r_sleeps (retry_loop s ds script) = firstn (r_sends (retry_loop s ds script) - 1) ds.
Proof.
  intros H. destruct (loop_sends s ds script H) as [A [_ C]]. rewrite A, C. cbn. rewrite Nat.sub_0_r. reflexivity.
Qed.

(* an outcome that is not retryable (unlisted code / exception, success, notification) returns at once *)
Lemma loop_passthrough s ds a rest : retryable s a = false ->
  retry_loop s ds (a :: rest) = {| r_sends := 1; r_sleeps := []; r_final := Some a |}.
Proof. intros H. cbn. rewrite H. reflexivity. Qed.
Lemma notification_never_retried s tag : retryable s {| a_kind := KNone; a_tag := tag |} = false.
Proof. reflexivity. Qed.
Lemma success_never_retried s tag : retryable s {| a_kind := KResp None; a_tag := tag |} = false.
Proof. reflexivity. Qed.

(* the caller receives the LAST attempt's outcome unchanged (the very object: same tag) *)
Lemma loop_final_is_last s : forall ds script a, r_final (retry_loop s ds script) = Some a ->
  nth_error script (r_sends (retry_loop s ds script) - 1) = Some a.
Proof.
  intros ds script. revert ds. induction script as [|b rest IH]; intros ds a H; cbn in *; [discriminate|].
  destruct (retryable s b); cbn in *; [|exact H]. destruct ds as [|d ds']; cbn in *; [exact H|].
  specialize (IH ds' a H). remember (r_sends (retry_loop s ds' rest)) as n.
  destruct n as [|n]; cbn in *.
  - destruct rest; cbn in *; [discriminate|]. destruct (retryable s a0); cbn in *; try discriminate. destruct ds'; discriminate.
  - rewrite Nat.sub_0_r in *. exact IH.
Qed.

(* ---------- closed forms of the backoffs ---------- *)
Fixpoint fib (n : nat) : Z :=
  match n with O => 0 | S m => match m with O => 1 | S k => fib m + fib k end end%Z.
Lemma fib_SS n : fib (S (S n)) = (fib (S n) + fib n)%Z.
Proof. reflexivity. Qed.

Lemma fib_gen_closed n : forall k j mult mx jit,
  fib_gen n k (fib (S j)) (fib (S (S j))) mult mx jit
  = map (fun i => cap mx (inject_Z (fib (S (S (j + i)))) * mult + jit (k + i)%nat)) (seq 0 n).
Proof.
  induction n as [|n IH]; intros k j mult mx jit; cbn [fib_gen seq map]; [reflexivity|].
  rewrite !Nat.add_0_r. f_equal.
  replace (fib (S j) + fib (S (S j)))%Z with (fib (S (S (S j)))) by (rewrite (fib_SS (S j)); lia).
  rewrite (IH (S k) (S j) mult mx jit). rewrite <- seq_shift, map_map. apply map_ext. intros i.
  replace (S j + i)%nat with (j + S i)%nat by lia. replace (S k + i)%nat with (k + S i)%nat by lia. reflexivity.
Qed.

Lemma nth_map_seq {A} (f : nat -> A) n : forall a k, (k < n)%nat -> nth_error (map f (seq a n)) k = Some (f (a + k)%nat).
Proof.
  induction n as [|n IH]; intros a k H; [lia|]. cbn. destruct k as [|k]; cbn.
  - rewrite Nat.add_0_r. reflexivity.
  - rewrite IH by lia. f_equal. f_equal. lia.
Qed.

(* delay k (0-based), for every k below the number of attempts *)
Theorem periodic_nth n interval jit k : (k < n)%nat ->
  nth_error (delays (Periodic n interval) jit) k = Some (interval + jit k).
Proof. intros H. cbn. rewrite nth_map_seq by exact H. reflexivity. Qed.
Theorem exponential_nth n base factor mx jit k : (k < n)%nat ->
  nth_error (delays (Exponential n base factor mx) jit) k = Some (cap mx (base * Qpower factor (Z.of_nat k) + jit k)).
Proof. intros H. cbn. rewrite nth_map_seq by exact H. reflexivity. Qed.
(* the source's sequence is 1, 2, 3, 5, ... = fib (k+2) with fib 1 = fib 2 = 1 *)
Theorem fibonacci_nth n mult mx jit k : (k < n)%nat ->
  nth_error (delays (Fibonacci n mult mx) jit) k = Some (cap mx (inject_Z (fib (k + 2)) * mult + jit k)).
Proof.
  intros H. cbn. change 1%Z with (fib 1) at 1. change 1%Z with (fib 2).
  rewrite (fib_gen_closed n 0 0 mult mx jit). rewrite nth_map_seq by exact H. cbn [Nat.add].
  replace (S (S k)) with (k + 2)%nat by lia. reflexivity.
Qed.
Theorem delays_length b jit : List.length (delays b jit) = attempts_of b.
Proof.
  destruct b as [n i|n b f m|n mu m]; cbn; rewrite ?map_length, ?seq_length; auto.
  change 1%Z with (fib 1) at 1. change 1%Z with (fib 2). rewrite (fib_gen_closed n 0 0). rewrite map_length, seq_length. reflexivity.
Qed.

(* ---------- the bound, in terms of the configured attempts ---------- *)
Theorem sends_bound s jit script : (r_sends (retry_loop s (delays (s_backoff s) jit) script) <= attempts_of (s_backoff s) + 1)%nat.
Proof. rewrite <- (delays_length (s_backoff s) jit). apply loop_bound. Qed.

(* ---------- strategy selection ---------- *)
Theorem per_request_overrides client s : effective client (RSome s) = Some s /\ effective client RNone = None /\ effective client RUnset = client.
Proof. repeat split. Qed.
Theorem disabled_sends_once client p jit a rest : effective client p = None ->
  send_with client p jit (a :: rest) = {| r_sends := 1; r_sleeps := []; r_final := Some a |}.
Proof. intros H. unfold send_with. rewrite H. reflexivity. Qed.

(* ---------- tracers (C19) ---------- *)
Definition is_begin (t : nat) (e : tev) : bool := match e with TBegin t' _ => Nat.eqb t t' | _ => false end.
Definition is_done (t : nat) (e : tev) : bool := match e with TEnd t' _ _ | TError t' _ _ => Nat.eqb t t' | _ => false end.

Lemma count_map_seq (g : nat -> tev) (p : tev -> bool) n : forall a,
  List.length (filter p (map g (seq a n))) = List.length (filter (fun k => p (g k)) (seq a n)).
Proof. induction n as [|n IH]; intros a; cbn; auto. destruct (p (g a)); cbn; rewrite IH; reflexivity. Qed.
(* one attempt: every tracer gets one begin, then one completion, in configuration order, with ONE context *)
Theorem attempt_bracket tracers supplied idx a :
  trace_attempt tracers supplied idx a =
  map (fun t => TBegin t (if supplied then CtxCaller else CtxFresh idx)) (seq 0 tracers)
  ++ map (fun t => match a_kind a with
                   | KResp _ => TEnd t (if supplied then CtxCaller else CtxFresh idx) (Some (a_tag a))
                   | KNone => TEnd t (if supplied then CtxCaller else CtxFresh idx) None
                   | KExc _ => TError t (if supplied then CtxCaller else CtxFresh idx) (a_tag a) end) (seq 0 tracers).
Proof. reflexivity. Qed.

Lemma attempt_counts tracers supplied idx a t :
  List.length (filter (is_begin t) (trace_attempt tracers supplied idx a))
  = List.length (filter (is_done t) (trace_attempt tracers supplied idx a)).
Proof.
  unfold trace_attempt. rewrite !filter_app, !app_length, !count_map_seq.
  assert (E1 : forall l, List.length (filter (fun k => is_done t (TBegin k (if supplied then CtxCaller else CtxFresh idx))) l) = 0%nat).
  { induction l; cbn; auto. }
  assert (E2 : forall l, List.length (filter (fun k => is_begin t
              (match a_kind a with
               | KResp _ => TEnd k (if supplied then CtxCaller else CtxFresh idx) (Some (a_tag a))
               | KNone => TEnd k (if supplied then CtxCaller else CtxFresh idx) None
               | KExc _ => TError k (if supplied then CtxCaller else CtxFresh idx) (a_tag a) end)) l) = 0%nat).
  { induction l; cbn; auto. destruct (a_kind a); cbn; auto. }
  rewrite E1, E2. cbn [is_begin]. rewrite Nat.add_0_r. cbn [Nat.add].
  erewrite (filter_ext (fun k => is_done t _)); [reflexivity|]. intros k. destruct (a_kind a); reflexivity.
Qed.

(* whenever a call has returned or raised: begin count = completion count, for every tracer, any number of attempts *)
Theorem begin_equals_completion tracers supplied t : forall sent idx,
  List.length (filter (is_begin t) (trace_attempts tracers supplied idx sent))
  = List.length (filter (is_done t) (trace_attempts tracers supplied idx sent)).
Proof.
  induction sent as [|a q IH]; intros idx; cbn; auto.
  rewrite !filter_app, !app_length, attempt_counts, IH. reflexivity.
Qed.
(* every attempt that was sent is traced - retries included *)
Theorem every_attempt_traced client p jit tracers supplied script :
  snd (traced_run client p jit tracers supplied script)
  = trace_attempts tracers supplied 0 (firstn (r_sends (send_with client p jit script)) script).
Proof. reflexivity. Qed.
Lemma trace_attempts_length tracers supplied : forall sent idx,
  List.length (trace_attempts tracers supplied idx sent) = (2 * tracers * List.length sent)%nat.
Proof.
  induction sent as [|a q IH]; intros idx; cbn; [lia|]. rewrite app_length, IH. unfold trace_attempt.
  rewrite app_length, !map_length, seq_length. lia.
Qed.
(* tracing is transparent: the caller's outcome does not depend on the tracers *)
Theorem tracing_transparent client p jit script n1 s1 n2 s2 :
  fst (traced_run client p jit n1 s1 script) = fst (traced_run client p jit n2 s2 script).
Proof. reflexivity. Qed.

(* what reaches the caller is the outcome of the last attempt that was traced - the very object (same tag) *)
Theorem caller_gets_last_traced client p jit tracers supplied script a :
  r_final (fst (traced_run client p jit tracers supplied script)) = Some a ->
  nth_error (firstn (r_sends (send_with client p jit script)) script) (r_sends (send_with client p jit script) - 1) = Some a.
Proof.
  unfold traced_run. cbn [fst]. intros H.
  assert (Hn : nth_error script (r_sends (send_with client p jit script) - 1) = Some a).
  { unfold send_with in *. destruct (effective client p) as [s|].
    - apply loop_final_is_last. exact H.
    - destruct script as [|b rest]; cbn in *; [discriminate|]. exact H. }
  assert (Hpos : (0 < r_sends (send_with client p jit script))%nat).
  { unfold send_with in *. destruct (effective client p) as [s|].
    - destruct script as [|b rest]; cbn in *; [discriminate|]. destruct (retryable s b); cbn; [|apply Nat.lt_0_1].
      destruct (delays (s_backoff s) jit); cbn; [apply Nat.lt_0_1|apply Nat.lt_0_succ].
    - destruct script; cbn in *; [discriminate|apply Nat.lt_0_1]. }
  remember (r_sends (send_with client p jit script)) as n. destruct n as [|n]; [inversion Hpos|].
  cbn [Nat.sub] in *. rewrite Nat.sub_0_r in *.
  clear - Hn. revert script Hn. induction n as [|n IH]; intros [|b rest] Hn; cbn in *; try discriminate; [exact Hn|].
  apply IH. exact Hn.
Qed.
