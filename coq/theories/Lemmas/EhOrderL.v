(* The error-handler table is a mapping: the order in which its keys are written does not matter (C12). *)
From Coq Require Import ZArith List String Bool Permutation.
From PJ Require Import Base.Json Base.Res Model.Msg Model.Bind Model.Dispatch.
Import ListNotations.

Lemma okey_eqb_eq (a b : option Z) : option_eqb Z.eqb a b = true <-> a = b.
Proof.
  destruct a as [x|], b as [y|]; cbn; split; intros H; try discriminate; try reflexivity.
  - apply Z.eqb_eq in H. congruence.
  - inversion H. apply Z.eqb_refl.
Qed.
Lemma get_eh_notin k (t : list (option Z * list ehandler)) : ~ In k (map fst t) -> get_eh k t = [].
Proof.
  induction t as [|[k' hs] q IH]; cbn; intros Hn; [reflexivity|].
  destruct (option_eqb Z.eqb k k') eqn:E.
  - apply okey_eqb_eq in E. exfalso. apply Hn. left. symmetry. exact E.
  - apply IH. intros Hin. apply Hn. right. exact Hin.
Qed.
Theorem get_eh_perm k (t t' : list (option Z * list ehandler)) :
  NoDup (map fst t) -> Permutation t t' -> get_eh k t = get_eh k t'.
Proof.
  intros Hnd Hp. induction Hp as [|[k1 h1] l l' Hp IH|[k1 h1] [k2 h2] l|l l' l'' Hp1 IH1 Hp2 IH2].
  - reflexivity.
  - cbn. destruct (option_eqb Z.eqb k k1); [reflexivity|]. apply IH. cbn in Hnd. inversion Hnd; assumption.
  - cbn. destruct (option_eqb Z.eqb k k1) eqn:E1, (option_eqb Z.eqb k k2) eqn:E2; try reflexivity.
    apply okey_eqb_eq in E1. apply okey_eqb_eq in E2. subst k1 k2.
    cbn in Hnd. inversion Hnd as [|? ? Hnotin _]. exfalso. apply Hnotin. left. reflexivity.
  - rewrite IH1 by exact Hnd. apply IH2.
    apply (Permutation_NoDup (Permutation_map fst Hp1)). exact Hnd.
Qed.

Definition with_ehs (cfg : config) (t : list (option Z * list ehandler)) : config :=
  {| c_registry := c_registry cfg; c_mws := c_mws cfg; c_ehs := t; c_max_batch := c_max_batch cfg |}.
Theorem handle_request_table_order cfg t' r ctx :
  NoDup (map fst (c_ehs cfg)) -> Permutation (c_ehs cfg) t' ->
  handle_request (with_ehs cfg t') r ctx = handle_request cfg r ctx.
Proof.
  intros Hnd Hp. unfold handle_request, handle_rpc_method, with_ehs. cbn [c_registry c_ehs].
  destruct (get (r_method r) (c_registry cfg)) as [m|].
  - destruct (m ctx (r_params r)) as [d| | |args o]; try (rewrite <- !(get_eh_perm _ _ _ Hnd Hp); reflexivity).
    destruct o; rewrite <- ?(get_eh_perm _ _ _ Hnd Hp); reflexivity.
  - rewrite <- !(get_eh_perm _ _ _ Hnd Hp). reflexivity.
Qed.
