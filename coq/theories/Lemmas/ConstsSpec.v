(* Facts about the constants regenerated from the live source on every run (Generated/Consts.v).
   A changed constant breaks one of these reflexivity proofs at build time. *)
From Coq Require Import ZArith List String Ascii Bool.
From PJ Require Import Base.Json Base.Res Model.Msg Generated.Consts.
Import ListNotations.
Open Scope string_scope. Open Scope Z_scope.

Lemma versions : request_version = "2.0" /\ response_version = "2.0"
                 /\ batch_request_version = "2.0" /\ batch_response_version = "2.0".
Proof. repeat split; reflexivity. Qed.

Lemma standard_codes :
  ParseError_code = -32700 /\ InvalidRequestError_code = -32600 /\ MethodNotFoundError_code = -32601
  /\ InvalidParamsError_code = -32602 /\ InternalError_code = -32603 /\ ServerError_code = -32000.
Proof. repeat split; reflexivity. Qed.

Lemma standard_messages :
  ParseError_message = "Parse error" /\ InvalidRequestError_message = "Invalid Request"
  /\ MethodNotFoundError_message = "Method not found" /\ InvalidParamsError_message = "Invalid params"
  /\ InternalError_message = "Internal error" /\ ServerError_message = "Server error".
Proof. repeat split; reflexivity. Qed.

Lemma registry_classes :
  class_of error_registry "B" (-32700) = "ParseError" /\ class_of error_registry "B" (-32600) = "InvalidRequestError"
  /\ class_of error_registry "B" (-32601) = "MethodNotFoundError" /\ class_of error_registry "B" (-32602) = "InvalidParamsError"
  /\ class_of error_registry "B" (-32603) = "InternalError" /\ class_of error_registry "B" (-32000) = "ServerError"
  /\ class_of error_registry "B" 0 = "HarnessZeroError" /\ class_of error_registry "B" 1 = "B" /\ class_of error_registry "B" (-32001) = "B".
Proof. repeat split; reflexivity. Qed.

(* the registry is keyed by the classes' own codes (typed except-clauses work) *)
Lemma registry_consistent :
  forallb (fun cn => match get (snd cn) error_messages with Some (c, _) => Z.eqb c (fst cn) | None => false end)
          error_registry = true.
Proof. reflexivity. Qed.

Lemma content_types :
  request_content_types = ["application/json"; "application/json-rpc"; "application/jsonrequest"]%string
  /\ response_content_types = ["application/json"; "application/json-rpc"]%string
  /\ default_content_type = "application/json"%string.
Proof. repeat split; reflexivity. Qed.

Lemma defaults : client_strict_default = true /\ concurrent_batch_default = true /\ max_batch_size_default = None
                 /\ http_default_status = 200.
Proof. repeat split; reflexivity. Qed.
