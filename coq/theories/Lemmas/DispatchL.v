(* Proofs about Model/Dispatch.v (properties C01 C02 C03 C12). *)
From Coq Require Import ZArith List String Ascii Bool Lia.
From PJ Require Import Base.Json Base.Res Model.Msg Model.Bind Model.Dispatch Generated.Consts
     Lemmas.Tactics Lemmas.MsgL Lemmas.ConstsSpec.
Import ListNotations.
Open Scope string_scope. Open Scope list_scope.

(* ---------- every response serialises to a well-formed response object (C01) ---------- *)
Lemma id_json_wf i : match id_json i with JStr _ | JInt _ | JNull => true | _ => false end = true.
Proof. destruct i as [[z|s]|]; reflexivity. Qed.

Lemma err_to_json_wf e : wf_error_obj (err_to_json e) = true.
Proof. unfold err_to_json, wf_error_obj. destruct (e_data e); reflexivity. Qed.

Lemma resp_to_json_wf r : wf_response_obj (resp_to_json r) = true.
Proof.
  destruct r as [i v|i e]; destruct i as [[z|s]|]; unfold resp_to_json, wf_response_obj, err_to_json, wf_error_obj;
    cbn; try reflexivity; destruct (e_data e); reflexivity.
Qed.

Lemma code_of_resp r : code_of_obj (resp_to_json r) = resp_code r.
Proof.
  destruct r as [i v|i e]; cbn [resp_to_json code_of_obj resp_code].
  - reflexivity.
  - change (get "error" _) with (Some (err_to_json e)). unfold err_to_json.
    change (get "code" _) with (Some (JInt (e_code e))). reflexivity.
Qed.

Lemma single_wf r doc codes : single r = Some (doc, codes) ->
  wf_response_doc doc = true /\ codes = codes_of_doc doc.
Proof.
  unfold single; intros H; inv_res. split.
  - pose proof (resp_to_json_wf r) as W. destruct r; cbn [resp_to_json] in *; exact W.
  - destruct r; cbn [resp_to_json codes_of_doc]; rewrite <- code_of_resp; reflexivity.
Qed.

Lemma batch_doc_wf rs : rs <> [] ->
  wf_response_doc (JArr (map resp_to_json rs)) = true
  /\ map resp_code rs = codes_of_doc (JArr (map resp_to_json rs)).
Proof.
  intros Hne. split.
  - destruct rs as [|r rs]; [congruence|]. cbn [map wf_response_doc].
    change (forallb wf_response_obj (map resp_to_json (r :: rs)) = true).
    rewrite forallb_forall. intros x Hx. apply in_map_iff in Hx. destruct Hx as [y [<- _]]. apply resp_to_json_wf.
  - cbn [codes_of_doc]. rewrite map_map. apply map_ext. intros; symmetry; apply code_of_resp.
Qed.

(* the contract on user middlewares needed for totality: a response answers the request it was given *)
Definition id_ok (r : request) (x : option response) : Prop :=
  match x with None => True | Some resp => resp_id resp = r_id r \/ resp_id resp = None end.
Definition handler_id_ok (h : request -> json -> option response * log) : Prop :=
  forall r ctx, id_ok r (fst (h r ctx)).
(* the strong form: exactly the calls are answered, with their own id *)
Definition answer_ok (r : request) (x : option response) : Prop :=
  match r_id r, x with
  | None, None => True
  | Some i, Some resp => resp_id resp = Some i
  | _, _ => False end.
Definition handler_answer_ok (h : request -> json -> option response * log) : Prop :=
  forall r ctx, answer_ok r (fst (h r ctx)).
Lemma answer_ok_id_ok r x : answer_ok r x -> id_ok r x.
Proof. unfold answer_ok, id_ok. destruct (r_id r), x; intuition congruence. Qed.

Lemma handle_request_answer_ok cfg : handler_answer_ok (handle_request cfg).
Proof.
  intros r ctx. unfold handle_request.
  destruct (handle_rpc_method cfg (r_method r) (r_params r) ctx) as [h lg].
  destruct h as [v|e].
  - cbn. unfold answer_ok. destruct (r_id r); cbn; auto.
  - destruct (run_ehs None 0 _ r ctx e) as [e1 lg1].
    destruct (run_ehs (Some (e_code e)) 0 _ r ctx e1) as [e2 lg2].
    cbn. unfold answer_ok. destruct (r_id r); cbn; auto.
Qed.

(* per-middleware contracts, lifted through the chain by induction on the stack *)
Definition mw_id_ok (m : middleware) : Prop :=
  forall r ctx,
    (forall x, mw_pre m r ctx = inr x -> id_ok r x)
    /\ (forall r', mw_pre m r ctx = inl r' -> r_id r' = r_id r)
    /\ (forall x, id_ok r x -> id_ok r (mw_post m r ctx x)).
Definition mw_answer_ok (m : middleware) : Prop :=
  forall r ctx,
    (forall x, mw_pre m r ctx = inr x -> answer_ok r x)
    /\ (forall r', mw_pre m r ctx = inl r' -> r_id r' = r_id r)
    /\ (forall x, answer_ok r x -> answer_ok r (mw_post m r ctx x)).

Lemma chain_id_ok mws : forall i base, Forall mw_id_ok mws -> handler_id_ok base -> handler_id_ok (chain mws i base).
Proof.
  induction mws as [|m mws IH]; intros i base Hm Hb r ctx; cbn [chain].
  - apply Hb.
  - inversion Hm as [|? ? Hm1 Hm2]; subst. destruct (Hm1 r ctx) as [Hpre [Hfwd Hpost]].
    destruct (mw_pre m r ctx) as [r'|x] eqn:E.
    + pose proof (IH (S i) base Hm2 Hb r' ctx) as Hin.
      destruct (chain mws (S i) base r' ctx) as [resp lg]. cbn in *.
      apply Hpost. unfold id_ok in *. rewrite <- (Hfwd r' eq_refl). exact Hin.
    + cbn. apply Hpre; reflexivity.
Qed.
Lemma chain_answer_ok mws : forall i base, Forall mw_answer_ok mws -> handler_answer_ok base -> handler_answer_ok (chain mws i base).
Proof.
  induction mws as [|m mws IH]; intros i base Hm Hb r ctx; cbn [chain].
  - apply Hb.
  - inversion Hm as [|? ? Hm1 Hm2]; subst. destruct (Hm1 r ctx) as [Hpre [Hfwd Hpost]].
    destruct (mw_pre m r ctx) as [r'|x] eqn:E.
    + pose proof (IH (S i) base Hm2 Hb r' ctx) as Hin.
      destruct (chain mws (S i) base r' ctx) as [resp lg]. cbn in *.
      apply Hpost. unfold answer_ok in *. rewrite <- (Hfwd r' eq_refl). exact Hin.
    + cbn. apply Hpre; reflexivity.
Qed.

Definition mws_id_ok (cfg : config) : Prop := Forall mw_id_ok (c_mws cfg).
Definition mws_answer_ok (cfg : config) : Prop := Forall mw_answer_ok (c_mws cfg).
Lemma request_handler_id_ok cfg : mws_id_ok cfg -> handler_id_ok (request_handler cfg).
Proof.
  intros H. apply chain_id_ok; auto. intros r ctx. apply answer_ok_id_ok, handle_request_answer_ok.
Qed.
Lemma request_handler_answer_ok cfg : mws_answer_ok cfg -> handler_answer_ok (request_handler cfg).
Proof. intros H. apply chain_answer_ok; auto. apply handle_request_answer_ok. Qed.
Lemma no_mws_answer_ok cfg : c_mws cfg = [] -> mws_answer_ok cfg.
Proof. unfold mws_answer_ok; intros ->; constructor. Qed.
Lemma mw_answer_ok_id_ok m : mw_answer_ok m -> mw_id_ok m.
Proof.
  intros H r ctx. destruct (H r ctx) as [A [B C]]. repeat split; auto.
  - intros x E. apply answer_ok_id_ok; auto.
  - intros x Hx. unfold id_ok in *.
    (* a transparent post-processing step keeps the id discipline only for answers of the strong form;
       the weak contract is therefore stated separately and this implication is not used *)
Abort.

(* ids of the responses of a batch are a subsequence of the ids of its requests *)
Lemma responses_ids_sub (h : request -> json -> option response * log) ctx :
  handler_id_ok h -> forall rs i,
  In i (cat_some (map resp_id (cat_some (map (fun r => fst (h r ctx)) rs)))) -> In i (cat_some (map r_id rs)).
Proof.
  intros Hh rs i. induction rs as [|r rs IH]; cbn; auto.
  pose proof (Hh r ctx) as Hr. destruct (fst (h r ctx)) as [resp|]; cbn.
  - unfold id_ok in Hr. destruct (resp_id resp) as [j|] eqn:Ej; cbn.
    + destruct Hr as [Hr|Hr]; [|discriminate]. rewrite <- Hr. cbn. intros [->|Hin]; auto.
    + destruct (r_id r); cbn; auto.
  - destruct (r_id r); cbn; auto.
Qed.
Lemma responses_nodup (h : request -> json -> option response * log) ctx :
  handler_id_ok h -> forall rs, NoDup (cat_some (map r_id rs)) ->
  NoDup (cat_some (map resp_id (cat_some (map (fun r => fst (h r ctx)) rs)))).
Proof.
  intros Hh rs. induction rs as [|r rs IH]; cbn; intros Hn; [constructor|].
  pose proof (responses_ids_sub h ctx Hh rs) as Hsub.
  pose proof (Hh r ctx) as Hr. destruct (fst (h r ctx)) as [resp|]; cbn.
  - unfold id_ok in Hr. destruct (resp_id resp) as [j|] eqn:Ej; cbn.
    + destruct Hr as [Hr|Hr]; [|discriminate]. rewrite <- Hr in Hn. cbn in Hn.
      inversion Hn; subst. constructor; auto.
    + apply IH. destruct (r_id r); cbn in Hn; [inversion Hn|]; auto.
  - apply IH. destruct (r_id r); cbn in Hn; [inversion Hn|]; auto.
Qed.

Lemma breq_ids_nodup elems b : breq_from_json (JArr elems) = Ok b ->
  NoDup (cat_some (map r_id (b_items b))) /\ mapM req_from_json elems = Ok (b_items b) /\ elems <> [].
Proof.
  unfold breq_from_json, breq_extend, bind. destruct elems as [|a l]; [discriminate|].
  destruct (mapM req_from_json (a :: l)) as [rs|] eqn:E; [|discriminate]. intros H.
  destruct (batch_extend_ok r_id batch_empty rs b (binv_empty _) H) as [[Hi Hn] [Hitems _]].
  cbn in Hitems. rewrite Hi in Hn. rewrite Hitems in *. repeat split; auto. discriminate.
Qed.

(* ---------- C01: totality ---------- *)
Definition loader_in_contract (l : load_result) : Prop := match l with LRaise _ => False | _ => True end.

Theorem dispatch_total cfg l ctx :
  loader_in_contract l -> mws_id_ok cfg -> exists o lg, dispatch cfg l ctx = (Ok o, lg).
Proof.
  intros Hl Hm. pose proof (request_handler_id_ok cfg Hm) as Hh.
  assert (Single : forall v, (forall es, v <> JArr es) -> exists o lg,
            match req_from_json v with
            | Raise _ => reject invalid_request
            | Ok r => let '(resp, lg) := request_handler cfg r ctx in
                      (Ok match resp with Some x => single x | None => None end, lg)
            end = (Ok o, lg)).
  { intros v _. destruct (req_from_json v) as [r|x]; [|unfold reject; eauto].
    destruct (request_handler cfg r ctx) as [resp lg]. eauto. }
  destruct l as [v| | |x]; cbn [dispatch]; try (unfold reject; eauto; fail); [|destruct Hl].
  destruct v; try (apply Single; intros; discriminate).
  destruct (breq_from_json (JArr l)) as [b|x] eqn:Eb; [|unfold reject; eauto].
  destruct (too_large _ _); [unfold reject; eauto|].
  rewrite !map_map.
  destruct (breq_ids_nodup _ _ Eb) as [Hn _].
  pose proof (responses_nodup (request_handler cfg) ctx Hh (b_items b) Hn) as Hr.
  apply add_ids_iff in Hr. destruct Hr as [s Hs].
  unfold batch_extend, bind. cbn [b_ids batch_empty]. rewrite Hs. cbn [b_items].
  destruct (cat_some (map (fun x => fst (request_handler cfg x ctx)) (b_items b))); cbn; eauto.
Qed.

Theorem dispatch_wf cfg l ctx doc codes lg :
  dispatch cfg l ctx = (Ok (Some (doc, codes)), lg) ->
  wf_response_doc doc = true /\ codes = codes_of_doc doc.
Proof.
  assert (Rej : forall e, reject e = (Ok (Some (doc, codes)), lg) -> wf_response_doc doc = true /\ codes = codes_of_doc doc).
  { unfold reject. intros e H. inversion H; subst. apply (single_wf (RError None e)). reflexivity. }
  assert (Single : forall v,
            match req_from_json v with
            | Raise _ => reject invalid_request
            | Ok r => let '(resp, lg) := request_handler cfg r ctx in
                      (Ok match resp with Some x => single x | None => None end, lg)
            end = (Ok (Some (doc, codes)), lg) -> wf_response_doc doc = true /\ codes = codes_of_doc doc).
  { intros v H. destruct (req_from_json v) as [r|x]; [|eauto].
    destruct (request_handler cfg r ctx) as [resp lg']. inversion H as [[H1 H2]].
    destruct resp as [x|]; [|discriminate]. apply (single_wf x); auto. }
  destruct l as [v| | |x]; cbn [dispatch]; eauto; [|discriminate].
  destruct v; eauto.
  destruct (breq_from_json (JArr l)) as [b|x]; eauto.
  destruct (too_large _ _); eauto.
  destruct (batch_extend _ _ _) as [rb|x]; [|discriminate].
  destruct (b_items rb) as [|r rs] eqn:E; [discriminate|].
  intros H. inversion H; subst. apply (batch_doc_wf (r :: rs)). discriminate.
Qed.

(* ---------- C02 ---------- *)
Theorem single_call_answered cfg v r ctx i :
  mws_answer_ok cfg -> (forall es, v <> JArr es) -> req_from_json v = Ok r -> r_id r = Some i ->
  exists resp lg, dispatch cfg (LOk v) ctx = (Ok (single resp), lg) /\ resp_id resp = Some i.
Proof.
  intros Hm Hv Hr Hi. pose proof (request_handler_answer_ok cfg Hm r ctx) as Ha.
  assert (E : dispatch cfg (LOk v) ctx =
              let '(resp, lg) := request_handler cfg r ctx in
              (Ok match resp with Some x => single x | None => None end, lg)).
  { destruct v; cbn [dispatch]; rewrite ?Hr; try reflexivity. exfalso; eapply Hv; reflexivity. }
  rewrite E. destruct (request_handler cfg r ctx) as [resp lg]. cbn in Ha.
  unfold answer_ok in Ha. rewrite Hi in Ha. destruct resp as [resp|]; [|contradiction]. eauto.
Qed.

Theorem single_notification_silent cfg v r ctx :
  mws_answer_ok cfg -> (forall es, v <> JArr es) -> req_from_json v = Ok r -> r_id r = None ->
  fst (dispatch cfg (LOk v) ctx) = Ok None.
Proof.
  intros Hm Hv Hr Hi. pose proof (request_handler_answer_ok cfg Hm r ctx) as Ha.
  assert (E : dispatch cfg (LOk v) ctx =
              let '(resp, lg) := request_handler cfg r ctx in
              (Ok match resp with Some x => single x | None => None end, lg)).
  { destruct v; cbn [dispatch]; rewrite ?Hr; try reflexivity. exfalso; eapply Hv; reflexivity. }
  rewrite E. destruct (request_handler cfg r ctx) as [resp lg]. cbn in Ha.
  unfold answer_ok in Ha. rewrite Hi in Ha. destruct resp; [contradiction|reflexivity].
Qed.

(* a batch is the element-wise map: what each element gets when sent alone, collected *)
Definition collect (outs : list (res (option (json * list Z)) * log)) : res (option (json * list Z)) * log :=
  let docs := cat_some (map (fun o => match fst o with Ok (Some (d, _)) => Some d | _ => None end) outs) in
  let codes := List.concat (map (fun o => match fst o with Ok (Some (_, c)) => c | _ => [] end) outs) in
  (Ok (match docs with [] => None | _ => Some (JArr docs, codes) end), List.concat (map snd outs)).

Lemma req_from_json_not_arr v r : req_from_json v = Ok r -> forall es, v <> JArr es.
Proof. intros H es ->. discriminate H. Qed.

Lemma dispatch_single_eq cfg v r ctx : req_from_json v = Ok r ->
  dispatch cfg (LOk v) ctx =
  let '(resp, lg) := request_handler cfg r ctx in (Ok match resp with Some x => single x | None => None end, lg).
Proof. intros Hr. destruct v; cbn [dispatch]; rewrite ?Hr; try reflexivity. discriminate Hr. Qed.

Theorem batch_is_map cfg elems b ctx :
  mws_id_ok cfg ->
  breq_from_json (JArr elems) = Ok b -> too_large (c_max_batch cfg) (List.length (b_items b)) = false ->
  dispatch cfg (LOk (JArr elems)) ctx = collect (map (fun e => dispatch cfg (LOk e) ctx) elems).
Proof.
  intros Hm Eb Hsz. pose proof (request_handler_id_ok cfg Hm) as Hh.
  destruct (breq_ids_nodup _ _ Eb) as [Hn [HmapM _]].
  remember (collect (map (fun e => dispatch cfg (LOk e) ctx) elems)) as rhs eqn:Erhs.
  cbn [dispatch]. rewrite Eb, Hsz. rewrite !map_map.
  pose proof (responses_nodup (request_handler cfg) ctx Hh (b_items b) Hn) as Hr.
  apply add_ids_iff in Hr. destruct Hr as [s Hs].
  unfold batch_extend, bind. cbn [b_ids batch_empty]. rewrite Hs. cbn [b_items app].
  subst rhs. unfold collect.
  (* relate the two sides element by element *)
  apply mapM_ok in HmapM.
  assert (Hdocs : map resp_to_json (cat_some (map (fun x => fst (request_handler cfg x ctx)) (b_items b)))
                  = cat_some (map (fun o => match fst o with Ok (Some (d, _)) => Some d | _ => None end)
                                  (map (fun e => dispatch cfg (LOk e) ctx) elems))
                  /\ map resp_code (cat_some (map (fun x => fst (request_handler cfg x ctx)) (b_items b)))
                  = List.concat (map (fun o => match fst o with Ok (Some (_, c)) => c | _ => [] end)
                                     (map (fun e => dispatch cfg (LOk e) ctx) elems))
                  /\ List.concat (map (fun x => snd (request_handler cfg x ctx)) (b_items b))
                  = List.concat (map snd (map (fun e => dispatch cfg (LOk e) ctx) elems))).
  { clear -HmapM. induction HmapM as [|e r es rs He _ IH]; [cbn; auto|].
    destruct IH as [I1 [I2 I3]]. cbn [map]. rewrite (dispatch_single_eq cfg e r ctx He).
    destruct (request_handler cfg r ctx) as [[resp|] lg]; unfold single;
      cbn [fst snd cat_some map List.concat app]; rewrite ?I1, ?I2, ?I3; auto. }
  destruct Hdocs as [D1 [D2 D3]]. rewrite <- D1, <- D2, <- D3.
  destruct (cat_some (map (fun x => fst (request_handler cfg x ctx)) (b_items b))); reflexivity.
Qed.

Theorem rejected_batch_silent cfg elems ctx :
  (exists x, breq_from_json (JArr elems) = Raise x)
  \/ (exists b, breq_from_json (JArr elems) = Ok b /\ too_large (c_max_batch cfg) (List.length (b_items b)) = true) ->
  dispatch cfg (LOk (JArr elems)) ctx = reject invalid_request.
Proof.
  intros [[x H]|[b [H1 H2]]]; cbn [dispatch]; [rewrite H|rewrite H1, H2]; reflexivity.
Qed.

(* exactly-once execution: the innermost handler logs one call iff the method exists and its parameters bind *)
Definition is_call (e : event) : bool := match e with EvCall _ _ => true | _ => false end.
Lemma run_ehs_no_call key hs r ctx : forall i e, filter is_call (snd (run_ehs key i hs r ctx e)) = [].
Proof.
  induction hs as [|h hs IH]; intros i e; cbn; auto.
  specialize (IH (S i) (h r ctx e)). destruct (run_ehs key (S i) hs r ctx (h r ctx e)); cbn in *. exact IH.
Qed.
Lemma handle_request_log cfg r ctx :
  filter is_call (snd (handle_request cfg r ctx))
  = filter is_call (snd (handle_rpc_method cfg (r_method r) (r_params r) ctx)).
Proof.
  unfold handle_request. destruct (handle_rpc_method cfg (r_method r) (r_params r) ctx) as [h lg].
  destruct h as [v|e]; cbn [snd]; [reflexivity|].
  pose proof (run_ehs_no_call None (get_eh None (c_ehs cfg)) r ctx 0 e) as H1.
  destruct (run_ehs None 0 (get_eh None (c_ehs cfg)) r ctx e) as [e1 lg1].
  pose proof (run_ehs_no_call (Some (e_code e)) (get_eh (Some (e_code e)) (c_ehs cfg)) r ctx 0 e1) as H2.
  destruct (run_ehs (Some (e_code e)) 0 (get_eh (Some (e_code e)) (c_ehs cfg)) r ctx e1) as [e2 lg2].
  cbn [snd] in *. rewrite !filter_app, H1, H2, !app_nil_r. reflexivity.
Qed.
Theorem handle_request_calls cfg r ctx :
  filter is_call (snd (handle_request cfg r ctx)) =
  match get (r_method r) (c_registry cfg) with
  | Some m => match m ctx (r_params r) with MRan args _ => [EvCall (r_method r) args] | _ => [] end
  | None => [] end.
Proof.
  rewrite handle_request_log. unfold handle_rpc_method.
  destruct (get (r_method r) (c_registry cfg)) as [m|]; [|reflexivity].
  destruct (m ctx (r_params r)) as [d| | |args o]; reflexivity.
Qed.

(* ---------- C03: the error mapping ---------- *)
Definition err_response (e : rpc_error) : res (option (json * list Z)) := Ok (single (RError None e)).

Theorem not_json_is_parse_error cfg ctx l : l = LDecodeError \/ l = LValueError ->
  dispatch cfg l ctx = (err_response parse_error, []).
Proof. intros [->| ->]; reflexivity. Qed.

Theorem invalid_single_is_invalid_request cfg ctx v x :
  (forall es, v <> JArr es) -> req_from_json v = Raise x ->
  dispatch cfg (LOk v) ctx = (err_response invalid_request, []).
Proof. intros Hv H. destruct v; cbn [dispatch]; rewrite ?H; try reflexivity. exfalso; eapply Hv; eauto. Qed.

Lemma no_ehs_run cfg key i r ctx e : c_ehs cfg = [] -> run_ehs key i (get_eh key (c_ehs cfg)) r ctx e = (e, []).
Proof. intros ->. reflexivity. Qed.

(* what the innermost handler answers, in a configuration without error handlers *)
Theorem handle_request_verdict cfg r ctx : c_ehs cfg = [] ->
  fst (handle_request cfg r ctx) =
  match r_id r with
  | None => None
  | Some _ =>
      Some match get (r_method r) (c_registry cfg) with
           | None => RError (r_id r) method_not_found
           | Some m => match m ctx (r_params r) with
                       | MInvalid d => RError (r_id r) (invalid_params d)
                       | MInternal => RError (r_id r) internal_error
                       | MCallFail => RError (r_id r) server_error
                       | MRan _ (ORet v) => RResult (r_id r) v
                       | MRan _ (ORpc e) => RError (r_id r) e
                       | MRan _ (OExc _) => RError (r_id r) server_error
                       end
           end
  end.
Proof.
  intros He. unfold handle_request, handle_rpc_method.
  destruct (get (r_method r) (c_registry cfg)) as [m|]; [destruct (m ctx (r_params r)) as [d| | |args [v|e|t]]|];
    cbn; rewrite ?no_ehs_run by auto; cbn; rewrite ?no_ehs_run by auto; cbn; destruct (r_id r); reflexivity.
Qed.

(* nothing of a foreign exception reaches the response: the answer is a constant that does not mention it *)
Theorem foreign_exception_opaque cfg name p ctx m args t :
  get name (c_registry cfg) = Some m -> m ctx p = MRan args (OExc t) ->
  handle_rpc_method cfg name p ctx = (HErr server_error, [EvCall name args]).
Proof. intros H1 H2. unfold handle_rpc_method. rewrite H1, H2. reflexivity. Qed.
Theorem protocol_error_verbatim cfg name p ctx m args e :
  get name (c_registry cfg) = Some m -> m ctx p = MRan args (ORpc e) ->
  handle_rpc_method cfg name p ctx = (HErr e, [EvCall name args]).
Proof. intros H1 H2. unfold handle_rpc_method. rewrite H1, H2. reflexivity. Qed.
Theorem unknown_method_not_found cfg name p ctx :
  get name (c_registry cfg) = None -> handle_rpc_method cfg name p ctx = (HErr method_not_found, []).
Proof. intros H1. unfold handle_rpc_method. rewrite H1. reflexivity. Qed.
Theorem invalid_params_not_run cfg name p ctx m d :
  get name (c_registry cfg) = Some m -> m ctx p = MInvalid d ->
  handle_rpc_method cfg name p ctx = (HErr (invalid_params d), []).
Proof. intros H1 H2. unfold handle_rpc_method. rewrite H1, H2. reflexivity. Qed.

(* ---------- C12 ---------- *)
(* error handlers: a left fold over the generic handlers followed by the handlers of the RAISED code *)
Lemma run_ehs_fold key hs r ctx : forall i e,
  fst (run_ehs key i hs r ctx e) = fold_left (fun acc h => h r ctx acc) hs e.
Proof.
  induction hs as [|h hs IH]; intros i e; cbn; auto.
  specialize (IH (S i) (h r ctx e)). destruct (run_ehs key (S i) hs r ctx (h r ctx e)); cbn in *. exact IH.
Qed.
(* handler k receives what handler k-1 returned, and they are logged in list order *)
Fixpoint eh_inputs (hs : list ehandler) (r : request) (ctx : json) (e : rpc_error) : list rpc_error :=
  match hs with [] => [] | h :: q => e :: eh_inputs q r ctx (h r ctx e) end.
Lemma run_ehs_log key hs r ctx : forall i e,
  snd (run_ehs key i hs r ctx e) = map (fun ie => EvEh key (fst ie) (snd ie)) (combine (seq i (List.length hs)) (eh_inputs hs r ctx e)).
Proof.
  induction hs as [|h hs IH]; intros i e; cbn; auto.
  specialize (IH (S i) (h r ctx e)). destruct (run_ehs key (S i) hs r ctx (h r ctx e)); cbn in *. rewrite IH. reflexivity.
Qed.

Theorem error_handlers_fold cfg r ctx name e :
  fst (handle_rpc_method cfg (r_method r) (r_params r) ctx) = HErr e -> r_id r = Some name ->
  fst (handle_request cfg r ctx) =
  Some (RError (r_id r) (fold_left (fun acc h => h r ctx acc)
                                   (get_eh None (c_ehs cfg) ++ get_eh (Some (e_code e)) (c_ehs cfg)) e)).
Proof.
  intros H Hid. unfold handle_request. destruct (handle_rpc_method cfg (r_method r) (r_params r) ctx) as [h lg].
  cbn in H. subst h.
  pose proof (run_ehs_fold None (get_eh None (c_ehs cfg)) r ctx 0 e) as F1.
  destruct (run_ehs None 0 _ r ctx e) as [e1 lg1].
  pose proof (run_ehs_fold (Some (e_code e)) (get_eh (Some (e_code e)) (c_ehs cfg)) r ctx 0 e1) as F2.
  destruct (run_ehs (Some (e_code e)) 0 _ r ctx e1) as [e2 lg2]. cbn [fst snd] in *.
  rewrite Hid. rewrite fold_left_app. subst e1 e2. reflexivity.
Qed.

Definition is_eh (e : event) : bool := match e with EvEh _ _ _ => true | _ => false end.
Theorem error_handlers_not_on_success cfg r ctx v :
  fst (handle_rpc_method cfg (r_method r) (r_params r) ctx) = HVal v ->
  filter is_eh (snd (handle_request cfg r ctx)) = [].
Proof.
  intros H. unfold handle_request. destruct (handle_rpc_method cfg (r_method r) (r_params r) ctx) as [h lg] eqn:E.
  cbn in H. subst h. cbn.
  unfold handle_rpc_method in E. destruct (get _ _) as [m|]; [|inversion E].
  destruct (m ctx (r_params r)) as [d| | |args o]; inversion E; subst; reflexivity.
Qed.

(* middlewares: the pass-through case -- every middleware is entered once in declaration order, the
   inner handler runs on the request as rewritten by all of them, and they exit in reverse order *)
Fixpoint thread_req (mws : list middleware) (r : request) (ctx : json) : option request :=
  match mws with
  | [] => Some r
  | m :: q => match mw_pre m r ctx with inl r' => thread_req q r' ctx | inr _ => None end
  end.
Fixpoint enters (mws : list middleware) (i : nat) (r : request) (ctx : json) : list event :=
  match mws with
  | [] => []
  | m :: q => EvMwEnter i r :: match mw_pre m r ctx with inl r' => enters q (S i) r' ctx | inr _ => [] end
  end.
Fixpoint post_all (mws : list middleware) (r : request) (ctx : json) (x : option response) : option response :=
  match mws with
  | [] => x
  | m :: q => match mw_pre m r ctx with
              | inl r' => mw_post m r ctx (post_all q r' ctx x)
              | inr y => y end
  end.
Fixpoint exits (mws : list middleware) (i : nat) (r : request) (ctx : json) (x : option response) : list event :=
  match mws with
  | [] => []
  | m :: q => match mw_pre m r ctx with
              | inl r' => exits q (S i) r' ctx x ++ [EvMwExit i (mw_post m r ctx (post_all q r' ctx x))]
              | inr y => [EvMwExit i y] end
  end.

Theorem chain_passthrough mws base ctx : forall i r r_in,
  thread_req mws r ctx = Some r_in ->
  chain mws i base r ctx =
  (post_all mws r ctx (fst (base r_in ctx)),
   enters mws i r ctx ++ snd (base r_in ctx) ++ exits mws i r ctx (fst (base r_in ctx))).
Proof.
  induction mws as [|m q IH]; intros i r r_in H; cbn in *.
  - inv_res. rewrite app_nil_r. destruct (base r_in ctx); reflexivity.
  - destruct (mw_pre m r ctx) as [r'|y]; [|discriminate].
    rewrite (IH (S i) r' r_in H). cbn. rewrite <- !app_assoc. reflexivity.
Qed.

Lemma enters_indices mws ctx : forall i r r_in, thread_req mws r ctx = Some r_in ->
  map (fun e => match e with EvMwEnter k _ => k | _ => O end) (enters mws i r ctx) = seq i (List.length mws).
Proof.
  induction mws as [|m q IH]; intros i r r_in H; cbn in *; auto.
  destruct (mw_pre m r ctx) as [r'|y]; [|discriminate]. f_equal. eapply IH; eauto.
Qed.
Lemma exits_indices mws ctx x : forall i r r_in, thread_req mws r ctx = Some r_in ->
  map (fun e => match e with EvMwExit k _ => k | _ => O end) (exits mws i r ctx x) = rev (seq i (List.length mws)).
Proof.
  induction mws as [|m q IH]; intros i r r_in H; cbn in *; auto.
  destruct (mw_pre m r ctx) as [r'|y]; [|discriminate]. rewrite map_app. cbn. f_equal. eapply IH; eauto.
Qed.

(* a middleware that answers by itself: nothing below it runs -- the outcome does not depend on what is below *)
Theorem chain_short_circuit pre m ctx : forall i r r_at y post1 post2 base1 base2,
  thread_req pre r ctx = Some r_at -> mw_pre m r_at ctx = inr y ->
  chain (pre ++ m :: post1) i base1 r ctx = chain (pre ++ m :: post2) i base2 r ctx.
Proof.
  induction pre as [|p q IH]; intros i r r_at y post1 post2 base1 base2 H Hy; cbn in *.
  - inv_res. rewrite Hy. reflexivity.
  - destruct (mw_pre p r ctx) as [r'|z]; [|discriminate].
    rewrite (IH (S i) r' r_at y post1 post2 base1 base2 H Hy). reflexivity.
Qed.
