(* Proofs about Model/Registry.v (C15): the name -> method dict built by any registration history, with merges nested
   to any depth, answers every lookup exactly as the declarative reading "explicit or own name preceded by the
   dot-joined prefixes it was added through; later registration wins". *)
From Coq Require Import ZArith List String Ascii Bool Lia.
From PJ Require Import Base.Json Model.Registry.
Import ListNotations.
Open Scope string_scope. Open Scope list_scope.

(* ---------- dict facts ---------- *)
Lemma get_set {V} n k (v : V) r : get n (set k v r) = if String.eqb n k then Some v else get n r.
Proof.
  induction r as [|[k' v'] r IH]; cbn.
  - destruct (String.eqb n k); reflexivity.
  - destruct (String.eqb k k') eqn:E; cbn.
    + apply String.eqb_eq in E. subst k'. destruct (String.eqb n k); reflexivity.
    + rewrite IH. destruct (String.eqb n k') eqn:E2; auto. destruct (String.eqb n k) eqn:E3; auto.
      apply String.eqb_eq in E2. apply String.eqb_eq in E3. subst. rewrite String.eqb_refl in E. discriminate.
Qed.

Definition over (a : option fn) (b : option fn) : option fn := match a with Some g => Some g | None => b end.
Lemma last_match_app n l1 l2 : last_match n (l1 ++ l2) = over (last_match n l2) (last_match n l1).
Proof.
  induction l1 as [|[k f] l1 IH]; cbn.
  - destruct (last_match n l2); reflexivity.
  - rewrite IH. destruct (last_match n l2); cbn; auto.
Qed.
Lemma over_assoc a b c : over a (over b c) = over (over a b) c.
Proof. destruct a; reflexivity. Qed.

(* folding dict assignments over a list = the last matching entry of the list, else the old value *)
Lemma fold_set_last (l : list (string * fn)) : forall r n,
  get n (fold_left (fun acc kv => set (fst kv) (snd kv) acc) l r) = over (last_match n l) (get n r).
Proof.
  induction l as [|[k f] l IH]; intros r n; cbn; auto.
  rewrite IH, get_set. destruct (last_match n l); cbn; auto. destruct (String.eqb n k); reflexivity.
Qed.

(* ---------- names ---------- *)
Definition prepend (path : list string) (s : string) : string := fold_right (fun p acc => (p ++ "." ++ acc)%string) s path.
Lemma join_dot_cons a r : r <> [] -> join_dot (a :: r) = (a ++ "." ++ join_dot r)%string.
Proof. destruct r; [congruence|reflexivity]. Qed.
Lemma join_dot_prepend path comps : comps <> [] -> join_dot (path ++ comps) = prepend path (join_dot comps).
Proof.
  intros H. induction path as [|p path IH]; cbn [app prepend fold_right]; auto.
  rewrite join_dot_cons; [rewrite IH; reflexivity|]. destruct path; cbn; [exact H|discriminate].
Qed.
Lemma prepend_app a b s : prepend (a ++ b) s = prepend a (prepend b s).
Proof. unfold prepend. rewrite fold_right_app. reflexivity. Qed.

Lemma append_inj (p a b : string) : (p ++ a = p ++ b)%string -> a = b.
Proof. induction p as [|c p IH]; cbn; auto. intros H. inversion H. auto. Qed.
Lemma prepend_inj path a b : prepend path a = prepend path b -> a = b.
Proof.
  induction path as [|p path IH]; cbn; auto. intros H. apply IH.
  apply append_inj in H. cbn in H. inversion H as [H1]. exact H1.
Qed.

(* last_match through an injective renaming of the keys *)
Lemma last_match_map_inj (g : string -> string) (Hg : forall a b, g a = g b -> a = b) l : forall m,
  last_match (g m) (map (fun kv => (g (fst kv), snd kv)) l) = last_match m l.
Proof.
  induction l as [|[k f] l IH]; intros m; cbn; auto. rewrite IH.
  destruct (last_match m l); auto. destruct (String.eqb m k) eqn:E.
  - apply String.eqb_eq in E. subst. rewrite String.eqb_refl. reflexivity.
  - destruct (String.eqb (g m) (g k)) eqn:E2; auto. apply String.eqb_eq in E2. apply Hg in E2. subst. rewrite String.eqb_refl in E. discriminate.
Qed.
Lemma last_match_map_image (g : string -> string) l : forall n f,
  last_match n (map (fun kv => (g (fst kv), snd kv)) l) = Some f -> exists m, n = g m.
Proof.
  induction l as [|[k x] l IH]; intros n f; cbn; [discriminate|].
  destruct (last_match n (map _ l)) eqn:E; [intros _; eapply IH; eauto|].
  destruct (String.eqb n (g k)) eqn:E2; [|discriminate]. apply String.eqb_eq in E2. eauto.
Qed.
Lemma last_match_map_ext (g : string -> string) (Hg : forall a b, g a = g b -> a = b) l1 l2 :
  (forall m, last_match m l1 = last_match m l2) ->
  forall n, last_match n (map (fun kv => (g (fst kv), snd kv)) l1) = last_match n (map (fun kv => (g (fst kv), snd kv)) l2).
Proof.
  intros H n.
  destruct (last_match n (map _ l1)) as [f|] eqn:E1.
  - destruct (last_match_map_image g l1 n f E1) as [m ->]. rewrite last_match_map_inj in E1 by exact Hg.
    rewrite last_match_map_inj by exact Hg. rewrite <- H. symmetry; exact E1.
  - destruct (last_match n (map _ l2)) as [f|] eqn:E2; auto.
    destruct (last_match_map_image g l2 n f E2) as [m ->]. rewrite last_match_map_inj in E1, E2 by exact Hg. rewrite H in E1. congruence.
Qed.

(* ---------- dicts have unique keys, so get is the last (the only) match ---------- *)
Lemma keys_set {V} k (v : V) r : keys (set k v r) = if has k r then keys r else keys r ++ [k].
Proof.
  unfold has, keys. induction r as [|[k' v'] r IH]; cbn; auto. destruct (String.eqb k k') eqn:E; cbn.
  - apply String.eqb_eq in E. subst. reflexivity.
  - rewrite IH. destruct (get k r); reflexivity.
Qed.
Lemma has_in {V} k (r : list (string * V)) : has k r = false -> ~ In k (keys r).
Proof.
  unfold has. induction r as [|[k' v'] r IH]; cbn; auto. destruct (String.eqb k k') eqn:E; [discriminate|].
  intros H [Hk|Hin]; [subst; rewrite String.eqb_refl in E; discriminate|]. apply IH; auto.
Qed.
Lemma uniq_set {V} k (v : V) r : NoDup (keys r) -> NoDup (keys (set k v r)).
Proof.
  intros H. rewrite keys_set. destruct (has k r) eqn:E; auto.
  apply has_in in E. remember (keys r) as l eqn:El. clear El. induction l as [|a l IH]; cbn.
  - repeat constructor. intros [].
  - inversion H; subst. constructor.
    + rewrite in_app_iff. cbn. intros [Hin|[Hk|[]]]; [contradiction|]. subst. apply E. left; reflexivity.
    + apply IH; auto. intros Hin. apply E. right; exact Hin.
Qed.
Lemma uniq_fold (l : list (string * fn)) : forall r, NoDup (keys r) ->
  NoDup (keys (fold_left (fun acc kv => set (fst kv) (snd kv) acc) l r)).
Proof. induction l as [|kv l IH]; intros r H; cbn; auto. apply IH, uniq_set, H. Qed.
Lemma get_none_last n (r : reg) : ~ In n (keys r) -> last_match n r = None.
Proof.
  induction r as [|[k f] r IH]; cbn; auto. intros H. rewrite IH by tauto.
  destruct (String.eqb n k) eqn:E; auto. apply String.eqb_eq in E. subst. exfalso; auto.
Qed.
Lemma uniq_get_last n (r : reg) : NoDup (keys r) -> get n r = last_match n r.
Proof.
  induction r as [|[k f] r IH]; cbn; auto. intros H. inversion H; subst.
  destruct (String.eqb n k) eqn:E.
  - apply String.eqb_eq in E. subst. rewrite get_none_last; auto.
  - rewrite IH by auto. destruct (last_match n r); reflexivity.
Qed.

(* fold over a renamed list *)
Lemma fold_set_map (g : string -> string) (l : list (string * fn)) : forall r,
  fold_left (fun acc kv => set (g (fst kv)) (snd kv) acc) l r
  = fold_left (fun acc kv => set (fst kv) (snd kv) acc) (map (fun kv => (g (fst kv), snd kv)) l) r.
Proof. induction l as [|kv l IH]; intros r; cbn; auto. Qed.
Lemma fold_set_members (g : member -> string) (ms : list member) : forall r,
  fold_left (fun acc m => set (g m) (mb_fn m) acc) ms r
  = fold_left (fun acc kv => set (fst kv) (snd kv) acc) (map (fun m => (g m, mb_fn m)) ms) r.
Proof. induction ms as [|m ms IH]; intros r; cbn; auto. Qed.

(* ---------- well-formed histories: Python identifiers are non-empty ---------- *)
Fixpoint size (e : rexpr) : nat :=
  match e with RE _ ops =>
    S ((fix go (ops : list regop) : nat :=
          match ops with [] => 0 | o :: q => match o with OMerge other => size other | _ => 1 end + go q end) ops) end.
Definition ne (s : string) : bool := negb (String.eqb s "").
Fixpoint wf (e : rexpr) : bool :=
  match e with RE _ ops =>
    (fix go (ops : list regop) : bool :=
       match ops with
       | [] => true
       | o :: q => match o with
                   | OAdd _ fname _ | OAddMethod _ fname _ | OAddPlain _ fname => ne fname
                   | OView _ ms => forallb (fun m => ne (mb_name m)) ms
                   | OMerge other => wf other end && go q
       end) ops end.

Lemma nonempty_some s : ne s = true -> nonempty (Some s) = [s].
Proof. unfold ne, nonempty. destruct (String.eqb s ""); [discriminate|reflexivity]. Qed.
Lemma chosen_name_ne name fname : ne fname = true -> ne (match nonempty name with [n] => n | _ => fname end) = true.
Proof.
  intros H. destruct name as [s|]; cbn; auto. unfold ne in *. destruct (String.eqb s "") eqn:E; cbn; auto. rewrite E. reflexivity.
Qed.
Lemma prefixed_prepend prefix name : prefixed prefix name = prepend (nonempty prefix) name.
Proof. unfold prefixed. destruct prefix as [s|]; cbn; auto. destruct (String.eqb s ""); reflexivity. Qed.
Lemma join_names_two prefix nm : ne nm = true -> join_names [prefix; Some nm] = prepend (nonempty prefix) nm.
Proof.
  intros H. unfold join_names. cbn [flat_map]. rewrite nonempty_some, app_nil_r by exact H.
  rewrite (join_dot_prepend (nonempty prefix) [nm]) by discriminate. reflexivity.
Qed.
Lemma join_names_three prefix vp nm : ne nm = true ->
  join_names [prefix; vp; Some nm] = prepend (nonempty prefix) (join_dot (nonempty vp ++ [nm])).
Proof.
  intros H. unfold join_names. cbn [flat_map]. rewrite nonempty_some, app_nil_r by exact H.
  rewrite (join_dot_prepend (nonempty prefix) (nonempty vp ++ [nm])); [reflexivity|]. destruct (nonempty vp); discriminate.
Qed.

Definition rename (path : list string) (kv : string * fn) : string * fn := (prepend path (fst kv), snd kv).

(* entries under a path = entries at the root, every name preceded by the path *)
Lemma entries_path_k : forall k e, size e <= k -> forall path, entries path e = map (rename path) (entries [] e).
Proof.
  induction k as [|k IHk]; intros [prefix ops] Hs path; [cbn in Hs; lia|].
  cbn [entries]. rewrite app_nil_l.
  cbn [size] in Hs. apply le_S_n in Hs. revert Hs.
  induction ops as [|o q IHq]; intros Hs; [reflexivity|].
  rewrite map_app. rewrite <- IHq.
  2:{ cbn in Hs. destruct o; cbn in Hs; lia. }
  f_equal.
  destruct o as [f fname name|f fname name|f fname|vp ms|other]; cbn [map rename fst snd].
  - rewrite <- app_assoc, join_dot_prepend; [reflexivity|destruct (nonempty prefix); discriminate].
  - rewrite <- app_assoc, join_dot_prepend; [reflexivity|destruct (nonempty prefix); discriminate].
  - rewrite <- app_assoc, join_dot_prepend; [reflexivity|destruct (nonempty prefix); discriminate].
  - rewrite map_map. apply map_ext. intros m. unfold rename. cbn [fst snd].
    rewrite <- app_assoc, join_dot_prepend; [reflexivity|]. destruct (nonempty prefix); [destruct (nonempty vp)|]; discriminate.
  - assert (Hso : size other <= k) by (cbn in Hs; lia).
    rewrite (IHk other Hso (path ++ nonempty prefix)), (IHk other Hso (nonempty prefix)).
    rewrite map_map. apply map_ext. intros [n f]. unfold rename. cbn [fst snd]. rewrite prepend_app. reflexivity.
Qed.
Lemma entries_path e path : entries path e = map (rename path) (entries [] e).
Proof. eapply entries_path_k; eauto. Qed.

(* the registry of ANY history is a dict *)
Lemma eval_uniq e : NoDup (keys (eval e)).
Proof.
  destruct e as [prefix ops]. cbn [eval].
  assert (G : forall ops r, NoDup (keys r) -> NoDup (keys (
     (fix go (ops : list regop) (r : reg) : reg :=
         match ops with
         | [] => r
         | o :: q =>
             go q
               match o with
               | OAdd f fname name =>
                   set (join_names [prefix; Some (match nonempty name with [n] => n | _ => fname end)]) f r
               | OAddMethod f fname name =>
                   set (prefixed prefix (match nonempty name with [n] => n | _ => fname end)) f r
               | OAddPlain f fname => set (join_names [prefix; Some fname]) f r
               | OView vp ms =>
                   fold_left (fun acc m => set (join_names [prefix; vp; Some (mb_name m)]) (mb_fn m) acc) (exposed ms) r
               | OMerge other =>
                   fold_left (fun acc kv => set (prefixed prefix (fst kv)) (snd kv) acc) (eval other) r
               end
         end) ops r))).
  { induction ops0 as [|o q IH]; intros r Hr; auto. apply IH.
    destruct o; try (apply uniq_set; exact Hr).
    - rewrite fold_set_members. apply uniq_fold. exact Hr.
    - rewrite fold_set_map. apply uniq_fold. exact Hr. }
  apply G. constructor.
Qed.

(* ---------- the main theorem ---------- *)
Lemma lookup_k : forall k e, size e <= k -> wf e = true -> forall n, get n (eval e) = last_match n (entries [] e).
Proof.
  induction k as [|k IHk]; intros [prefix ops] Hs Hw n; [cbn in Hs; lia|].
  cbn [eval entries]. rewrite app_nil_l.
  cbn [size] in Hs. apply le_S_n in Hs.
  (* generalise over the dict built so far *)
  enough (G : forall r, get n (
     (fix go (ops : list regop) (r : reg) : reg :=
         match ops with
         | [] => r
         | o :: q =>
             go q
               match o with
               | OAdd f fname name =>
                   set (join_names [prefix; Some (match nonempty name with [n] => n | _ => fname end)]) f r
               | OAddMethod f fname name =>
                   set (prefixed prefix (match nonempty name with [n] => n | _ => fname end)) f r
               | OAddPlain f fname => set (join_names [prefix; Some fname]) f r
               | OView vp ms =>
                   fold_left (fun acc m => set (join_names [prefix; vp; Some (mb_name m)]) (mb_fn m) acc) (exposed ms) r
               | OMerge other =>
                   fold_left (fun acc kv => set (prefixed prefix (fst kv)) (snd kv) acc) (eval other) r
               end
         end) ops r)
     = over (last_match n (
        (fix go (ops : list regop) : list (string * fn) :=
         match ops with
         | [] => []
         | o :: q =>
             match o with
             | OAdd f fname name | OAddMethod f fname name =>
                 [(join_dot (nonempty prefix ++ [match nonempty name with [n] => n | _ => fname end]), f)]
             | OAddPlain f fname => [(join_dot (nonempty prefix ++ [fname]), f)]
             | OView vp ms => map (fun m => (join_dot (nonempty prefix ++ nonempty vp ++ [mb_name m]), mb_fn m)) (exposed ms)
             | OMerge other => entries (nonempty prefix) other
             end ++ go q
         end) ops)) (get n r)).
  { rewrite G. cbn. destruct (last_match n _); reflexivity. }
  cbn [wf] in Hw. revert Hs Hw.
  induction ops as [|o q IHq]; intros Hs Hw r; [reflexivity|].
  apply andb_true_iff in Hw. destruct Hw as [Hwo Hwq].
  rewrite IHq; [|cbn in Hs; destruct o; cbn in Hs; lia|exact Hwq].
  rewrite last_match_app, <- over_assoc. f_equal.
  destruct o as [f fname name|f fname name|f fname|vp ms|other].
  - rewrite get_set, join_names_two by (apply chosen_name_ne; exact Hwo).
    rewrite (join_dot_prepend (nonempty prefix) [_]) by discriminate. cbn.
    destruct (String.eqb n _); reflexivity.
  - rewrite get_set, prefixed_prepend. rewrite (join_dot_prepend (nonempty prefix) [_]) by discriminate. cbn.
    destruct (String.eqb n _); reflexivity.
  - rewrite get_set, join_names_two by exact Hwo. rewrite (join_dot_prepend (nonempty prefix) [_]) by discriminate. cbn.
    destruct (String.eqb n _); reflexivity.
  - rewrite fold_set_members, fold_set_last. f_equal. f_equal. apply map_ext_in. intros m Hm.
    rewrite join_names_three.
    + rewrite (join_dot_prepend (nonempty prefix) (nonempty vp ++ [mb_name m])); [reflexivity|destruct (nonempty vp); discriminate].
    + rewrite forallb_forall in Hwo. apply Hwo. unfold exposed in Hm. apply filter_In in Hm. tauto.
  - rewrite fold_set_map, fold_set_last. f_equal.
    rewrite entries_path.
    assert (Hso : size other <= k) by (cbn in Hs; lia).
    erewrite (map_ext (fun kv => (prefixed prefix (fst kv), snd kv)) (rename (nonempty prefix)));
      [|intros [a b]; unfold rename; cbn; rewrite prefixed_prepend; reflexivity].
    apply (last_match_map_ext (prepend (nonempty prefix)) (prepend_inj _)).
    intros m. rewrite <- (uniq_get_last m (eval other) (eval_uniq other)). apply IHk; auto.
Qed.

Theorem registry_exact e : wf e = true -> forall n, get n (eval e) = spec_lookup n e.
Proof. intros Hw n. unfold spec_lookup. eapply lookup_k; eauto. Qed.

(* private members and non-callables of a view are never registered by it *)
Theorem view_private_never prefix vp ms m r n :
  In m ms -> is_public m && mb_callable m = false ->
  (forall m', In m' (exposed ms) -> join_names [prefix; vp; Some (mb_name m')] <> n) ->
  get n (fold_left (fun acc m => set (join_names [prefix; vp; Some (mb_name m)]) (mb_fn m) acc) (exposed ms) r) = get n r.
Proof.
  intros _ _ H. rewrite fold_set_members, fold_set_last.
  assert (E : last_match n (map (fun m0 => (join_names [prefix; vp; Some (mb_name m0)], mb_fn m0)) (exposed ms)) = None).
  { induction (exposed ms) as [|a l IH]; [reflexivity|]. cbn [map last_match]. rewrite IH by (intros; apply H; right; assumption).
    destruct (String.eqb n (join_names [prefix; vp; Some (mb_name a)])) eqn:E; auto.
    apply String.eqb_eq in E. exfalso. eapply H; [left; reflexivity|]. symmetry. exact E. }
  rewrite E. reflexivity.
Qed.
Theorem exposed_only_public_callables ms m : In m (exposed ms) <-> In m ms /\ is_public m = true /\ mb_callable m = true.
Proof. unfold exposed. rewrite filter_In, andb_true_iff. tauto. Qed.
