(* Shared by C09 and C19: the case type of a scripted client run and its observation. *)
From Coq Require Import ZArith QArith List Bool.
From PJ Require Import Base.Res Model.Retry Lemmas.RetryL.
Import ListNotations.

Record robs := { o_sends : nat; o_sleeps : list Q; o_final : option attempt; o_events : list tev }.
Record rcase := {
  c_client : option strategy; c_per : per_request; c_jitter : list Q; c_tracers : nat; c_supplied : bool;
  c_script : list attempt; c_obs : robs }.

Definition jit_of (l : list Q) (k : nat) : Q := nth k l 0%Q.

Definition akind_eqb (a b : akind) : bool :=
  match a, b with
  | KResp None, KResp None => true
  | KResp (Some x), KResp (Some y) => Z.eqb x y
  | KNone, KNone => true
  | KExc x, KExc y => Nat.eqb x y
  | _, _ => false end.
Definition attempt_eqb (a b : attempt) : bool := akind_eqb (a_kind a) (a_kind b) && Nat.eqb (a_tag a) (a_tag b).
Definition tctx_eqb (a b : tctx) : bool :=
  match a, b with CtxCaller, CtxCaller => true | CtxFresh x, CtxFresh y => Nat.eqb x y | _, _ => false end.
Definition tev_eqb (a b : tev) : bool :=
  match a, b with
  | TBegin t c, TBegin t' c' => Nat.eqb t t' && tctx_eqb c c'
  | TEnd t c r, TEnd t' c' r' => Nat.eqb t t' && tctx_eqb c c' && match r, r' with Some x, Some y => Nat.eqb x y | None, None => true | _, _ => false end
  | TError t c x, TError t' c' x' => Nat.eqb t t' && tctx_eqb c c' && Nat.eqb x x'
  | _, _ => false end.
Fixpoint qlist_eqb (a b : list Q) : bool :=
  match a, b with [], [] => true | x :: a', y :: b' => Qeq_bool x y && qlist_eqb a' b' | _, _ => false end.
Fixpoint list_eqb' {A} (f : A -> A -> bool) (a b : list A) : bool :=
  match a, b with [], [] => true | x :: a', y :: b' => f x y && list_eqb' f a' b' | _, _ => false end.
Definition oattempt_eqb (a b : option attempt) : bool :=
  match a, b with Some x, Some y => attempt_eqb x y | None, None => true | _, _ => false end.

Definition model (c : rcase) : robs :=
  let '(r, evs) := traced_run (c_client c) (c_per c) (jit_of (c_jitter c)) (c_tracers c) (c_supplied c) (c_script c) in
  {| o_sends := r_sends r; o_sleeps := r_sleeps r; o_final := r_final r; o_events := evs |}.
Definition robs_eqb (a b : robs) : bool :=
  Nat.eqb (o_sends a) (o_sends b) && qlist_eqb (o_sleeps a) (o_sleeps b) && oattempt_eqb (o_final a) (o_final b)
  && list_eqb' tev_eqb (o_events a) (o_events b).
Definition mismatch (c : rcase) : bool := negb (robs_eqb (model c) (c_obs c)).

(* ---------- C09, judged on the observation with the CLOSED forms of the backoffs ---------- *)
Definition spec_delay (b : backoff) (jit : nat -> Q) (k : nat) : Q :=
  match b with
  | Periodic _ interval => interval + jit k
  | Exponential _ base factor mx => cap mx (base * Qpower factor (Z.of_nat k) + jit k)
  | Fibonacci _ mult mx => cap mx (inject_Z (fib (k + 2)) * mult + jit k)
  end%Q.

Definition ok09 (c : rcase) : bool :=
  let o := c_obs c in
  let script := c_script c in
  let jit := jit_of (c_jitter c) in
  match effective (c_client c) (c_per c) with
  | None =>
      (* no strategy: exactly one send, no pause, the outcome of that send *)
      Nat.eqb (o_sends o) 1 && qlist_eqb (o_sleeps o) [] && oattempt_eqb (o_final o) (nth_error script 0)
  | Some s =>
      let n := attempts_of (s_backoff s) in
      let k := (o_sends o - 1)%nat in
      Nat.leb 1 (o_sends o) && Nat.leb (o_sends o) (n + 1)                                      (* at most n+1 sends *)
      && forallb (fun i => match nth_error script i with Some a => retryable s a | None => false end) (seq 0 k)
                                                                                                 (* re-sent only after a listed outcome *)
      && (if Nat.ltb k n then match nth_error script k with Some a => negb (retryable s a) | None => false end else true)
                                                                                                 (* ... and always while attempts remain *)
      && qlist_eqb (o_sleeps o) (map (spec_delay (s_backoff s) jit) (seq 0 k))                  (* the successive delays, none before / after *)
      && oattempt_eqb (o_final o) (nth_error script k)                                          (* the last outcome, unchanged *)
  end.

(* ---------- C19 ---------- *)
Definition bracket (tracers : nat) (c : tctx) (a : attempt) : list tev :=
  map (fun t => TBegin t c) (seq 0 tracers)
  ++ map (fun t => match a_kind a with KResp _ => TEnd t c (Some (a_tag a)) | KNone => TEnd t c None | KExc _ => TError t c (a_tag a) end)
         (seq 0 tracers).
Definition count (p : tev -> bool) (l : list tev) : nat := List.length (filter p l).
Definition ok19 (c : rcase) : bool :=
  let o := c_obs c in
  let sent := firstn (o_sends o) (c_script c) in
  list_eqb' tev_eqb (o_events o)
    (List.concat (map (fun ia => bracket (c_tracers c) (if c_supplied c then CtxCaller else CtxFresh (fst ia)) (snd ia))
                      (combine (seq 0 (List.length sent)) sent)))
  && forallb (fun t => Nat.eqb (count (is_begin t) (o_events o)) (count (is_done t) (o_events o))) (seq 0 (c_tracers c))
  (* what reaches the caller is the outcome of the LAST attempt the tracers saw - the very exception object, unchanged *)
  && oattempt_eqb (o_final o) (nth_error (c_script c) (o_sends o - 1)).
