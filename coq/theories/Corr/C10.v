(* C10: the real AsyncDispatcher under a controlled scheduler (every suspension point is a Future the harness resolves in an
   enumerated order) against Model/Async.v, with each element's segments and response taken from a run of that element ALONE. *)
From Coq Require Import ZArith List String Ascii Bool Arith.
Open Scope string_scope.
From PJ Require Import Base.Json Base.Res Model.Async.
Import ListNotations.

Record case := {
  elems : list (list (list json) * option json);     (* per element: its segments and its response when dispatched alone *)
  registered : list bool;                             (* per element: its method is a registered one its arguments bind to (so its body must run) *)
  sequential : bool;                                  (* concurrent_batch = False *)
  choices : list nat;                                 (* the order in which the harness resolved the pending suspension points *)
  obs_doc : option json;                              (* the response array (None: nothing returned) *)
  obs_trace : list (nat * json) }.

Definition slots (c : case) : list (slot json (option json)) :=
  map (fun e => Run {| segs := fst e; res := snd e |}) (elems c).
Definition schedule (c : case) : list nat :=
  if sequential c then seq_schedule 0 (slots c) else seq 0 (List.length (elems c)) ++ choices c.
Definition model (c : case) : option json * list (nat * json) * bool :=
  let '(st', t) := run (schedule c) (slots c) in
  (match cat_some (map slot_final st') with [] => None | l => Some (JArr l) end, t, finished st').

Definition trace_eqb (a b : list (nat * json)) : bool :=
  list_eqb (fun x y => Nat.eqb (fst x) (fst y) && json_equiv (snd x) (snd y)) a b.
Definition mismatch (c : case) : bool :=
  let '(d, t, fin) := model c in
  negb (option_eqb json_equiv d (obs_doc c) && trace_eqb t (obs_trace c) && fin).

(* the property, from the alone-runs only *)
Fixpoint sorted_idx (l : list nat) : bool :=
  match l with a :: ((b :: _) as r) => Nat.leb a b && sorted_idx r | _ => true end.
Definition is_call_event (e : json) : bool := match e with JArr (JStr "call" :: _) => true | _ => false end.
Definition ok (c : case) : bool :=
  let alone := cat_some (map snd (elems c)) in
  (* every (registered) method has run exactly once, no other has run *)
  forallb (fun kb : nat * bool => Nat.eqb (List.length (filter is_call_event (proj (fst kb) (obs_trace c)))) (if snd kb then 1 else 0))
          (combine (seq 0 (List.length (registered c))) (registered c)) &&
  option_eqb json_equiv (obs_doc c) (match alone with [] => None | l => Some (JArr l) end)         (* request order, own id/result *)
  && forallb (fun ie => list_eqb json_equiv (proj (fst ie) (obs_trace c)) (List.concat (fst (snd ie))))
             (combine (seq 0 (List.length (elems c))) (elems c))                                    (* own trace, exactly once *)
  && (if sequential c then sorted_idx (map fst (obs_trace c)) else true).                          (* never two in flight *)
Definition nontrivial (c : case) : bool := Nat.ltb 1 (List.length (elems c)) && negb (Nat.eqb (List.length (choices c)) 0).
Definition check (c : case) : nat := verdict (mismatch c) (negb (ok c)) (nontrivial c) 0.
Definition run (cs : list case) : list nat := map check cs.
Definition show (c : case) := model c.
