(* C14: dispatch through validated methods against Model/Validators.v; js_valid against the jsonschema package. *)
From Coq Require Import ZArith List String Ascii Bool.
From PJ Require Import Base.Json Base.Res Model.Bind Model.Validators Corr.DispCommon.
Import ListNotations.
Open Scope string_scope. Open Scope list_scope.

Inductive robs :=
| ORan (env : json)                 (* the body ran with these arguments (and returned them) *)
| OInvalid (data_is_json : bool)    (* -32602, body not run; the data member is present and JSON *)
| OOther (code : Z).

Inductive case :=
| CSchema (s : sig) (cm : ctxmode) (xs : list string) (ctx : json) (sc : schema) (p : pparams)
          (js_says : option bool)   (* the jsonschema package's verdict on the bound mapping (None: the arguments did not bind) *)
          (obs : robs)
| CTyped (s : sig) (cm : ctxmode) (xs : list string) (ctx : json) (o : verdicts) (coerce : bool) (p : pparams) (obs : robs).
(* xs: the names the validator's exclusion predicate selects ([] = no predicate) *)

Definition render (i : invoke) : robs :=
  match i with InvRan e => ORan (env_json e) | InvInvalid => OInvalid true | InvCallFail => OOther (-32000) end.
Definition robs_eqb (a b : robs) : bool :=
  match a, b with
  | ORan x, ORan y => json_equiv x y
  | OInvalid x, OInvalid y => Bool.eqb x y
  | OOther x, OOther y => Z.eqb x y
  | _, _ => false end.

(* excluded parameters: never settable by the client, and the body sees its own default for them *)
Definition env_slot (n : string) (e : json) : option json :=
  match e with
  | JArr l => (fix go (l : list json) : option json :=
                 match l with
                 | [] => None
                 | JArr [JStr k; v] :: r => if String.eqb k n then Some v else go r
                 | _ :: r => go r end) l
  | _ => None end.
Definition excl_ok (xs : list string) (p : pparams) (obs : robs) : bool :=
  match obs with
  | ORan e => forallb (fun n => match env_slot n e with Some (JStr "<default>") => true | _ => false end) xs
              && match p with PKw d => negb (existsb (fun n => has n d) xs) | PPos _ => true end
  | _ => true end.

Definition check (c : case) : nat :=
  match c with
  | CSchema s cm xs ctx sc p js obs =>
      let bound := validate_bind (excluded_sig_x s cm xs) p in
      let mine := match bound with Some kw => Some (js_valid sc (JObj kw)) | None => None end in
      (* model vs implementation, and the evaluator vs the jsonschema package *)
      let mism := negb (robs_eqb (render (invoke_js_x s cm xs ctx sc p)) obs) || negb (option_eqb Bool.eqb mine js) in
      (* the property: executed iff binds and conforms (conformance as judged by the jsonschema package), arguments unchanged *)
      let ok := match js, obs with
                | Some true, ORan e => robs_eqb (render (invoke_base_x s cm xs ctx p)) obs
                | Some false, OInvalid true | None, OInvalid true => true
                | _, _ => false end && excl_ok xs p obs in
      verdict mism (negb ok) (match obs with ORan _ => true | _ => false end) 0
  | CTyped s cm xs ctx o coerce p obs =>
      let mism := negb (robs_eqb (render (invoke_pyd_x s cm xs ctx o coerce p)) obs) in
      let bound := validate_bind (excluded_sig_x s cm xs) p in
      let ok := match bound with
                | None => match obs with OInvalid true => true | _ => false end
                | Some kw =>
                    match apply_verdicts o kw, obs with
                    | None, OInvalid true => true
                    | Some kw', ORan e => robs_eqb (render (call_with s cm ctx (if coerce then kw' else kw))) obs
                    | _, _ => false end
                end && excl_ok xs p obs in
      verdict mism (negb ok) (match obs with ORan _ => true | _ => false end) 0
  end.
Definition run (cs : list case) : list nat := map check cs.
Definition show (c : case) :=
  match c with
  | CSchema s cm xs ctx sc p _ _ => render (invoke_js_x s cm xs ctx sc p)
  | CTyped s cm xs ctx o coerce p _ => render (invoke_pyd_x s cm xs ctx o coerce p) end.
