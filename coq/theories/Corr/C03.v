(* C03: correspondence + property predicate; definitions in Corr/DispOk.v *)
From Coq Require Import ZArith List String Ascii Bool.
From PJ Require Import Base.Json Base.Res Model.Msg Model.Bind Model.Dispatch Corr.DispCommon Corr.DispOk.
Definition case := dcase.
Definition run := run03.
Definition show := DispCommon.show.
