(* C16: really generated OpenAPI 3.0 / 3.1 and OpenRPC documents against Model/Spec.v (keys, documented error codes per method,
   the user's lists) and the property judged on the documents' skeletons; JSON-encodability and meta-schema validity are test flags. *)
From Coq Require Import ZArith List String Ascii Bool.
From PJ Require Import Base.Json Base.Res Model.Spec.
Import ListNotations.
Open Scope string_scope. Open Scope list_scope.

Record gen_obs := {
  g_keys : list string;                                  (* path keys / OpenRPC method names, in document order *)
  g_entries : list (string * (list Z * list string));    (* per key: documented error codes (closure of the entry), direct references (component names) *)
  g_names : list (string * string);                      (* per key: the method name its request schema documents (const of `method`) *)
  g_params : list (string * list string);                (* per key: the parameter names its request schema / params list documents *)
  g_tokens : list (string * list string);                (* per key: the marker tokens (of docstrings, tags, summaries, descriptions) found in the entry and the components it reaches *)
  g_components : list string;                            (* component keys *)
  g_all_refs : list string;                              (* every reference of the document *)
  g_digest : string;                                     (* digest of the whole document *)
  g_json_ok : bool; g_meta_ok : bool }.                  (* tests: json.dumps succeeded; validates against the official meta-schema *)
Record case := {
  is_rpc : bool; oas30 : bool; global_prefix : string; heap_before : heap; methods : list smethod;
  own_params : list (string * list string);              (* per key: the function's own parameter names (pydantic-first stacks) *)
  tokens : list (string * (list string * list string));  (* per key: the tokens of the method's own docstring and annotations (may occur), of its annotations (must occur) *)
  gens : list gen_obs; heaps_after : list heap }.        (* one observation and one heap snapshot per generation *)

Definition zset_eqb (a b : list Z) : bool := forallb (fun x => existsb (Z.eqb x) b) a && forallb (fun x => existsb (Z.eqb x) a) b.
Definition heap_eqb (a b : heap) : bool := list_eqb (list_eqb Z.eqb) a b.
Definition model_entries (c : case) : list (string * entry) :=
  if is_rpc c then fst (generate_rpc (heap_before c) (methods c)) else d_paths (fst (generate (global_prefix c) (heap_before c) (methods c))).
Definition mismatch (c : case) : bool :=
  let me := model_entries c in
  negb (forallb (fun g =>
          list_eqb String.eqb (g_keys g) (map fst me)
          && forallb (fun ke => match get (fst ke) (g_entries g) with
                                | Some (codes, _) => zset_eqb codes (en_errors (snd ke)) | None => false end) me) (gens c)
        && forallb (fun h => heap_eqb h (heap_before c)) (heaps_after c)).

(* the property, on the documents themselves *)
Fixpoint nodup_str (l : list string) : bool := match l with [] => true | x :: r => negb (mem_str x r) && nodup_str r end.
Definition own_codes (c : case) (m : smethod) : list Z :=
  (match sm_ann_errors m with Some i => nth i (heap_before c) [] | None => [] end) ++ sm_ext_errors m.
(* known finding F20: the names of the components generated for a method are derived from its NAME (and its component prefix)
   only, so two different functions exposed under one name at two endpoints with the same effective prefix share - and overwrite -
   each other's components *)
Definition name_part (k : string) : string := match index 0 "#" k with Some i => substring (S i) (String.length k) k | None => k end.
Definition collides (c : case) (k : string) : bool :=
  existsb (fun m => negb (String.eqb (sm_key m) k) && String.eqb (name_part (sm_key m)) (name_part k)
                    && existsb (fun m' => String.eqb (sm_key m') k
                                          && String.eqb (own_prefix (global_prefix c) m') (own_prefix (global_prefix c) m)) (methods c))
          (methods c).
Definition ok_gen (skip : string -> bool) (c : case) : bool :=
  forallb (fun g =>
     (* complete: every registered method exactly once under its key *)
     nodup_str (g_keys g) && forallb (fun m => mem_str (sm_key m) (g_keys g)) (methods c)
     && Nat.eqb (List.length (g_keys g)) (List.length (methods c))
     (* ... and under its own exposed name: the request schema of an entry names the method of that entry *)
     && forallb (fun kn => let k := fst kn in
                           String.eqb (snd kn) (match index 0 "#" k with Some i => substring (S i) (String.length k) k | None => k end)) (g_names g)
     (* ... with its own parameters, not those of another function exposed under the same name elsewhere *)
     && forallb (fun kp => skip (fst kp) ||
                           match get (fst kp) (g_params g) with
                           | Some ps => forallb (fun x => mem_str x (snd kp)) ps && forallb (fun x => mem_str x ps) (snd kp)
                           | None => false end) (own_params c)
     (* ... with its own texts: tags, summary and description it was annotated with, and no text written for anything else *)
     && forallb (fun kt => skip (fst kt) ||
                           match get (fst kt) (g_tokens g) with
                           | Some found => forallb (fun x => mem_str x (fst (snd kt))) found && forallb (fun x => mem_str x found) (snd (snd kt))
                           | None => false end) (tokens c)
     (* closed: no dangling reference *)
     && forallb (fun r => mem_str r (g_components g)) (g_all_refs g)
     (* isolated: a method documents its own errors only and refers to components under its own prefix only *)
     && forallb (fun m => match get (sm_key m) (g_entries g) with
                          | Some (codes, refs) => zset_eqb codes (own_codes c m)
                                                  && forallb (fun r => is_prefix (own_prefix (global_prefix c) m) r) refs
                          | None => false end) (methods c)
     (* JSON-encodable (test) *)
     && g_json_ok g) (gens c)
  (* pure: the user's lists are untouched and every generation yields the identical document *)
  && forallb (fun h => heap_eqb h (heap_before c)) (heaps_after c)
  && match gens c with [] => true | g0 :: rest => forallb (fun g => String.eqb (g_digest g) (g_digest g0)) rest end.
Definition ok (c : case) : bool := ok_gen (fun _ => false) c.
Definition ok_mod (c : case) : bool := ok_gen (collides c) c.
(* validates against the official meta-schema (test) *)
Definition meta_valid (c : case) : bool := forallb g_meta_ok (gens c).
(* known finding F18: with openapi='3.0.x' the documents use JSON-Schema keywords (const ...) the OAS 3.0 meta-schema forbids *)
Definition check (c : case) : nat :=
  let bad := negb (ok c && meta_valid c) in
  (* known: only the meta-schema of OpenAPI 3.0 fails (F18 = 1); only parameter lists of colliding same-named methods are wrong
     (F20 = 2, possibly together with F18); anything else is a violation *)
  let cls := if bad && ok_mod c && (meta_valid c || oas30 c) then (if ok c then 1 else 2) else 0 in
  verdict (mismatch c) bad (Nat.ltb 1 (List.length (methods c))) cls.
Definition run (cs : list case) : list nat := map check cs.
Definition show (c : case) := map (fun ke => (fst ke, en_errors (snd ke))) (model_entries c).
