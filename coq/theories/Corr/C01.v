(* C01: every request text is answered by nothing or by a well-formed JSON-RPC 2.0 response document
   whose error codes agree with the codes returned alongside. *)
From Coq Require Import ZArith List String Ascii Bool.
From PJ Require Import Base.Json Base.Res Model.Msg Model.Bind Model.Dispatch Corr.DispCommon.
Import ListNotations.
Open Scope string_scope. Open Scope list_scope.

(* the property's proviso on middlewares: a fabricated response does not carry an id of its own *)
Definition mw_ids_ok (d : dconfig) : bool :=
  forallb (fun m => match m with MwConst (Some r) => match resp_id r with None => true | Some _ => false end | _ => true end)
          (dc_mws d).

Definition ok (c : dcase) : bool :=
  let '(d, l, ctx, (out, evs)) := c in
  match l with
  | LRaise _ => true                       (* outside the loader contract (ValueError subclasses or success) *)
  | _ =>
    if negb (mw_ids_ok d) then true else
    match out with
    | Raise _ => false                     (* the dispatcher never raises *)
    | Ok None => true
    | Ok (Some (doc, codes)) => wf_response_doc doc && list_eqb Z.eqb codes (codes_of_doc doc)
    end
  end.

Definition nontrivial (c : dcase) : bool :=
  let '(d, l, ctx, _) := c in
  match l with LOk (JObj _) | LOk (JArr (_ :: _)) => true | _ => false end.

Definition check (c : dcase) : nat := verdict (mismatch c) (negb (ok c)) (nontrivial c) 0.
Definition run (cs : list dcase) : list nat := map check cs.
Definition show := DispCommon.show.
