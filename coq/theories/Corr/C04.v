(* C04: two correspondences - (1) Bind.py_call against the real interpreter, (2) pjrpc's dispatch of a request to a
   generated method against Model.Dispatch - and the property predicate: what ran is what a direct call binds. *)
From Coq Require Import ZArith List String Ascii Bool.
From PJ Require Import Base.Json Base.Res Model.Msg Model.Bind Model.Dispatch Generated.Consts Corr.DispCommon Corr.DispOk.
Import ListNotations.
Open Scope string_scope. Open Scope list_scope.

Inductive case :=
| CPy (s : sig) (pos : list json) (kw : list (string * json)) (obs : option json)    (* env rendering, None = TypeError *)
| CDisp (c : dcase).

Definition model_py (s : sig) (pos : list json) (kw : list (string * json)) : option json :=
  option_map env_json (py_call s pos kw).

(* the property on a dispatched request to the generated method (the only method of the configuration) *)
Definition ok_disp (c : dcase) : bool :=
  let '(d, l, ctx, (out, evs)) := c in
  match l with
  | LOk v =>
      match req_of v with
      | Some r =>
          match find_method d (r_method r), r_id r with
          | Some m, Some _ =>
              match expected_call d ctx r, out with
              | [call], Ok (Some (doc, _)) =>
                  (* the body ran once with exactly the direct-call environment and its return value is the result *)
                  list_eqb json_equiv (calls_of evs) [call]
                  && match md_body m with
                     | BExc _ =>
                         (* ... a body that itself fails (with whatever exception type, TypeError included) was still accepted and
                            run: the answer is the server error, never "invalid params" *)
                         match obj_get "error" doc with Some e => has_code ServerError_code ServerError_message e | None => false end
                     | _ =>
                         match obj_get "result" doc, call with
                         | Some res, JArr [_; _; envj] => json_equiv res envj
                         | _, _ => false end
                     end
              | [], Ok (Some (doc, _)) =>
                  (* a direct call could not bind: -32602 and the body did not run *)
                  match obj_get "error" doc with Some e => has_code InvalidParamsError_code InvalidParamsError_message e | None => false end
                  && match calls_of evs with [] => true | _ => false end
              | _, _ => false end
          | _, _ => true end
      | None => true end
  | _ => true end.

Definition sig_of_case (c : dcase) : sig :=
  let '(d, _, _, _) := c in match dc_methods d with m :: _ => md_sig m | [] => [] end.
(* known finding F5: the signature the CLIENT addresses (a context parameter passed positionally is not part of it) has a
   variadic or positional-only parameter *)
Definition client_sig (c : dcase) : sig :=
  let '(d, _, _, _) := c in
  match dc_methods d with
  | m :: _ => match md_ctx m with CtxPositional n => sig_exclude n (md_sig m) | _ => md_sig m end
  | [] => [] end.
Definition known_class (c : dcase) : nat := if simple_sig (client_sig c) then 0 else 1.

Definition check (c : case) : nat :=
  match c with
  | CPy s pos kw obs =>
      let bad := negb (option_eqb json_equiv (model_py s pos kw) obs) in
      verdict bad false (match obs with Some _ => true | None => false end) 0
  | CDisp dc =>
      let bad := negb (ok_disp dc) in
      verdict (mismatch dc) bad (let '(_, _, _, (_, evs)) := dc in match evs with [] => false | _ => true end)
              (if bad then known_class dc else 0)
  end.
Definition run (cs : list case) : list nat := map check cs.
Definition show (c : case) :=
  match c with
  | CPy s pos kw _ => (model_py s pos kw, None)
  | CDisp dc => (None, Some (DispCommon.show dc))
  end.
