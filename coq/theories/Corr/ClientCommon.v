(* Shared by the client properties (C07 C08 C09 C19 C11): JSON renderings of what the harness observes. *)
From Coq Require Import ZArith List String Ascii Bool.
From PJ Require Import Base.Json Base.Res Model.Msg Model.Client Generated.Consts.
Import ListNotations.
Open Scope string_scope. Open Scope list_scope.

Definition show_error (e : rpc_error) : json :=
  JObj ([("code", JInt (e_code e)); ("message", JStr (e_msg e))]
        ++ match e_data e with Some d => [("data", d)] | None => [] end
        ++ [("class", JStr (e_class e))]).
Definition show_request (r : request) : json :=
  JObj [("method", JStr (r_method r)); ("params", params_json (r_params r)); ("id", id_json (r_id r))].
Definition show_response (r : response) : json :=
  match r with
  | RResult i v => JObj [("id", id_json i); ("result", v)]
  | RError i e => JObj [("id", id_json i); ("error", show_error e)]
  end.

Definition cexn_eqb (a b : cexn) : bool :=
  match a, b with
  | CX x, CX y => exn_eqb x y
  | CDecode, CDecode => true
  | CRpc e, CRpc f => json_equiv (show_error e) (show_error f)
  | _, _ => false end.
Definition cres_eqb {A} (eqb : A -> A -> bool) (a b : cres A) : bool :=
  match a, b with COk x, COk y => eqb x y | CRaise x, CRaise y => cexn_eqb x y | _, _ => false end.
Definition show_cres (c : cres json) : json :=
  match c with
  | COk v => JObj [("ok", v)]
  | CRaise (CRpc e) => JObj [("raise", show_error e)]
  | CRaise CDecode => JObj [("raise", JStr "JSONDecodeError")]
  | CRaise (CX _) => JObj [("raise", JStr "exception")]
  end.
