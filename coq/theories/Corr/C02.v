(* C02: correspondence + property predicate; definitions in Corr/DispOk.v *)
From Coq Require Import ZArith List String Ascii Bool.
From PJ Require Import Base.Json Base.Res Model.Msg Model.Bind Model.Dispatch Corr.DispCommon Corr.DispOk.
Definition case := c02case.
Definition run := run02.
Definition show := show02.
