(* C17: the parameter names / required list read out of really generated OpenAPI and OpenRPC documents, and the dispatcher's
   verdict on every params object over subsets of (documented + one undocumented + the context name). *)
From Coq Require Import ZArith List String Ascii Bool.
From PJ Require Import Base.Json Base.Res Model.Bind Lemmas.BindL.
Import ListNotations.

Record case := {
  csig : sig;                         (* the method's parameters (for a view method: without self) *)
  cexcl : list string;                (* the injected parameters (context by name) *)
  doc_names : list (list string * list string);     (* (properties, required) read from each generated document *)
  probes : list (list (string * json) * bool) }.    (* params object, refused with -32602? *)

Definition strs_eqb := list_eqb String.eqb.
Definition same_set (a b : list string) : bool := forallb (fun x => mem_str x b) a && forallb (fun x => mem_str x a) b.
Definition model_doc (c : case) : list string * list string := (documented_names (csig c) (cexcl c), documented_required (csig c) (cexcl c)).
Definition bind_sig (c : case) : sig := filter (fun p => negb (mem_str (pname p) (cexcl c))) (csig c).
Definition model_refused (c : case) (d : list (string * json)) : bool :=
  match sig_bind_kw (bind_sig c) d with Some _ => false | None => true end.
Definition mismatch (c : case) : bool :=
  negb (forallb (fun dn => same_set (fst dn) (fst (model_doc c)) && same_set (snd dn) (snd (model_doc c))) (doc_names c)
        && forallb (fun pr => Bool.eqb (model_refused c (fst pr)) (snd pr)) (probes c)).

(* the property, from the documents alone: refused iff the object leaves the published names or misses a required one *)
Definition follows (names req : list string) (d : list (string * json)) : bool :=
  forallb (fun k => mem_str k names) (keys d) && forallb (fun r => mem_str r (keys d)) req.
Definition ok (c : case) : bool :=
  forallb (fun dn => forallb (fun pr => Bool.eqb (negb (follows (fst dn) (snd dn) (fst pr))) (snd pr)) (probes c)) (doc_names c)
  && forallb (fun dn => negb (existsb (fun x => mem_str x (fst dn)) (cexcl c))) (doc_names c).
Definition check (c : case) : nat := verdict (mismatch c) (negb (ok c)) (match csig c with [] => false | _ => true end) 0.
Definition run (cs : list case) : list nat := map check cs.
Definition show (c : case) := (model_doc c, map (fun pr => model_refused c (fst pr)) (probes c)).
