(* C08: correspondence of Model.Client's receive path with client.send / batch.send, and the property predicate
   judged on what the implementation returned, written against the body document - not against the relate functions. *)
From Coq Require Import ZArith List String Ascii Bool.
From PJ Require Import Base.Json Base.Res Model.Msg Model.Client Generated.Consts Corr.ClientCommon.
Import ListNotations.
Open Scope string_scope. Open Scope list_scope.

Inductive case :=
| CSingle (strict : bool) (base : string) (q : request) (b : body) (obs : cres json)
| CBatch (strict : bool) (base : string) (qs : list request) (b : body) (obs : cres json).

(* observation of an accepted single response: the response, the id of the request it is linked to, and .result *)
Definition model_single strict base q b : cres json :=
  match recv_single strict base q b with
  | COk (Some r) => COk (JObj [("resp", show_response r); ("related", show_request q); ("result", show_cres (result_single r))])
  | COk None => COk JNull
  | CRaise x => CRaise x end.
Definition find_req (i : option idv) (qs : list request) : json :=
  match i with
  | None => JNull
  | Some k => match find (fun q => option_eqb id_eqb (r_id q) (Some k)) qs with Some q => show_request q | None => JNull end
  end.
Definition model_batch strict base qs b : cres json :=
  match build_batch (GSeq 0 0) (BnSend qs) with
  | Raise x => CRaise (CX x)
  | Ok bq =>
    match recv_batch strict base bq b with
    (* "via_call": what batch.add(...)...call() hands out for the same requests and the same body - the .result of the response *)
    | COk (Some (BError e)) => COk (JObj [("error", show_error e); ("result", show_cres (CRaise (CRpc e)));
                                          ("via_call", show_cres (CRaise (CRpc e)))])
    | COk (Some (BList bl)) =>
        let res := show_cres (match results (b_items bl) with COk l => COk (JArr l) | CRaise x => CRaise x end) in
        COk (JObj [("resps", JArr (map show_response (b_items bl)));
                   ("related", JArr (map (fun r => find_req (resp_id r) qs) (b_items bl)));
                   ("result", res); ("via_call", res)])
    | COk None => COk JNull
    | CRaise x => CRaise x end
  end.

(* ---------- the property, from the body document ---------- *)
Definition obj_get (k : string) (j : json) : option json := match j with JObj kvs => get k kvs | _ => None end.
Definition doc_err (j : json) : json :=      (* the error member with the class recomputed from the code *)
  match obj_get "error" j with
  | Some (JObj kvs) => match get "code" kvs with
                       | Some (JInt c) => JObj (kvs ++ [("class", JStr (class_of error_registry "JsonRpcError" c))])
                       | _ => JNull end
  | _ => JNull end.
Definition same_error (shown : json) (j : json) (base : string) : bool :=
  (* code, message and data of the raised error are those of the body's error member; class by code, else base *)
  match obj_get "error" j, shown with
  | Some (JObj kvs), JObj sk =>
      option_eqb json_equiv (get "code" sk) (get "code" kvs) && option_eqb json_equiv (get "message" sk) (get "message" kvs)
      && option_eqb json_equiv (get "data" sk) (get "data" kvs)
      && match get "code" kvs, get "class" sk with
         | Some (JInt c), Some (JStr cl) => String.eqb cl (class_of error_registry base c)
         | _, _ => false end
  | _, _ => false end.
Definition expect_result (doc : json) (base : string) (shown : json) : bool :=
  (* shown = {"ok": v} or {"raise": error} must be what the document says *)
  match obj_get "result" doc, obj_get "error" doc with
  | Some v, None => match obj_get "ok" shown with Some w => json_equiv v w | None => false end
  | None, Some _ => match obj_get "raise" shown with Some e => same_error e doc base | None => false end
  | _, _ => false end.

Definition raised (obs : cres json) (x : exn) : bool := match obs with CRaise (CX y) => exn_eqb x y | _ => false end.

Definition ok_single strict base (q : request) (b : body) (obs : cres json) : bool :=
  match r_id q, b with
  | Some i, BJson j =>
      if negb (valid_response_json j) then raised obs XDeser
      else
        let accepted :=
          match obs with
          | COk o => match obj_get "result" o with Some s => expect_result j base s | None => false end
                     && option_eqb json_equiv (obj_get "related" o) (Some (show_request q))
          | CRaise _ => false end in
        match doc_id j with
        | Some k => if strict && negb (id_eqb k i) then raised obs XIdentity else accepted
        | None => accepted
        end
  | _, _ => true
  end.

(* batches *)
Definition ids_of_docs (l : list json) : list idv := cat_some (map doc_id l).
Definition same_set (a b : list idv) : bool := forallb (fun i => mem_id i b) a && forallb (fun i => mem_id i a) b.
Definition find_doc (i : idv) (l : list json) : option json :=
  find (fun d => match doc_id d with Some k => id_eqb k i | None => false end) l.
Definition call_ids (qs : list request) : list idv := cat_some (map r_id qs).
Definition all_notifications (qs : list request) : bool := forallb (fun q => match r_id q with None => true | Some _ => false end) qs.

(* the tuple the caller must get: the result of every call in CALL order (then the null-id leftovers in array order),
   or the first error met in that order *)
Fixpoint expected_results (docs : list json) : option (list json) + json :=
  match docs with
  | [] => inl (Some [])
  | d :: q =>
      match obj_get "result" d, obj_get "error" d with
      | Some v, None => match expected_results q with inl (Some l) => inl (Some (v :: l)) | other => other end
      | None, Some _ => inr d
      | _, _ => inl None
      end
  end.

Definition ok_batch strict base (qs : list request) (b : body) (obs : cres json) : bool :=
  if all_notifications qs || negb (nodup_ids [] (map r_id qs)) then true else     (* duplicate request ids: the batch cannot even be built *)
  match b with
  | BJson (JArr l) =>
      if negb (forallb valid_response_json l) then raised obs XDeser
      else if negb (nodup_ids [] (map doc_id l)) then raised obs XIdentity
      else if strict && negb (same_set (call_ids qs) (ids_of_docs l)) then raised obs XIdentity
      else if negb strict then
        (* lenient mode: foreign / missing responses are tolerated, but the answers that ARE linked to calls still come first and
           in the order the calls were made *)
        match obs with
        | COk o =>
            match obj_get "resps" o with
            | Some (JArr rs) =>
                let linked := cat_some (map (fun i => find_doc i l) (call_ids qs)) in
                list_eqb json_eqb (firstn (List.length linked) (map (fun r => match obj_get "id" r with Some x => x | None => JNull end) rs))
                                  (map (fun d => match obj_get "id" d with Some x => x | None => JNull end) linked)
            | _ => true end
        | CRaise _ => true end
      else
        match obs with
        | COk o =>
            let in_order := cat_some (map (fun i => find_doc i l) (call_ids qs))
                            ++ filter (fun d => match doc_id d with None => true | Some _ => false end) l in
            (* responses come back in call order, each linked to its call *)
            match obj_get "resps" o, obj_get "related" o with
            | Some (JArr rs), Some (JArr rel) =>
                list_eqb json_eqb (map (fun r => match obj_get "id" r with Some x => x | None => JNull end) rs)
                                  (map (fun d => match obj_get "id" d with Some x => x | None => JNull end) in_order)
                && list_eqb json_equiv (firstn (List.length (call_ids qs)) rel)
                                       (map show_request (filter (fun q => match r_id q with Some _ => true | None => false end) qs))
            | _, _ => false end
            && match obj_get "result" o, expected_results in_order with
               | Some s, inl (Some vs) => match obj_get "ok" s with Some (JArr ws) => list_eqb json_equiv vs ws | _ => false end
               | Some s, inr d => match obj_get "raise" s with Some e => same_error e d "JsonRpcError" | None => false end
               | _, _ => false end
        | CRaise _ => false end
  | BJson (JObj kvs) =>
      if valid_bresp_json (JObj kvs)
      then match obs with
           | COk o => match obj_get "result" o with
                      | Some s => match obj_get "raise" s with Some e => same_error e (JObj kvs) base | None => false end
                      | None => false end
           | CRaise _ => false end
      else raised obs XDeser
  | BJson _ => raised obs XDeser
  | _ => true
  end.

(* results read through batch.call() are the results read from the response object *)
Definition via_call_ok (obs : cres json) : bool :=
  match obs with
  | COk o => match obj_get "result" o, obj_get "via_call" o with
             | Some a, Some b => json_equiv a b
             | None, None => true
             | _, _ => false end
  | CRaise _ => true end.

Definition check (c : case) : nat :=
  match c with
  | CSingle strict base q b obs =>
      verdict (negb (cres_eqb json_equiv (model_single strict base q b) obs)) (negb (ok_single strict base q b obs))
              (match b with BJson (JObj _) => true | _ => false end) 0
  | CBatch strict base qs b obs =>
      verdict (negb (cres_eqb json_equiv (model_batch strict base qs b) obs)) (negb (ok_batch strict base qs b obs && via_call_ok obs))
              (match b with BJson (JArr (_ :: _)) => true | _ => false end) 0
  end.
Definition run (cs : list case) : list nat := map check cs.
Definition show (c : case) :=
  match c with
  | CSingle strict base q b _ => model_single strict base q b
  | CBatch strict base qs b _ => model_batch strict base qs b
  end.
