(* C18: requests posted through the frameworks' own test clients against Model/Http.v. *)
From Coq Require Import ZArith List String Ascii Bool.
From PJ Require Import Base.Json Base.Res Generated.Consts Model.Msg Model.Dispatch Model.Http.
Import ListNotations.
Open Scope string_scope. Open Scope list_scope.

Record obs := { o_status : Z; o_ctype : option string; o_body : option json; o_calls : nat }.
Record case := {
  integ : integration; sfn : status_fn; header : option string;
  bdy : body;                     (* what the dispatcher (run by the harness on the decoded text, independently) returns; or undecodable *)
  expected_calls : nat;           (* how many methods that independent dispatch executed *)
  observed : obs }.

Definition model (c : case) : reply := handle (integ c) (sfn c) (header c) (bdy c).
Definition ostr_eqb := option_eqb String.eqb.
Definition mismatch (c : case) : bool :=
  let r := model c in let o := observed c in
  negb (Z.eqb (r_status r) (o_status o)
        && (match r_body r with Some _ => ostr_eqb (r_ctype r) (o_ctype o) | None => true end)
        && option_eqb json_equiv (r_body r) (o_body o)
        && Nat.eqb (if r_dispatched r then expected_calls c else 0) (o_calls o)).

(* the property, stated directly: documented media type -> the dispatcher's verdict; anything else -> 415 and nothing runs *)
Definition ok (c : case) : bool :=
  let o := observed c in
  if accepted_type (header c) then
    match bdy c with
    | BUndecodable => Z.eqb (o_status o) 400 && Nat.eqb (o_calls o) 0
    | BText None => Z.eqb (o_status o) 200 && match o_body o with None => true | Some _ => false end && Nat.eqb (o_calls o) (expected_calls c)
    | BText (Some (doc, codes)) =>
        (* the error tuple of a response document has one entry per answered call, 0 for a success (theorem C01_wf) *)
        list_eqb Z.eqb codes (codes_of_doc doc)
        && Z.eqb (o_status o) (status_of (effective_status (integ c) (sfn c)) (codes_of_doc doc))
        && ostr_eqb (o_ctype o) (Some default_content_type)
        && option_eqb json_equiv (o_body o) (Some doc) && Nat.eqb (o_calls o) (expected_calls c)
    end
  else Z.eqb (o_status o) 415 && Nat.eqb (o_calls o) 0.
Definition check (c : case) : nat := verdict (mismatch c) (negb (ok c)) (accepted_type (header c)) 0.
Definition run (cs : list case) : list nat := map check cs.
Definition show (c : case) := model c.
