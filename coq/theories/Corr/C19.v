From Coq Require Import ZArith QArith List Bool.
From PJ Require Import Base.Res Model.Retry Corr.RetryCommon.
Definition case := rcase.
Definition nontrivial (c : rcase) : bool := match o_events (c_obs c) with nil => false | _ => true end.
Definition check (c : rcase) : nat := verdict (mismatch c) (negb (ok19 c)) (nontrivial c) 0.
Definition run (cs : list rcase) : list nat := map check cs.
Definition show (c : rcase) := model c.
