(* Property predicates for the dispatcher properties C02 C03 C12, judged on what the IMPLEMENTATION did.
   They are written against the declarative grammar of Model/Msg.v, the language-level binding
   specification Bind.direct_call and the configuration descriptors - not against Model.Dispatch.dispatch -
   so that a failure of the property is told apart from a mere model/implementation difference. *)
From Coq Require Import ZArith List String Ascii Bool.
From PJ Require Import Base.Json Base.Res Model.Msg Model.Bind Model.Dispatch Generated.Consts Corr.DispCommon.
Import ListNotations.
Open Scope string_scope. Open Scope list_scope.

(* ---------- shared helpers ---------- *)
Definition find_method (d : dconfig) (name : string) : option mdesc :=
  (* later registration wins *)
  fold_left (fun acc m => if String.eqb (md_name m) name then Some m else acc) (dc_methods d) None.

Definition accepted (d : dconfig) (elems : list json) : bool :=
  match elems with
  | [] => false
  | _ => forallb valid_request_json elems && nodup_ids [] (map doc_id elems)
         && negb (too_large (dc_max_batch d) (List.length elems))
  end.

Definition obj_get (k : string) (j : json) : option json := match j with JObj kvs => get k kvs | _ => None end.
Definition is_error_reply (code : Z) (j : json) : bool :=     (* {"jsonrpc":"2.0","id":null,"error":{"code":code,...}} *)
  match obj_get "id" j, obj_get "error" j with
  | Some JNull, Some e => match obj_get "code" e with Some (JInt c) => Z.eqb c code | _ => false end
  | _, _ => false end.
Definition out_is_error_reply (code : Z) (o : dout) : bool :=
  match o with Ok (Some (doc, codes)) => is_error_reply code doc && list_eqb Z.eqb codes [code] | _ => false end.

Definition req_of (v : json) : option request := match req_from_json v with Ok r => Some r | Raise _ => None end.

(* the call a request is expected to cause, by the language's own binding rules *)
Definition expected_call (d : dconfig) (ctx : json) (r : request) : list json :=
  match find_method d (r_method r) with
  | None => []
  | Some m =>
      if bind_fails m then [] else
      match direct_call (md_sig m) (md_ctx m) ctx (to_pparams (r_params r)) with
      | None => []
      | Some e => let e' := match md_ctx m with CtxView true => ("<ctx>", Given ctx) :: e | _ => e end in
                  [JArr [JStr "call"; JStr (md_log m); env_json e']]
      end
  end.
Definition binds (d : dconfig) (ctx : json) (r : request) : bool :=
  match expected_call d ctx r with [] => false | _ => true end.

(* ---------- C02 ---------- *)
Definition collect_obs (outs : list dobs) : dobs :=
  let docs := cat_some (map (fun o => match fst o with Ok (Some (d, _)) => Some d | _ => None end) outs) in
  let codes := List.concat (map (fun o => match fst o with Ok (Some (_, c)) => c | _ => [] end) outs) in
  (Ok (match docs with [] => None | _ => Some (JArr docs, codes) end), List.concat (map snd outs)).

(* a single VALID request: answered iff it carries an id, with the identical id; exactly the expected execution *)
Definition ok02_single (d : dconfig) (ctx : json) (v : json) (o : dobs) : bool :=
  match req_of v with
  | None => true
  | Some r =>
      (match r_id r, fst o with
       | None, Ok None => true
       | Some i, Ok (Some (doc, _)) => match obj_get "id" doc with Some j => json_eqb j (id_json (Some i)) | None => false end
       | _, _ => false end)
      && list_eqb json_equiv (calls_of (snd o)) (expected_call d ctx r)
  end.

Definition c02case := (dcase * list dobs)%type.
Definition ok02 (c : c02case) : bool :=
  let '((d, l, ctx, o), elem_obs) := c in
  match dc_mws d, dc_ehs d with
  | [], [] =>
    match l with
    | LOk (JArr elems) =>
        if accepted d elems
        then Nat.eqb (List.length elem_obs) (List.length elems)
             && dobs_eqb o (collect_obs elem_obs)
             && forallb (fun eo => ok02_single d ctx (fst eo) (snd eo)) (combine elems elem_obs)
        else out_is_error_reply InvalidRequestError_code (fst o) && match snd o with [] => true | _ => false end
    | LOk v => ok02_single d ctx v o
    | _ => true
    end
  | _, _ => true
  end.
Definition nontrivial02 (c : c02case) : bool :=
  let '((d, l, ctx, o), _) := c in
  match l with LOk (JArr elems) => accepted d elems | LOk v => valid_request_json v | _ => false end.
Definition check02 (c : c02case) : nat := verdict (mismatch (fst c)) (negb (ok02 c)) (nontrivial02 c) 0.
Definition run02 (cs : list c02case) : list nat := map check02 cs.

(* ---------- C03 ---------- *)
Definition MARKERS : list string :=
  ["S3CR3T"; "ValueError"; "KeyError"; "TypeError"; "AssertionError"; "RuntimeError"; "MyCustomError"; "Traceback"; "harness"].
Definition leak_free (doc : json) : bool := negb (existsb (fun m => json_mentions m doc) MARKERS).

Definition error_obj (code : Z) (msg : string) (data : option json) : json :=
  JObj ([("code", JInt code); ("message", JStr msg)] ++ match data with Some x => [("data", x)] | None => [] end).
Definition has_code (code : Z) (msg : string) (e : json) : bool :=
  match obj_get "code" e, obj_get "message" e with
  | Some (JInt c), Some (JStr m) => Z.eqb c code && String.eqb m msg | _, _ => false end.

(* what one valid request WITH an id must be answered with; [resp] is its response object *)
Definition judge03 (d : dconfig) (ctx : json) (r : request) (resp : json) : bool :=
  match find_method d (r_method r) with
  | None => match obj_get "error" resp with Some e => has_code MethodNotFoundError_code MethodNotFoundError_message e | None => false end
  | Some m =>
      if bind_fails m then
        (* an unexpected failure before the body: -32603, opaque *)
        match obj_get "error" resp with
        | Some e => json_equiv e (error_obj InternalError_code InternalError_message None) | None => false end
        && leak_free resp
      else
      if negb (binds d ctx r) then
        match obj_get "error" resp with
        | Some e => has_code InvalidParamsError_code InvalidParamsError_message e
                    && match obj_get "data" e with Some _ => true | None => false end
        | None => false end
      else
        match md_body m with
        | BRpc c msg data =>
            match obj_get "error" resp with Some e => json_equiv e (error_obj c msg data) | None => false end
        | BExc _ =>
            match obj_get "error" resp with
            | Some e => json_equiv e (error_obj ServerError_code ServerError_message None) | None => false end
            && leak_free resp
        | BRpcArgs =>
            (* the error raised is determined by THIS call's arguments, whatever the same method raised before *)
            match rmethod_of m ctx (r_params r), obj_get "error" resp with
            | MRan _ (ORpc x), Some e => json_equiv e (error_obj (e_code x) (e_msg x) (e_data x))
            | _, _ => false end
        | BBindFail => false
        | BRet v => match obj_get "result" resp, obj_get "error" resp with Some x, None => json_equiv x v | _, _ => false end
        | BEnv => match obj_get "result" resp, obj_get "error" resp with Some _, None => true | _, _ => false end
        end
  end.
(* the bodies that ran are exactly those of the elements whose method exists and whose parameters bind, once each,
   in request order - in particular nothing runs for an element answered -32601 / -32602 *)
Definition calls_ok (d : dconfig) (ctx : json) (elems : list json) (evs : list json) : bool :=
  list_eqb json_equiv (calls_of evs)
           (List.concat (map (fun e => match req_of e with Some r => expected_call d ctx r | None => [] end) elems)).

Definition find_resp (i : idv) (docs : list json) : option json :=
  find (fun dj => match obj_get "id" dj with Some j => json_eqb j (id_json (Some i)) | None => false end) docs.

Definition ok03 (c : dcase) : bool :=
  let '(d, l, ctx, (out, evs)) := c in
  match dc_mws d, dc_ehs d with
  | [], [] =>
    match l with
    | LDecodeError | LValueError => out_is_error_reply ParseError_code out && match evs with [] => true | _ => false end
    | LRaise _ => true
    | LOk (JArr elems) =>
        if accepted d elems then
          calls_ok d ctx elems evs &&
          match out with
          | Ok None => forallb (fun e => match doc_id e with None => true | Some _ => false end) elems
          | Ok (Some (JArr docs, _)) =>
              Nat.eqb (List.length docs) (List.length (cat_some (map doc_id elems)))
              && forallb (fun e => match req_of e with
                                   | Some r => match r_id r with
                                               | Some i => match find_resp i docs with
                                                           | Some resp => judge03 d ctx r resp
                                                           | None => false end
                                               | None => true end
                                   | None => false end) elems
          | _ => false end
        else out_is_error_reply InvalidRequestError_code out && match evs with [] => true | _ => false end
    | LOk v =>
        match req_of v with
        | None => out_is_error_reply InvalidRequestError_code out && match evs with [] => true | _ => false end
        | Some r =>
            calls_ok d ctx [v] evs &&
            match r_id r, out with
            | Some _, Ok (Some (doc, _)) => judge03 d ctx r doc
            | None, Ok None => true
            | _, _ => false end
        end
    end
  | _, _ => true
  end.
Definition nontrivial03 (c : dcase) : bool :=
  let '(d, l, ctx, (out, evs)) := c in
  match out with
  | Ok (Some (doc, codes)) => existsb (fun z => negb (Z.eqb z 0)) codes
  | _ => match l with LOk _ => true | _ => false end end.
Definition check03 (c : dcase) : nat := verdict (mismatch c) (negb (ok03 c)) (nontrivial03 c) 0.
Definition run03 (cs : list dcase) : list nat := map check03 cs.

(* ---------- C12 ---------- *)
(* One element's trace must parse as  Enter 0 .. Enter j  inner*  Exit j .. Exit 0  with the requests threaded
   through the declared rewrites, inner events present only when all middlewares passed the request on. *)
Definition rewrite_of (m : mwdesc) (r : json) : json :=       (* on the JSON rendering {"method","params","id"} *)
  match m, r with
  | MwRename a b, JObj kvs =>
      match get "method" kvs with
      | Some (JStr n) => if String.eqb n a then JObj (set "method" (JStr b) kvs) else r
      | _ => r end
  | MwSetParams p, JObj kvs => JObj (set "params" (params_json p) kvs)
  | _, _ => r
  end.
Definition short_circuits (m : mwdesc) : bool := match m with MwShort _ | MwConst _ => true | _ => false end.

Definition ev_enter (e : json) : option (Z * json) :=
  match e with JArr [JStr "enter"; JInt i; r] => Some (i, r) | _ => None end.
Definition ev_exit (e : json) : option (Z * json) :=
  match e with JArr [JStr "exit"; JInt i; r] => Some (i, r) | _ => None end.
Definition ev_eh (e : json) : option (json * Z * json) :=
  match e with JArr [JStr "eh"; k; JInt i; err] => Some (k, i, err) | _ => None end.

(* consume the enters: returns (depth reached, request seen by the innermost, remaining events) *)
Fixpoint take_enters (mws : list mwdesc) (i : Z) (r : json) (evs : list json) : option (Z * json * list json) :=
  match mws with
  | [] => Some (i, r, evs)
  | m :: q =>
      match evs with
      | e :: rest =>
          match ev_enter e with
          | Some (k, r') =>
              if Z.eqb k i && json_equiv r' r then
                if short_circuits m then Some ((i + 1)%Z, r, rest) else take_enters q (i + 1)%Z (rewrite_of m r) rest
              else None
          | None => None
          end
      | [] => None
      end
  end.
(* consume exits depth-1 .. 0 from the END of the list; returns the payload of Exit 0 (if any) *)
Fixpoint take_exits (n : nat) (i : Z) (evs : list json) : option (option json * list json) :=
  match n with
  | O => Some (None, evs)
  | S n' =>
      match evs with
      | e :: rest =>
          match ev_exit e with
          | Some (k, payload) =>
              if Z.eqb k i then
                match take_exits n' (i - 1)%Z rest with
                | Some (last, rest') => Some (Some (match last with Some p => p | None => payload end), rest')
                | None => None end
              else None
          | None => None end
      | [] => None end
  end.

Definition eh_apply (h : ehdesc) (e : json) : json :=
  match h with
  | EhId => e
  | EhSetData v => match e with JObj kvs => JObj (set "data" v kvs) | _ => e end
  | EhReplace c m => error_obj c m None
  end.
Definition key_json (k : option Z) : json := match k with None => JNull | Some c => JInt c end.
Fixpoint ehs_of (k : option Z) (t : list (option Z * list ehdesc)) : list ehdesc :=
  match t with [] => [] | (k', hs) :: q => if option_eqb Z.eqb k k' then hs else ehs_of k q end.
(* the handler events of one failing request: generic list then the list of the RAISED code, each fed the previous output *)
Fixpoint check_ehs (key : option Z) (i : Z) (hs : list ehdesc) (cur : json) (evs : list json) : option (json * list json) :=
  match hs with
  | [] => Some (cur, evs)
  | h :: q =>
      match evs with
      | e :: rest =>
          match ev_eh e with
          | Some (k, idx, err) =>
              if json_eqb k (key_json key) && Z.eqb idx i && json_equiv err cur
              then check_ehs key (i + 1)%Z q (eh_apply h cur) rest else None
          | None => None end
      | [] => None end
  end.

Definition is_inner (e : json) : bool := ev_is "call" e || ev_is "eh" e.
Definition code_of_err (e : json) : option Z := match obj_get "code" e with Some (JInt c) => Some c | _ => None end.

(* the inner handler's part of the trace: [call]? then the handler events; returns the error finally sent (if failing) *)
Definition check_inner (d : dconfig) (inner : list json) : option (option json) :=
  let after_call := match inner with e :: rest => if ev_is "call" e then rest else inner | [] => [] end in
  match after_call with
  | [] => Some None                      (* success, or failure with no handlers configured *)
  | e :: _ =>
      match ev_eh e with
      | Some (_, _, raised) =>
          match check_ehs None 0 (ehs_of None (dc_ehs d)) raised after_call with
          | Some (cur, rest) =>
              match code_of_err raised with
              | Some c => match check_ehs (Some c) 0 (ehs_of (Some c) (dc_ehs d)) cur rest with
                          | Some (final, []) => Some (Some final)
                          | _ => None end
              | None => None end
          | None => None end
      | None => None end
  end.

(* the code of the error handling this request raises, by the configuration's own reading (None: it succeeds) *)
Definition expected_raise (d : dconfig) (ctx : json) (r : request) : option Z :=
  match find_method d (r_method r) with
  | None => Some MethodNotFoundError_code
  | Some m =>
      if bind_fails m then Some InternalError_code
      else if negb (binds d ctx r) then Some InvalidParamsError_code
      else match rmethod_of m ctx (r_params r) with
           | MRan _ (ORpc x) => Some (e_code x)
           | MRan _ (OExc _) => Some ServerError_code
           | _ => None end
  end.
(* when handling fails and handlers are configured for it, they do run (first event: a generic handler, else one of the raised code) *)
Definition handlers_ran (d : dconfig) (ctx : json) (r : request) (inner : list json) : bool :=
  match expected_raise d ctx r with
  | None => true
  | Some c =>
      match ehs_of None (dc_ehs d), ehs_of (Some c) (dc_ehs d) with
      | [], [] => true
      | _, _ =>
          match filter (ev_is "eh") inner with
          | e :: _ => match ev_eh e with
                      | Some (_, _, raised) => option_eqb Z.eqb (code_of_err raised) (Some c)
                      | None => false end
          | [] => false end
      end
  end.

Definition ok12_element (d : dconfig) (ctx : json) (v : json) (o : dobs) : bool :=
  match req_of v with
  | None => true
  | Some r =>
      let evs := snd o in
      let n := List.length (dc_mws d) in
      match take_enters (dc_mws d) 0 (show_req r) evs with
      | None => false
      | Some (depth, r_in, rest) =>
          let inner := filter is_inner rest in
          let tail := filter (fun e => negb (is_inner e)) rest in
          (* inner events come before every exit *)
          list_eqb json_eqb rest (inner ++ tail)
          && match take_exits (Z.to_nat depth) (depth - 1)%Z tail with
             | Some (outer, []) =>
                 (* what the outermost middleware returned is what is sent *)
                 (match outer, fst o with
                  | Some JNull, Ok None => true
                  | Some p, Ok (Some (doc, _)) => json_equiv p doc
                  | None, _ => true
                  | _, _ => false end)
                 && (if Z.ltb depth (Z.of_nat n) then match inner with [] => true | _ => false end
                     else
                       (* the rewrites of this configuration's middlewares leave the method and arguments of the judged
                          request alone only when there are none; judge "handlers ran" where the inner request is the original *)
                       (if json_equiv r_in (show_req r) && negb (existsb short_circuits (dc_mws d)) then handlers_ran d ctx r inner else true) &&
                       match check_inner d inner with
                       | Some None => true
                       | Some (Some final) =>
                           (* the error sent by the inner handler is the last handler's output *)
                           match n, fst o, r_id r with
                           | O, Ok (Some (doc, _)), Some _ => match obj_get "error" doc with Some e => json_equiv e final | None => false end
                           | _, _, _ => true end
                       | None => false end)
             | _ => false end
      end
  end.

(* handlers run only for failing requests: a successful inner call logs no handler event *)
Definition ok12_success_silent (d : dconfig) (o : dobs) : bool :=
  match dc_mws d, fst o with
  | [], Ok (Some (doc, _)) =>
      match obj_get "result" doc with Some _ => negb (existsb (ev_is "eh") (snd o)) | None => true end
  | _, _ => true end.

Definition ok12 (c : c02case) : bool :=
  let '((d, l, ctx, o), elem_obs) := c in
  match l with
  | LOk (JArr elems) =>
      if accepted d elems
      then Nat.eqb (List.length elem_obs) (List.length elems)
           && list_eqb json_equiv (snd o) (List.concat (map snd elem_obs))      (* each element once, in request order *)
           && dout_eqb (fst o) (fst (collect_obs elem_obs))                     (* what the chains returned is what is sent *)
           && forallb (fun eo => ok12_element d ctx (fst eo) (snd eo) && ok12_success_silent d (snd eo)) (combine elems elem_obs)
      else match snd o with [] => true | _ => false end                         (* rejected before dispatch: nothing runs *)
  | LOk v => match req_of v with
             | Some _ => ok12_element d ctx v o && ok12_success_silent d o
             | None => match snd o with [] => true | _ => false end end
  | _ => match snd o with [] => true | _ => false end
  end.
Definition nontrivial12 (c : c02case) : bool :=
  let '((d, l, ctx, o), _) := c in
  match snd o with [] => false | _ => true end.
Definition check12 (c : c02case) : nat := verdict (mismatch (fst c)) (negb (ok12 c)) (nontrivial12 c) 0.
Definition run12 (cs : list c02case) : list nat := map check12 cs.

Definition show02 (c : c02case) := DispCommon.show (fst c).
