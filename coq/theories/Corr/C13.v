(* C13: (a) the response to a probe after a history on the same dispatcher vs the response on a fresh dispatcher, and - for the
   standard configuration - vs the stateless dispatcher model; (b) growth of the memo tables and liveness of per-request
   context objects after N dispatches. *)
From Coq Require Import ZArith List String Ascii Bool Arith.
From PJ Require Import Base.Json Base.Res Model.Msg Model.Bind Model.Dispatch Model.Cache Corr.DispCommon.
Import ListNotations.

Inductive case :=
| CHistStd (c : dcase) (fresh : dout)           (* c: the probe with what was observed AFTER the history; fresh: on a new dispatcher *)
| CHist (after fresh : option json)             (* other configurations (validators, views, twin registrations): relational only *)
| CMem (keys : list ckey) (growth alive : nat)  (* keys asked for by the N dispatches; observed table growth; contexts still alive *)
| CThreads (sequential threaded : list (option json)).   (* the same corpus served sequentially and from a thread pool *)

Definition distinct_keys (ks : list ckey) : nat := List.length (snd (memo_all (fun k => k) [] ks)).
Definition ojson_eqb := option_eqb json_equiv.

Definition check (c : case) : nat :=
  match c with
  | CHistStd dc fresh =>
      let '(_, _, _, (out, _)) := dc in
      verdict (DispCommon.mismatch dc) (negb (dout_eqb out fresh)) true 0
  | CHist after fresh => verdict false (negb (ojson_eqb after fresh)) true 0
  | CMem keys growth alive =>
      verdict (negb (Nat.eqb growth (distinct_keys keys))) (negb (Nat.leb growth (distinct_keys keys) && Nat.eqb alive 0)) true 0
  | CThreads a b => verdict false (negb (list_eqb ojson_eqb a b)) true 0
  end.
Definition run (cs : list case) : list nat := map check cs.
Definition show (c : case) :=
  match c with
  | CHistStd dc _ => (Some (DispCommon.show dc), None)
  | CMem keys _ _ => (None, Some (distinct_keys keys))
  | _ => (None, None) end.
