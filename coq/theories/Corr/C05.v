(* Correspondence + property predicate for C05 (messages survive the wire). *)
From Coq Require Import ZArith List String Ascii Bool.
From PJ Require Import Base.Json Base.Res Model.Msg Generated.Consts Corr.C06.
Import ListNotations.
Open Scope string_scope.

(* how the harness constructs messages through the public constructors *)
Definition edesc := (string * option Z * option string * option json)%type.   (* cls(code, message, data) *)
Definition rdesc := (option idv * (json + edesc))%type.                        (* Response(id, result | error) *)
Inductive msg :=
| MReq (r : request) | MErr (e : edesc) | MResp (r : rdesc)
| MBReq (l : list request) | MBResp (l : list rdesc) | MBRespErr (e : edesc).

Definition build_err (e : edesc) : res rpc_error :=
  let '(cls, c, m, d) := e in new_error error_messages cls c m d.
Definition build_resp (r : rdesc) : res response :=
  match snd r with
  | inl v => Ok (RResult (fst r) v)
  | inr e => do e' <- build_err e ; Ok (RError (fst r) e')
  end.

Inductive obs :=
| OConstructFail (x : exn)
| ODecodeFail (wire : json) (enc_same : bool) (x : exn)
| OFull (wire : json) (enc_same : bool) (fields : json) (wire2 : json).

Definition full (w : json) (d : res (json * json)) : obs :=
  match d with Ok (f, w2) => OFull w true f w2 | Raise x => ODecodeFail w true x end.

Definition model (base : string) (m : msg) : obs :=
  let rg := error_registry in
  match m with
  | MReq r => full (req_to_json r) (do r' <- req_from_json (req_to_json r) ; Ok (show_request r', req_to_json r'))
  | MErr e => match build_err e with Raise x => OConstructFail x | Ok e' =>
      full (err_to_json e') (do e2 <- err_from_json rg base (err_to_json e') ; Ok (show_error e2, err_to_json e2)) end
  | MResp r => match build_resp r with Raise x => OConstructFail x | Ok r' =>
      full (resp_to_json r') (do r2 <- resp_from_json rg base (resp_to_json r') ; Ok (show_response r2, resp_to_json r2)) end
  | MBReq l => match breq_extend batch_empty l with Raise x => OConstructFail x | Ok b =>
      full (breq_to_json b) (do b2 <- breq_from_json (breq_to_json b) ;
                             Ok (JArr (map show_request (b_items b2)), breq_to_json b2)) end
  | MBResp l => match mapM build_resp l with Raise x => OConstructFail x | Ok rs =>
      match batch_extend resp_id batch_empty rs with Raise x => OConstructFail x | Ok b =>
      full (bresp_to_json (BList b)) (do b2 <- bresp_from_json rg base (bresp_to_json (BList b)) ;
                                      Ok (show_bresp b2, bresp_to_json b2)) end end
  | MBRespErr e => match build_err e with Raise x => OConstructFail x | Ok e' =>
      full (bresp_to_json (BError e')) (do b2 <- bresp_from_json rg base (bresp_to_json (BError e')) ;
                                        Ok (show_bresp b2, bresp_to_json b2)) end
  end.

Definition obs_eqb (a b : obs) : bool :=
  match a, b with
  | OConstructFail x, OConstructFail y => exn_eqb x y
  | ODecodeFail w s x, ODecodeFail w' s' x' => json_equiv w w' && Bool.eqb s s' && exn_eqb x x'
  | OFull w s f w2, OFull w' s' f' w2' => json_equiv w w' && Bool.eqb s s' && json_equiv f f' && json_equiv w2 w2'
  | _, _ => false end.

(* ---- the property, judged on the implementation's observation, written against the constructor
        arguments (not against the model's deserialisers) ---- *)
Definition exp_err_fields (base : string) (e : rpc_error) : json :=
  show_error (reclass_err error_registry base e).
Definition exp_resp_fields (base : string) (r : response) : json :=
  match r with
  | RResult i v => JObj [("id", id_json i); ("result", v)]
  | RError i e => JObj [("id", id_json i); ("error", exp_err_fields base e)]
  end.
Definition exp_req_fields (r : request) : json :=
  JObj [("method", JStr (r_method r));
        ("params", if params_truthy (r_params r) then params_json (r_params r) else JArr []);
        ("id", id_json (r_id r))].

(* constructible: what the property quantifies over (non-empty request batches, distinct ids) *)
Definition ok (base : string) (m : msg) (o : obs) : bool :=
  match o with
  | OFull w same f w2 =>
      same && json_equiv w2 w &&
      match m with
      | MReq r => json_equiv w (req_to_json r) && json_equiv f (exp_req_fields r)
      | MErr e => match build_err e with Ok e' => json_equiv w (err_to_json e') && json_equiv f (exp_err_fields base e') | _ => false end
      | MResp r => match build_resp r with Ok r' => json_equiv w (resp_to_json r') && json_equiv f (exp_resp_fields base r') | _ => false end
      | MBReq l => json_equiv w (JArr (map req_to_json l)) && json_equiv f (JArr (map exp_req_fields l))
      | MBResp l => match mapM build_resp l with
                    | Ok rs => json_equiv w (JArr (map resp_to_json rs)) && json_equiv f (JArr (map (exp_resp_fields "JsonRpcError") rs))
                    | _ => false end
      | MBRespErr e => match build_err e with
                       | Ok e' => json_equiv w (resp_to_json (RError None e')) && json_equiv f (JObj [("error", exp_err_fields base e')])
                       | _ => false end
      end
  | ODecodeFail _ _ _ => match m with MBReq [] => true | _ => false end     (* the empty request batch is outside C05 (C06 forbids it) *)
  | OConstructFail _ => match model base m with OConstructFail _ => true | _ => false end   (* not a constructible message *)
  end.

Definition case := (string * msg * obs)%type.
Definition nontrivial (m : msg) : bool :=
  match m with
  | MReq r => params_truthy (r_params r) || match r_id r with Some _ => true | None => false end
  | MBReq (_ :: _) | MBResp (_ :: _) => true
  | MErr _ | MResp _ | MBRespErr _ => true
  | _ => false end.
Definition check (c : case) : nat :=
  let '(base, m, o) := c in
  verdict (negb (obs_eqb (model base m) o)) (negb (ok base m o)) (nontrivial m) 0.
Definition run (cs : list case) : list nat := map check cs.
Definition show (c : case) := let '(base, m, _) := c in model base m.
