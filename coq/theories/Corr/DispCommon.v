(* Shared by the dispatcher properties (C01 C02 C03 C04 C11 C12 ...): configuration descriptors the harness
   can realise as real Python objects, their interpretation as a Model.Dispatch.config, and the JSON
   rendering of observations. *)
From Coq Require Import ZArith List String Ascii Bool.
From PJ Require Import Base.Json Base.Res Model.Msg Model.Bind Model.Dispatch Generated.Consts.
Import ListNotations.
Open Scope string_scope. Open Scope list_scope.

Inductive behaviour :=
| BEnv                                   (* returns its bound arguments *)
| BRet (v : json)
| BRpc (code : Z) (msg : string) (data : option json)    (* raises JsonRpcError(code, msg, data) *)
| BExc (tag : nat)                       (* raises some other exception carrying a marker *)
| BBindFail                              (* never reached: binding itself fails with an unexpected exception (a view whose constructor
                                            raises) - the catch-all of _handle_request answers -32603 Internal error *)
| BRpcArgs.                              (* sets code / message / data of ONE long-lived error object from its arguments and raises it *)
Record mdesc := { md_name : string; md_sig : sig; md_ctx : ctxmode; md_body : behaviour;
                  md_log : string }.     (* the name the instrumented body writes into the log: its own, or a shared label when ONE
                                            function object is registered under several names *)

Inductive mwdesc :=
| MwPass
| MwShort (v : json)                     (* answers Response(id=request.id, result=v) (nothing for a notification) *)
| MwConst (r : option response)          (* answers a fixed response whatever the request *)
| MwRename (from to : string)            (* passes Request(to, params, id) on when method = from *)
| MwSetParams (p : params)               (* passes Request(method, p, id) on *)
| MwWrap (v : json).                     (* rewrites a successful result r into [v, r] *)
Inductive ehdesc := EhId | EhSetData (d : json) | EhReplace (code : Z) (msg : string).

Record dconfig := {
  dc_methods : list mdesc;
  dc_mws : list mwdesc;
  dc_ehs : list (option Z * list ehdesc);
  dc_max_batch : option Z }.

Definition slot_json (s : slotv) : json :=
  match s with Given v => v | Default => JStr "<default>" | Star l => JArr l | StarStar kvs => JObj kvs end.
Definition env_json (e : env) : json := JArr (map (fun ns => JArr [JStr (fst ns); slot_json (snd ns)]) e).

Definition to_pparams (p : params) : pparams :=
  match p with PNone => PPos [] | PList l => PPos l | PDict d => PKw d end.

(* the protocol error a BRpcArgs body raises: its fields are the call's own arguments *)
Definition args_error (e : env) : option rpc_error :=
  match get "code" e, get "message" e with
  | Some (Given (JInt c)), Some (Given (JStr m)) =>
      Some {| e_code := c; e_msg := m; e_data := match get "data" e with Some (Given v) => Some v | _ => None end;
              e_class := "JsonRpcError" |}
  | _, _ => None end.
Definition body_of (b : behaviour) (e : env) : outcome :=
  match b with
  | BRpcArgs => match args_error e with Some err => ORpc err | None => OExc 99 end
  | BBindFail => OExc 98
  | BEnv => ORet (env_json e)
  | BRet v => ORet v
  | BRpc c m d => ORpc {| e_code := c; e_msg := m; e_data := d; e_class := "JsonRpcError" |}
  | BExc t => OExc t
  end.

Definition bind_fails (m : mdesc) : bool := match md_body m with BBindFail => true | _ => false end.
Definition rmethod_of (m : mdesc) : rmethod := fun ctx p =>
  if bind_fails m then MInternal else
  match method_invoke (md_sig m) (md_ctx m) ctx (to_pparams p) with
  | InvInvalid => MInvalid (JArr [TEXT])
  | InvCallFail => MCallFail
  | InvRan e =>
      let e' := match md_ctx m with CtxView true => ("<ctx>", Given ctx) :: e | _ => e end in
      MRan e' (body_of (md_body m) e')
  end.

Definition mw_of (d : mwdesc) : middleware :=
  match d with
  | MwPass => {| mw_pre := fun r _ => inl r; mw_post := fun _ _ x => x |}
  | MwShort v => {| mw_pre := fun r _ => inr (match r_id r with None => None | Some _ => Some (RResult (r_id r) v) end);
                    mw_post := fun _ _ x => x |}
  | MwConst resp => {| mw_pre := fun _ _ => inr resp; mw_post := fun _ _ x => x |}
  | MwRename a b => {| mw_pre := fun r _ => inl (if String.eqb (r_method r) a
                                               then {| r_method := b; r_params := r_params r; r_id := r_id r |} else r);
                       mw_post := fun _ _ x => x |}
  | MwSetParams p => {| mw_pre := fun r _ => inl {| r_method := r_method r; r_params := p; r_id := r_id r |};
                        mw_post := fun _ _ x => x |}
  | MwWrap v => {| mw_pre := fun r _ => inl r;
                   mw_post := fun _ _ x => match x with Some (RResult i w) => Some (RResult i (JArr [v; w])) | _ => x end |}
  end.

Definition eh_of (d : ehdesc) : ehandler :=
  match d with
  | EhId => fun _ _ e => e
  | EhSetData v => fun _ _ e => {| e_code := e_code e; e_msg := e_msg e; e_data := Some v; e_class := e_class e |}
  | EhReplace c m => fun _ _ e => {| e_code := c; e_msg := m; e_data := None; e_class := "JsonRpcError" |}
  end.

(* later registration under the same name wins: dict assignment *)
Definition mk_registry (ms : list mdesc) : list (string * rmethod) :=
  fold_left (fun acc m => set (md_name m) (rmethod_of m) acc) ms [].

Definition mk_config (d : dconfig) : config :=
  {| c_registry := mk_registry (dc_methods d);
     c_mws := map mw_of (dc_mws d);
     c_ehs := map (fun kv => (fst kv, map eh_of (snd kv))) (dc_ehs d);
     c_max_batch := dc_max_batch d |}.

(* ---- observations as JSON ---- *)
Definition show_err (e : rpc_error) : json := err_to_json e.
Definition show_req (r : request) : json :=
  JObj [("method", JStr (r_method r)); ("params", params_json (r_params r)); ("id", id_json (r_id r))].
Definition show_oresp (r : option response) : json := match r with None => JNull | Some x => resp_to_json x end.
Definition show_event (e : event) : json :=
  match e with
  | EvCall n a => JArr [JStr "call"; JStr n; env_json a]
  | EvMwEnter i r => JArr [JStr "enter"; JInt (Z.of_nat i); show_req r]
  | EvMwExit i r => JArr [JStr "exit"; JInt (Z.of_nat i); show_oresp r]
  | EvEh k i e => JArr [JStr "eh"; match k with None => JNull | Some c => JInt c end; JInt (Z.of_nat i); show_err e]
  end.

Definition dout := res (option (json * list Z)).
Definition dout_eqb (a b : dout) : bool :=
  res_eqb (option_eqb (fun x y => json_equiv (fst x) (fst y) && list_eqb Z.eqb (snd x) (snd y))) a b.
Definition dobs := (dout * list json)%type.
(* the instrumented bodies log [md_log] of the descriptor registered (last) under the requested name *)
Definition log_name (d : dconfig) (n : string) : string :=
  match fold_left (fun acc m => if String.eqb (md_name m) n then Some m else acc) (dc_methods d) None with
  | Some m => md_log m | None => n end.
Definition show_event_d (d : dconfig) (e : event) : json :=
  match e with EvCall n a => JArr [JStr "call"; JStr (log_name d n); env_json a] | _ => show_event e end.
Definition model_obs (d : dconfig) (l : load_result) (ctx : json) : dobs :=
  let '(o, lg) := dispatch (mk_config d) l ctx in (o, map (show_event_d d) lg).
Definition dobs_eqb (a b : dobs) : bool :=
  dout_eqb (fst a) (fst b) && list_eqb json_equiv (snd a) (snd b).

Definition dcase := (dconfig * load_result * json * dobs)%type.
Definition mismatch (c : dcase) : bool :=
  let '(d, l, ctx, o) := c in negb (dobs_eqb (model_obs d l ctx) o).
Definition show (c : dcase) : dobs := let '(d, l, ctx, _) := c in model_obs d l ctx.

(* events of an observation *)
Definition ev_is (tag : string) (e : json) : bool :=
  match e with JArr (JStr t :: _) => String.eqb t tag | _ => false end.
Definition calls_of (evs : list json) : list json := filter (ev_is "call") evs.
