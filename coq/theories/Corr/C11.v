(* C11: paired execution - the synchronous and the asynchronous half are driven on the same case; each is compared with
   the (single) model and the two observations with each other. *)
From Coq Require Import ZArith QArith List String Ascii Bool.
From PJ Require Import Base.Json Base.Res Model.Msg Model.Client Model.Retry
     Corr.DispCommon Corr.ClientCommon Corr.RetryCommon Corr.C07 Corr.C08.
Import ListNotations.

Inductive case :=
| PDisp (c : dcase) (other : dobs) (raw_same : bool)   (* c carries the observation of the sync half, other that of the async half;
                                                          raw_same: the two documents agree to the letter, library texts included *)
| PRetry (c : rcase) (other : robs)
| PSeven (c : C07.case) (other : c7obs)
| PEight (c : C08.case) (other : cres json)
| PRaw (a b : json).       (* situations no model covers (user-supplied hooks that raise): what the two halves did, compared with each other only *)

Definition with_dobs (c : dcase) (o : dobs) : dcase := let '(d, l, ctx, _) := c in (d, l, ctx, o).
Definition with_robs (c : rcase) (o : robs) : rcase :=
  {| c_client := c_client c; c_per := c_per c; c_jitter := c_jitter c; c_tracers := c_tracers c; c_supplied := c_supplied c;
     c_script := c_script c; c_obs := o |}.
Definition seven_obs (c : C07.case) : c7obs := match c with C7Single _ _ _ _ _ o | C7Batch _ _ _ _ _ o => o end.
Definition seven_model (c : C07.case) : c7obs :=
  match c with C7Single d ctx s g n _ => C07.model_single d ctx s g n | C7Batch d ctx s g n _ => C07.model_batch d ctx s g n end.
Definition eight_obs (c : C08.case) : cres json := match c with CSingle _ _ _ _ o | CBatch _ _ _ _ o => o end.
Definition eight_model (c : C08.case) : cres json :=
  match c with CSingle s b q bd _ => C08.model_single s b q bd | CBatch s b qs bd _ => C08.model_batch s b qs bd end.

Definition check (c : case) : nat :=
  match c with
  | PDisp dc other raw_same =>
      verdict (DispCommon.mismatch dc || DispCommon.mismatch (with_dobs dc other))
              (negb (dobs_eqb (let '(_, _, _, o) := dc in o) other && raw_same)) true 0
  | PRetry rc other =>
      verdict (RetryCommon.mismatch rc || RetryCommon.mismatch (with_robs rc other)) (negb (robs_eqb (c_obs rc) other)) true 0
  | PSeven sc other =>
      verdict (negb (c7obs_eqb (seven_model sc) (seven_obs sc)) || negb (c7obs_eqb (seven_model sc) other))
              (negb (c7obs_eqb (seven_obs sc) other)) true 0
  | PEight ec other =>
      verdict (negb (cres_eqb json_equiv (eight_model ec) (eight_obs ec)) || negb (cres_eqb json_equiv (eight_model ec) other))
              (negb (cres_eqb json_equiv (eight_obs ec) other)) true 0
  | PRaw a b => verdict false (negb (json_equiv a b)) true 0
  end.
Definition run (cs : list case) : list nat := map check cs.
Definition show (c : case) :=
  match c with
  | PDisp dc _ _ => (Some (DispCommon.show dc), None, None, None)
  | PRetry rc _ => (None, Some (RetryCommon.model rc), None, None)
  | PSeven sc _ => (None, None, Some (seven_model sc), None)
  | PEight ec _ => (None, None, None, Some (eight_model ec))
  | PRaw _ _ => (None, None, None, None)
  end.
