(* C07: a real pjrpc client connected to a real pjrpc dispatcher (loop-back transport) against
   Model.EndToEnd, and the property predicate: what the caller gets is what a direct invocation gives. *)
From Coq Require Import ZArith List String Ascii Bool.
From PJ Require Import Base.Json Base.Res Model.Msg Model.Bind Model.Dispatch Model.Client Model.EndToEnd Generated.Consts
     Corr.DispCommon Corr.DispOk Corr.ClientCommon.
Import ListNotations.
Open Scope string_scope. Open Scope list_scope.

Definition c7obs := (list json * cres json * list json)%type.   (* wire documents, caller outcome, server-side events *)
Inductive case :=
| C7Single (d : dconfig) (ctx : json) (strict : bool) (g : gen) (n : single_notation) (obs : c7obs)
| C7Batch (d : dconfig) (ctx : json) (strict : bool) (g : gen) (n : batch_notation) (obs : c7obs).

Definition render_single (n : single_notation) (r : cres (option response)) : cres json :=
  match n with
  | NCall _ _ _ => call_outcome r
  | _ => match r with COk None => COk JNull | COk (Some x) => COk (show_response x) | CRaise e => CRaise e end
  end.
Definition render_batch (r : cres (option bresp)) : cres json :=
  match batch_call_outcome r with COk None => COk JNull | COk (Some l) => COk (JArr l) | CRaise e => CRaise e end.

Definition model_single (d : dconfig) ctx strict g n : c7obs :=
  match build_single g n with
  | Raise x => ([], CRaise (CX x), [])
  | Ok q => let '(r, lg) := through_single (mk_config d) ctx strict "JsonRpcError" g n in
            ([req_to_json q], render_single n r, map show_event lg)
  end.
Definition model_batch (d : dconfig) ctx strict g n : c7obs :=
  match build_batch g n with
  | Raise x => ([], CRaise (CX x), [])
  | Ok bq => let '(r, lg) := through_batch (mk_config d) ctx strict "JsonRpcError" g n in
             ([breq_to_json bq], render_batch r, map show_event lg)
  end.
Definition c7obs_eqb (a b : c7obs) : bool :=
  let '(w1, o1, e1) := a in let '(w2, o2, e2) := b in
  list_eqb json_equiv w1 w2 && cres_eqb json_equiv o1 o2 && list_eqb json_equiv e1 e2.

(* ---------- the property ---------- *)
(* what a direct invocation of the registered function gives for (method, args) *)
Definition direct_outcome (d : dconfig) (ctx : json) (m : string) (p : params) : cres json :=
  let r := {| r_method := m; r_params := p; r_id := Some (IInt 0) |} in
  match find_method d m with
  | None => CRaise (CRpc (mk_error error_registry "JsonRpcError" MethodNotFoundError_code MethodNotFoundError_message None))
  | Some md =>
      if bind_fails md then CRaise (CRpc (mk_error error_registry "JsonRpcError" InternalError_code InternalError_message None)) else
      match direct_call (md_sig md) (md_ctx md) ctx (to_pparams p) with
      | None => CRaise (CRpc (mk_error error_registry "JsonRpcError" InvalidParamsError_code InvalidParamsError_message None))
      | Some e =>
          let e' := match md_ctx md with CtxView true => ("<ctx>", Given ctx) :: e | _ => e end in
          match md_body md with
          | BEnv => COk (env_json e')
          | BRet v => COk v
          | BRpc c msg data => CRaise (CRpc (mk_error error_registry "JsonRpcError" c msg data))
          | BExc _ => CRaise (CRpc (mk_error error_registry "JsonRpcError" ServerError_code ServerError_message None))
          | BBindFail => CRaise (CRpc (mk_error error_registry "JsonRpcError" InternalError_code InternalError_message None))
          | BRpcArgs => match args_error e' with
                        | Some x => CRaise (CRpc (mk_error error_registry "JsonRpcError" (e_code x) (e_msg x) (e_data x)))
                        | None => CRaise (CRpc (mk_error error_registry "JsonRpcError" ServerError_code ServerError_message None)) end
          end
      end
  end.
(* equality of caller outcomes; the data of the two library-generated errors is library text and not compared *)
Definition outcome_matches (expected observed : cres json) : bool :=
  match expected, observed with
  | COk a, COk b => json_equiv a b
  | CRaise (CRpc e), CRaise (CRpc f) =>
      Z.eqb (e_code e) (e_code f) && String.eqb (e_msg e) (e_msg f) && String.eqb (e_class e) (e_class f)
      && (if Z.eqb (e_code e) MethodNotFoundError_code || Z.eqb (e_code e) InvalidParamsError_code then true
          else option_eqb json_equiv (e_data e) (e_data f))
  | _, _ => false end.

Definition params_given (pos : list json) (kw : list (string * json)) : params :=
  match pos with [] => PDict kw | _ => PList pos end.
Definition wire_ok_single (wire : list json) (m : string) (p : params) (call : bool) : bool :=
  match wire with
  | [doc] =>
      valid_request_json doc
      && match doc with
         | JObj kvs =>
             option_eqb json_eqb (get "method" kvs) (Some (JStr m))
             && (if call then match get "id" kvs with Some (JInt _ | JStr _) => true | _ => false end
                 else match get "id" kvs with None => true | Some _ => false end)
             && (if params_truthy p then option_eqb json_equiv (get "params" kvs) (Some (params_json p))
                 else match get "params" kvs with None => true | Some _ => false end)
         | _ => false end
  | _ => false end.

Definition ok_single (d : dconfig) ctx (g : gen) (n : single_notation) (o : c7obs) : bool :=
  let '(wire, out, evs) := o in
  match n with
  | NCall m pos kw =>
      match pos, kw with _ :: _, _ :: _ => true | _, _ =>
        let p := params_given pos kw in
        wire_ok_single wire m p true && outcome_matches (direct_outcome d ctx m p) out
        && list_eqb json_equiv (calls_of evs) (expected_call d ctx {| r_method := m; r_params := p; r_id := None |})
      end
  | NNotify m pos kw =>
      match pos, kw with _ :: _, _ :: _ => true | _, _ =>
        let p := params_given pos kw in
        wire_ok_single wire m p false && cres_eqb json_equiv out (COk JNull)
        && list_eqb json_equiv (calls_of evs) (expected_call d ctx {| r_method := m; r_params := p; r_id := None |})
      end
  | NSend _ => true
  end.

Definition item_parts (i : bitem) : bool * string * params * bool :=      (* is call, method, params, well-formed *)
  match i with
  | BCall m pos kw => (true, m, params_given pos kw, match pos, kw with _ :: _, _ :: _ => false | _, _ => true end)
  | BNote m pos kw => (false, m, params_given pos kw, match pos, kw with _ :: _, _ :: _ => false | _, _ => true end)
  end.
Fixpoint expected_tuple (d : dconfig) ctx (items : list (bool * string * params * bool)) : cres (list json) :=
  match items with
  | [] => COk []
  | (true, m, p, _) :: q =>
      match direct_outcome d ctx m p with
      | COk v => match expected_tuple d ctx q with COk l => COk (v :: l) | CRaise e => CRaise e end
      | CRaise e => CRaise e end
  | (false, _, _, _) :: q => expected_tuple d ctx q
  end.
Definition ok_items (d : dconfig) ctx (items : list (bool * string * params * bool)) (o : c7obs) : bool :=
  let '(wire, out, evs) := o in
  if negb (forallb (fun x => snd x) items) then true else
  match items with [] => true | _ =>
  (* one document: an array with one valid request per item, in order; ids present and pairwise distinct for calls *)
  match wire with
  | [JArr docs] =>
      Nat.eqb (List.length docs) (List.length items)
      && forallb (fun di => let '(doc, (call, m, p, _)) := di in wire_ok_single [doc] m p call) (combine docs items)
      && nodup_ids [] (map doc_id docs)
  | _ => false end
  && (if forallb (fun x => negb (fst (fst (fst x)))) items
      then cres_eqb json_equiv out (COk JNull)
      else match expected_tuple d ctx items, out with
           | COk l, COk (JArr l') => list_eqb json_equiv l l'
           | CRaise e, CRaise f => outcome_matches (CRaise e) (CRaise f)
           | _, _ => false end)
  && list_eqb json_equiv (calls_of evs)
       (List.concat (map (fun x => let '(_, m, p, _) := x in expected_call d ctx {| r_method := m; r_params := p; r_id := None |}) items))
  end.
(* a generator that repeats an id within one batch: the batch cannot be built (IdentityError, nothing is sent) -
   outside the property's proviso "ids pairwise distinct"; the theorem C07_batch_ids_distinct covers it *)
Definition n_calls (n : batch_notation) : nat :=
  match n with
  | BnAdd items => List.length (filter (fun i => match i with BCall _ _ _ => true | _ => false end) items)
  | BnGetitem items => List.length items
  | BnSend _ => O end.
Definition gen_collides (g : gen) (n : batch_notation) : bool :=
  match g with GStream l => negb (nodup_ids [] (map Some (firstn (n_calls n) l))) | _ => false end.

Definition ok_batch (d : dconfig) ctx (g : gen) (n : batch_notation) (o : c7obs) : bool :=
  if gen_collides g n then match o with ([], CRaise (CX XIdentity), []) => true | _ => false end else
  match n with
  | BnAdd items => ok_items d ctx (map item_parts items) o
  | BnGetitem items => ok_items d ctx (map (fun mp => (true, fst mp, PList (snd mp), true)) items) o
  (* a hand-built BatchRequest: its requests are the items (a call iff it carries an id) *)
  | BnSend rs => ok_items d ctx (map (fun r => (match r_id r with Some _ => true | None => false end, r_method r, r_params r, true)) rs) o
  end.

(* known finding F7: the uuid generator yields ids the client cannot serialise *)
Definition uses_uuid (g : gen) : bool := match g with GUuid => true | _ => false end.

Definition check (c : case) : nat :=
  match c with
  | C7Single d ctx strict g n obs =>
      let bad := negb (ok_single d ctx g n obs) in
      verdict (negb (c7obs_eqb (model_single d ctx strict g n) obs)) bad
              (match obs with (_ :: _, _, _) => true | _ => false end) (if bad && uses_uuid g then 1 else 0)
  | C7Batch d ctx strict g n obs =>
      let bad := negb (ok_batch d ctx g n obs) in
      verdict (negb (c7obs_eqb (model_batch d ctx strict g n) obs)) bad
              (match obs with (_ :: _, _, _) => true | _ => false end)
              (if bad && uses_uuid g && match n with BnAdd l => existsb (fun i => match i with BCall _ _ _ => true | _ => false end) l
                                                   | BnGetitem (_ :: _) => true | _ => false end then 1 else 0)
  end.
Definition run (cs : list case) : list nat := map check cs.
Definition show (c : case) :=
  match c with
  | C7Single d ctx strict g n _ => model_single d ctx strict g n
  | C7Batch d ctx strict g n _ => model_batch d ctx strict g n
  end.
