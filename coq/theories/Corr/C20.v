(* C20: the real PjRpcMocker driven through operation / call histories against Model/Mocker.v. *)
From Coq Require Import ZArith List String Ascii Bool.
From PJ Require Import Base.Json Base.Res Model.Msg Model.Mocker Generated.Consts.
Import ListNotations.
Open Scope string_scope. Open Scope list_scope.

Record case := {
  passthrough : bool;
  ops : list mop;
  outs : list mout;                                                   (* observed outcome of every operation *)
  final_calls : list (string * list (string * list json)) }.         (* mocker.calls at the end: endpoint -> method -> argument renderings *)

Definition mout_eqb (a b : mout) : bool :=
  match a, b with
  | MDone, MDone | MKeyError, MKeyError | MIndexError, MIndexError | MRefused, MRefused | MPassthrough, MPassthrough
  | MIdentity, MIdentity | MRaised, MRaised => true
  | MReply x, MReply y => json_equiv x y
  | _, _ => false end.
Definition calls_json (cs : list (string * list (string * list params))) : list (string * list (string * list json)) :=
  map (fun e => (fst e, map (fun m => (fst m, map params_json (snd m))) (snd e))) cs.
Definition calls_eqb (a b : list (string * list (string * list json))) : bool :=
  let norm x := sort_kvs (map (fun e => (fst e, sort_kvs (snd e))) x) in
  list_eqb (fun e f => String.eqb (fst e) (fst f)
                       && list_eqb (fun m n => String.eqb (fst m) (fst n) && list_eqb json_equiv (snd m) (snd n)) (snd e) (snd f))
           (norm a) (norm b).
Definition mismatch (c : case) : bool :=
  let '(xs, s) := run_ops (passthrough c) m_init (ops c) in
  negb (list_eqb mout_eqb xs (outs c) && calls_eqb (calls_json (calls s)) (final_calls c)).

(* ---------- the property, replayed with an independent bookkeeping: per (endpoint, method) a FIFO of live patches ---------- *)
Definition key := (string * string)%type.
Definition key_eqb (a b : key) : bool := String.eqb (fst a) (fst b) && String.eqb (snd a) (snd b).
Definition queues := list (key * list patch).
Fixpoint qget (k : key) (q : queues) : list patch := match q with [] => [] | (k', l) :: r => if key_eqb k k' then l else qget k r end.
Fixpoint qset (k : key) (l : list patch) (q : queues) : queues :=
  match q with [] => [(k, l)] | (k', l') :: r => if key_eqb k k' then (k, l) :: r else (k', l') :: qset k l r end.
Definition endpoint_live (ep : string) (q : queues) : bool := existsb (fun e => String.eqb (fst (fst e)) ep && match snd e with [] => false | _ => true end) q.
Inductive sout := SNone | SDoc (d : json) | SRaise.      (* -32601 | the configured reply | serving the patch raises *)
Definition expected_reply (p : patch) (r : request) : sout :=
  match p_kind p with
  | PCallback tag => SDoc (resp_to_json (RResult (r_id r) (callback_value tag (r_params r))))
  | PResult v => SDoc (resp_to_json (RResult (match r_id r with Some i => Some i | None => p_id p end) v))
  | PError e => SDoc (resp_to_json (RError (match r_id r with Some i => Some i | None => p_id p end) e))
  | PRaise => SRaise end.
Definition is_nf (doc : json) (r : request) : bool :=
  match doc with
  | JObj kvs => option_eqb json_eqb (get "id" kvs) (Some (id_json (r_id r)))
                && match get "error" kvs with Some (JObj e) => option_eqb json_eqb (get "code" e) (Some (JInt MethodNotFoundError_code)) | _ => false end
  | _ => false end.
(* one request against the queues: the expected reply (None = -32601) and the new queues *)
(* the patch is used (taken from the front, put at the back unless `once`) whether or not serving it then raises *)
Definition serve (q : queues) (ep : string) (r : request) : sout * queues :=
  match qget (ep, r_method r) q with
  | [] => (SNone, q)
  | p :: rest => (expected_reply p r, qset (ep, r_method r) (if p_once p then rest else rest ++ [p]) q)
  end.
Fixpoint replace_at_nat {A} (n : nat) (x : A) (l : list A) : option (list A) :=
  match l, n with [], _ => None | _ :: t, O => Some (x :: t) | a :: t, S k => option_map (cons a) (replace_at_nat k x t) end.
(* list[idx] = x : a negative index counts from the end *)
Definition replace_at {A} (idx : Z) (x : A) (l : list A) : option (list A) :=
  let n := Z.of_nat (List.length l) in
  if (0 <=? idx)%Z then replace_at_nat (Z.to_nat idx) x l
  else if (0 <=? n + idx)%Z then replace_at_nat (Z.to_nat (n + idx)) x l else None.

(* a batch is answered element by element; if a reply would carry an id already used by an earlier reply of the same batch the
   replies cannot be assembled (IdentityError) and the remaining elements are not looked at *)
Inductive bstop := BDone | BDuplicate | BRaise.
Fixpoint serve_batch (q : queues) (ep : string) (rs : list request) (seen : list idv) : list (sout * request) * queues * bstop :=
  match rs with
  | [] => ([], q, BDone)
  | r :: rest =>
      let '(e, q') := serve q ep r in
      match e with
      | SRaise => ([(e, r)], q', BRaise)          (* the exception leaves the batch loop: later elements are not looked at *)
      | _ =>
        match (match e with SDoc d => doc_id d | _ => r_id r end) with
        | Some i => if mem_id i seen then ([(e, r)], q', BDuplicate)
                    else let '(l, q'', ab) := serve_batch q' ep rest (i :: seen) in ((e, r) :: l, q'', ab)
        | None => let '(l, q'', ab) := serve_batch q' ep rest seen in ((e, r) :: l, q'', ab)
        end
      end
  end.

Fixpoint ok_run (pt : bool) (q : queues) (ops : list mop) (outs : list mout) : bool :=
  match ops, outs with
  | [], [] => true
  | o :: ops', x :: outs' =>
      match o with
      | MAdd ep m p => mout_eqb x MDone && ok_run pt (qset (ep, m) (qget (ep, m) q ++ [p]) q) ops' outs'
      | MReplace ep m idx p =>
          match replace_at idx p (qget (ep, m) q) with
          | Some l => mout_eqb x MDone && ok_run pt (qset (ep, m) l q) ops' outs'
          | None => mout_eqb x MIndexError && ok_run pt q ops' outs' end
      | MRemove ep None =>
          if endpoint_live ep q then mout_eqb x MDone && ok_run pt (map (fun e => if String.eqb (fst (fst e)) ep then (fst e, []) else e) q) ops' outs'
          else mout_eqb x MKeyError && ok_run pt q ops' outs'
      | MRemove ep (Some m) =>
          match qget (ep, m) q with
          | [] => mout_eqb x MKeyError && ok_run pt q ops' outs'
          | _ => mout_eqb x MDone && ok_run pt (qset (ep, m) [] q) ops' outs' end
      | MReset => mout_eqb x MDone && ok_run pt [] ops' outs'
      | MCall ep r =>
          if negb (endpoint_live ep q) then mout_eqb x (if pt then MPassthrough else MRefused) && ok_run pt q ops' outs'
          else let '(e, q') := serve q ep r in
               match x, e with
               | MReply doc, SDoc d => json_equiv doc d
               | MReply doc, SNone => is_nf doc r
               | MRaised, SRaise => true
               | _, _ => false end && ok_run pt q' ops' outs'
      | MBatch ep rs =>
          if negb (endpoint_live ep q) then mout_eqb x (if pt then MPassthrough else MRefused) && ok_run pt q ops' outs'
          else
            let '(es, q', aborted) := serve_batch q ep rs [] in
            match x with
            | MReply (JArr docs) =>
                match aborted with BDone => true | _ => false end && Nat.eqb (List.length docs) (List.length es)
                && forallb (fun de => match snd de with (SDoc d, _) => json_equiv (fst de) d | (SNone, r) => is_nf (fst de) r | (SRaise, _) => false end) (combine docs es)
            | MIdentity => match aborted with BDuplicate => true | _ => false end
            | MRaised => match aborted with BRaise => true | _ => false end
            | _ => false end && ok_run pt q' ops' outs'
      end
  | _, _ => false
  end.

(* every call made to a live endpoint with a patched method is recorded, with its arguments, under endpoint and method *)
Definition rec_call (k : key) (a : json) (acc : list (key * list json)) : list (key * list json) :=
  let old := (fix g (l : list (key * list json)) := match l with [] => [] | (k', v) :: t => if key_eqb k k' then v else g t end) acc in
  (fix s (l : list (key * list json)) := match l with [] => [(k, old ++ [a])]
     | (k', v) :: t => if key_eqb k k' then (k, old ++ [a]) :: t else (k', v) :: s t end) acc.
Fixpoint expected_calls (q : queues) (ops : list mop) (acc : list (key * list json)) : list (key * list json) :=
  match ops with
  | [] => acc
  | o :: ops' =>
      match o with
      | MAdd ep m p => expected_calls (qset (ep, m) (qget (ep, m) q ++ [p]) q) ops' acc
      | MReplace ep m idx p => match replace_at idx p (qget (ep, m) q) with Some l => expected_calls (qset (ep, m) l q) ops' acc | None => expected_calls q ops' acc end
      | MRemove ep None => expected_calls (map (fun e => if String.eqb (fst (fst e)) ep then (fst e, []) else e) q) ops' acc
      | MRemove ep (Some m) => expected_calls (qset (ep, m) [] q) ops' acc
      | MReset => expected_calls [] ops' []
      | MCall ep r =>
          if endpoint_live ep q
          then let '(e, q') := serve q ep r in
               expected_calls q' ops' (match e with SNone => acc | _ => rec_call (ep, r_method r) (params_json (r_params r)) acc end)
          else expected_calls q ops' acc
      | MBatch ep rs =>
          if endpoint_live ep q then
            let '(es, q', _) := serve_batch q ep rs [] in
            expected_calls q' ops'
              (fold_left (fun a er => match fst er with SNone => a | _ => rec_call (ep, r_method (snd er)) (params_json (r_params (snd er))) a end) es acc)
          else expected_calls q ops' acc
      end
  end.
Definition flat_calls (cs : list (string * list (string * list json))) : list (key * list json) :=
  flat_map (fun e => map (fun m => ((fst e, fst m), snd m)) (snd e)) cs.
Definition same_calls (a b : list (key * list json)) : bool :=
  forallb (fun x => existsb (fun y => key_eqb (fst x) (fst y) && list_eqb json_equiv (snd x) (snd y)) b) a
  && forallb (fun y => existsb (fun x => key_eqb (fst x) (fst y) && list_eqb json_equiv (snd x) (snd y)) a) b.

Definition ok (c : case) : bool :=
  ok_run (passthrough c) [] (ops c) (outs c)
  && same_calls (expected_calls [] (ops c) []) (flat_calls (final_calls c)).
Definition nontrivial (c : case) : bool := existsb (fun x => match x with MReply _ => true | _ => false end) (outs c).
Definition check (c : case) : nat := verdict (mismatch c) (negb (ok c)) (nontrivial c) 0.
Definition run (cs : list case) : list nat := map check cs.
Definition show (c : case) := let '(xs, s) := run_ops (passthrough c) m_init (ops c) in (xs, calls_json (calls s)).
