(* Correspondence + property predicate for C06 (deserialisation is strict and total). *)
From Coq Require Import ZArith List String Ascii Bool.
From PJ Require Import Base.Json Base.Res Model.Msg Generated.Consts.
Import ListNotations.
Open Scope string_scope.

(* ---- observations: what the harness records of a deserialised object, as JSON ---- *)
Definition show_error (e : rpc_error) : json :=
  JObj ([("code", JInt (e_code e)); ("message", JStr (e_msg e))]
        ++ match e_data e with Some d => [("data", d)] | None => [] end
        ++ [("class", JStr (e_class e))]).
Definition show_request (r : request) : json :=
  JObj [("method", JStr (r_method r)); ("params", params_json (r_params r)); ("id", id_json (r_id r))].
Definition show_response (r : response) : json :=
  match r with
  | RResult i v => JObj [("id", id_json i); ("result", v)]
  | RError i e => JObj [("id", id_json i); ("error", show_error e)]
  end.
Definition show_bresp (b : bresp) : json :=
  match b with BError e => JObj [("error", show_error e)] | BList b => JArr (map show_response (b_items b)) end.

Inductive kind := KReq | KResp | KErr | KBReq | KBResp.

Definition model_parse (k : kind) (base : string) (j : json) : res json :=
  match k with
  | KReq => do r <- req_from_json j ; Ok (show_request r)
  | KResp => do r <- resp_from_json error_registry base j ; Ok (show_response r)
  | KErr => do e <- err_from_json error_registry base j ; Ok (show_error e)
  | KBReq => do b <- breq_from_json j ; Ok (JArr (map show_request (b_items b)))
  | KBResp => do b <- bresp_from_json error_registry base j ; Ok (show_bresp b)
  end.

(* ---- the property, judged on the implementation's observation ---- *)
Definition dup_free (l : list json) : bool := nodup_ids [] (map doc_id l).
Definition grammatical (k : kind) (j : json) : bool :=
  match k with
  | KReq => valid_request_json j
  | KResp => valid_response_json j
  | KErr => valid_error_json j
  | KBReq => valid_breq_json j
  | KBResp => valid_bresp_json j
  end.
Definition has_dup (k : kind) (j : json) : bool :=
  match k, j with (KBReq | KBResp), JArr l => negb (dup_free l) | _, _ => false end.

Definition ok_parse (k : kind) (j : json) (obs : res json) : bool :=
  match obs with
  | Ok _ => grammatical k j && negb (has_dup k j)                 (* never accepts an invalid message *)
  | Raise XDeser => true
  | Raise XIdentity => match k with KBReq | KBResp => grammatical k j && has_dup k j | _ => false end
  | Raise _ => false                                                (* no other exception type escapes *)
  end.

(* ---- batch mutation histories ---- *)
Definition hstate := (list (option idv) * list idv)%type.        (* ids of the elements in order, the id set *)
Definition hobs := (option exn * hstate)%type.
Definition hop := batch_op (option idv).

Definition idset_eqb (a b : list idv) : bool :=
  Nat.eqb (List.length a) (List.length b) && forallb (fun i => mem_id i b) a && forallb (fun i => mem_id i a) b.
Definition oid_eqb := option_eqb id_eqb.
Definition hstate_eqb (a b : hstate) : bool := list_eqb oid_eqb (fst a) (fst b) && idset_eqb (snd a) (snd b).

Definition model_hist (ops : list hop) : list hobs :=
  (fix go (b : batch (option idv)) (ops : list hop) : list hobs :=
     match ops with
     | [] => []
     | o :: q => let '(b', r) := batch_step (fun x => x) b o in (r, (b_items b', b_ids b')) :: go b' q
     end) batch_empty ops.

Definition op_ids (o : hop) : list (option idv) := match o with OpAppend x => [x] | OpExtend xs => xs end.

(* judged step by step on the implementation's own states *)
Fixpoint ok_hist (prev : hstate) (ops : list hop) (obs : list hobs) : bool :=
  match ops, obs with
  | [], [] => true
  | o :: q, (r, st) :: q' =>
      let new := op_ids o in
      let dup := negb (nodup_ids (snd prev) new) in
      (match r with
       | Some x => exn_eqb x XIdentity && dup && hstate_eqb st prev          (* raised: unchanged *)
       | None => negb dup && hstate_eqb st ((fst prev ++ new)%list, (snd prev ++ cat_some new)%list)
       end) && ok_hist st q q'
  | _, _ => false
  end.

Inductive case :=
| CParse (k : kind) (base : string) (j : json) (obs : res json)
| CHist (ops : list hop) (obs : list hobs).

Definition hobs_eqb (a b : hobs) : bool := option_eqb exn_eqb (fst a) (fst b) && hstate_eqb (snd a) (snd b).

Definition check (c : case) : nat :=
  match c with
  | CParse k base j obs =>
      let m := model_parse k base j in
      verdict (negb (res_eqb json_equiv m obs)) (negb (ok_parse k j obs))
              (match j with JObj _ | JArr _ => true | _ => false end) 0
  | CHist ops obs =>
      verdict (negb (list_eqb hobs_eqb (model_hist ops) obs)) (negb (ok_hist ([], []) ops obs))
              (match ops with _ :: _ :: _ => true | _ => false end) 0
  end.
Definition run (cs : list case) : list nat := map check cs.

Definition show (c : case) :=
  match c with
  | CParse k base j _ => (Some (model_parse k base j), None)
  | CHist ops _ => (None, Some (model_hist ops))
  end.
