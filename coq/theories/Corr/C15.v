(* C15: real registries / dispatchers built from a registration history against Model/Registry.v; the property is judged
   with the declarative spec_lookup on what a dispatched request actually reached. *)
From Coq Require Import ZArith List String Ascii Bool.
From PJ Require Import Base.Json Base.Res Model.Registry.
Import ListNotations.
Open Scope string_scope. Open Scope list_scope.

Record case := {
  hist : rexpr;
  probes : list (string * option nat);      (* name probed, function reached (None: the answer was -32601) *)
  keyset : list string }.                   (* sorted registry keys *)

Definition ofn_eqb (a b : option nat) : bool := match a, b with Some x, Some y => Nat.eqb x y | None, None => true | _, _ => false end.
(* 4998: the name was resolved to a registered entry, whose view could not be constructed (the request failed later, not with -32601) *)
Definition reach_eqb (spec obs : option nat) : bool :=
  match obs with Some 4998 => match spec with Some _ => true | None => false end | _ => ofn_eqb spec obs end.
Definition sorted_keys (r : reg) : list string := map fst (sort_kvs r).
Definition mismatch (c : case) : bool :=
  negb (forallb (fun p => reach_eqb (get (fst p) (eval (hist c))) (snd p)) (probes c)
        && list_eqb String.eqb (sorted_keys (eval (hist c))) (keyset c)).
Definition ok (c : case) : bool :=
  forallb (fun p => reach_eqb (spec_lookup (fst p) (hist c)) (snd p)) (probes c)
  && forallb (fun k => match spec_lookup k (hist c) with Some _ => true | None => false end) (keyset c)
  && forallb (fun kv => mem_str (fst kv) (keyset c)) (entries [] (hist c)).
Definition check (c : case) : nat :=
  verdict (mismatch c) (negb (ok c)) (match keyset c with _ :: _ :: _ => true | _ => false end) 0.
Definition run (cs : list case) : list nat := map check cs.
Definition show (c : case) := (eval (hist c), map (fun p => spec_lookup (fst p) (hist c)) (probes c)).
