From Coq Require Import ZArith QArith List Bool.
From PJ Require Import Base.Res Model.Retry Corr.RetryCommon.
Definition case := rcase.
Definition nontrivial (c : rcase) : bool := Nat.ltb 1 (o_sends (c_obs c)).
Definition check (c : rcase) : nat := verdict (mismatch c) (negb (ok09 c)) (nontrivial c) 0.
Definition run (cs : list rcase) : list nat := map check cs.
Definition show (c : rcase) := model c.
