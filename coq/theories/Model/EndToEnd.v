(* A pjrpc client talking to a pjrpc dispatcher (C07): the request document built by the client is served by
   Model.Dispatch.dispatch and the answer is received by Model.Client.  The JSON text codec in between
   (json.dumps / json.loads) is the identity on JSON values - an oracle exercised by the correspondence run. *)
From Coq Require Import ZArith List String Ascii Bool.
From PJ Require Import Base.Json Base.Res Model.Msg Model.Bind Model.Dispatch Model.Client Generated.Consts.
Import ListNotations.
Open Scope string_scope. Open Scope list_scope.

Definition serve (cfg : config) (ctx : json) (doc : json) : res body * log :=
  let '(o, lg) := dispatch cfg (LOk doc) ctx in
  (match o with Ok None => Ok BNone | Ok (Some (d, _)) => Ok (BJson d) | Raise x => Raise x end, lg).

Definition through_single (cfg : config) (ctx : json) (strict : bool) (base : string) (g : gen) (n : single_notation)
  : cres (option response) * log :=
  match build_single g n with
  | Raise x => (CRaise (CX x), [])
  | Ok q =>
      let '(b, lg) := serve cfg ctx (req_to_json q) in
      match b with Raise x => (CRaise (CX x), lg) | Ok bd => (recv_single strict base q bd, lg) end
  end.

Definition through_batch (cfg : config) (ctx : json) (strict : bool) (base : string) (g : gen) (n : batch_notation)
  : cres (option bresp) * log :=
  match build_batch g n with
  | Raise x => (CRaise (CX x), [])
  | Ok bq =>
      let '(b, lg) := serve cfg ctx (breq_to_json bq) in
      match b with Raise x => (CRaise (CX x), lg) | Ok bd => (recv_batch strict base bq bd, lg) end
  end.
