(* Model of pjrpc/client/integrations/pytest.py : PjRpcMocker as a state machine.
   matches : endpoint -> method -> rotating list of patches (the JSON-RPC version is always "2.0", so the
   (version, method) key is the method name); calls : endpoint -> method -> recorded argument lists. *)
From Coq Require Import ZArith List String Ascii Bool.
From PJ Require Import Base.Json Base.Res Model.Msg Generated.Consts.
Import ListNotations.
Open Scope string_scope. Open Scope list_scope.

Inductive pkind := PResult (v : json) | PError (e : rpc_error) | PCallback (tag : json)
                 | PRaise.    (* a callback that raises (or a patch that cannot be served): the exception reaches the caller *)
Record patch := { p_kind : pkind; p_once : bool; p_id : option idv }.

Definition mtable := list (string * list patch).
Record mstate := { matches : list (string * mtable); calls : list (string * list (string * list params)) }.
Definition m_init : mstate := {| matches := []; calls := [] |}.

Inductive mop :=
| MAdd (ep m : string) (p : patch)
| MReplace (ep m : string) (idx : Z) (p : patch)     (* a Python list index: negative ones count from the end *)
| MRemove (ep : string) (m : option string)
| MReset
| MCall (ep : string) (r : request)                 (* a single request document reaches the patched transport *)
| MBatch (ep : string) (rs : list request).         (* a batch document *)

Inductive mout :=
| MDone                                  (* the operation returned *)
| MKeyError | MIndexError                (* replace / remove on something that is not there *)
| MReply (doc : json)                    (* the text the patched transport returned, as a JSON value *)
| MRefused                               (* ConnectionRefusedError: endpoint not patched, passthrough off *)
| MPassthrough                           (* endpoint not patched, passthrough on: the original transport was called *)
| MIdentity                              (* duplicate reply ids in a batch answer (BatchResponse.append) *)
| MRaised.                               (* serving the patch raised (PRaise): the exception propagates out of the transport call *)

(* the value a callback patch computes: the harness's callbacks return [tag, arguments] *)
(* ... or, for a tag of the form {"const": v}, the constant v whatever the arguments (a void method, a counter at 0, ...) *)
Definition callback_value (tag : json) (p : params) : json :=
  match tag with JObj [("const"%string, v)] => v | _ => JArr [tag; params_json p] end.

(* list[idx] = x with Python's index rule *)
Definition norm_index (idx : Z) (n : nat) : option nat :=
  if (0 <=? idx)%Z then Some (Z.to_nat idx)
  else if (0 <=? Z.of_nat n + idx)%Z then Some (Z.to_nat (Z.of_nat n + idx)) else None.
Fixpoint replace_nth {A} (n : nat) (x : A) (l : list A) : option (list A) :=
  match l, n with
  | [], _ => None
  | _ :: q, O => Some (x :: q)
  | a :: q, S k => match replace_nth k x q with Some q' => Some (a :: q') | None => None end
  end.

(* _cleanup_matches after touching (ep, m): drop an empty patch list, then an endpoint without methods *)
Definition cleanup (ms : list (string * mtable)) (ep m : string) : list (string * mtable) :=
  match get ep ms with
  | None => ms
  | Some t =>
      let t' := match get m t with Some [] => remove_key m t | _ => t end in
      match t' with [] => remove_key ep ms | _ => set ep t' ms end
  end.

Definition record_call (cs : list (string * list (string * list params))) (ep m : string) (p : params)
  : list (string * list (string * list params)) :=
  let t := match get ep cs with Some t => t | None => [] end in
  let l := match get m t with Some l => l | None => [] end in
  set ep (set m (l ++ [p]) t) cs.

(* what stands in for the reply of a patch whose serving raises; [step] never shows it (MRaised) *)
Definition raise_marker : rpc_error := {| e_code := 0; e_msg := "<serving the patch raised>"; e_data := None; e_class := "" |}.
Definition raises (s : mstate) (ep : string) (r : request) : bool :=
  match get ep (matches s) with
  | Some t => match get (r_method r) t with
              | Some (p :: _) => match p_kind p with PRaise => true | _ => false end
              | _ => false end
  | None => false end.

(* _match_request on a patched endpoint: the patch is taken from the front and (unless `once`) put at the back BEFORE it is
   served, so a patch whose serving raises has been used all the same *)
Definition match_request (s : mstate) (ep : string) (r : request) : response * mstate :=
  match get ep (matches s) with
  | None => (RError (r_id r) {| e_code := MethodNotFoundError_code; e_msg := MethodNotFoundError_message;
                                e_data := Some (JStr (r_method r)); e_class := "MethodNotFoundError" |}, s)   (* unreachable from on_request *)
  | Some t =>
      match get (r_method r) t with
      | None | Some [] =>
          (RError (r_id r) {| e_code := MethodNotFoundError_code; e_msg := MethodNotFoundError_message;
                              e_data := Some (JStr (r_method r)); e_class := "MethodNotFoundError" |}, s)
      | Some (p :: rest) =>
          let lst := if p_once p then rest else rest ++ [p] in
          let ms := cleanup (set ep (set (r_method r) lst t) (matches s)) ep (r_method r) in
          let cs := record_call (calls s) ep (r_method r) (r_params r) in
          let s' := {| matches := ms; calls := cs |} in
          (match p_kind p with
           | PCallback tag => RResult (r_id r) (callback_value tag (r_params r))
           | PResult v => RResult (match r_id r with Some i => Some i | None => p_id p end) v
           | PError e => RError (match r_id r with Some i => Some i | None => p_id p end) e
           | PRaise => RError (r_id r) raise_marker
           end, s')
      end
  end.

(* the batch loop: `response.append(self._match_request(...))` element by element; a reply whose id duplicates an earlier one
   makes append raise IdentityError and the remaining elements are never looked at *)
Fixpoint match_all (s : mstate) (ep : string) (rs : list request) (acc : batch response) : option (batch response) * mstate :=
  match rs with
  | [] => (Some acc, s)
  | r :: q => let '(x, s1) := match_request s ep r in
              if raises s ep r then (None, s1) else
              match batch_append resp_id acc x with
              | Ok acc' => match_all s1 ep q acc'
              | Raise _ => (None, s1)
              end
  end.

(* did the batch loop stop because serving a patch raised (and not because of a duplicate reply id)? *)
Fixpoint batch_raises (s : mstate) (ep : string) (rs : list request) (acc : batch response) : bool :=
  match rs with
  | [] => false
  | r :: q => if raises s ep r then true else
              let '(x, s1) := match_request s ep r in
              match batch_append resp_id acc x with
              | Ok acc' => batch_raises s1 ep q acc'
              | Raise _ => false end
  end.

Definition step (passthrough : bool) (s : mstate) (o : mop) : mout * mstate :=
  match o with
  | MAdd ep m p =>
      let t := match get ep (matches s) with Some t => t | None => [] end in
      let l := match get m t with Some l => l | None => [] end in
      (MDone, {| matches := set ep (set m (l ++ [p]) t) (matches s); calls := calls s |})
  | MReplace ep m idx p =>
      match get ep (matches s) with
      | None => (MIndexError, s)
      | Some t => match get m t with
                  | None => (MIndexError, s)
                  | Some l => match (match norm_index idx (List.length l) with Some k => replace_nth k p l | None => None end) with
                              | Some l' => (MDone, {| matches := set ep (set m l' t) (matches s); calls := calls s |})
                              | None => (MIndexError, s) end
                  end
      end
  | MRemove ep None =>
      match get ep (matches s) with
      | None => (MKeyError, s)
      | Some _ => (MDone, {| matches := remove_key ep (matches s); calls := calls s |})
      end
  | MRemove ep (Some m) =>
      match get ep (matches s) with
      | None => (MKeyError, s)
      | Some t => match get m t with
                  | None => (MKeyError, s)
                  | Some _ => (MDone, {| matches := (match remove_key m t with [] => remove_key ep (matches s)
                                                                             | t' => set ep t' (matches s) end);
                                         calls := calls s |})
                  end
      end
  | MReset => (MDone, m_init)
  | MCall ep r =>
      match get ep (matches s) with
      | None => (if passthrough then MPassthrough else MRefused, s)
      | Some _ => let '(x, s') := match_request s ep r in (if raises s ep r then MRaised else MReply (resp_to_json x), s')
      end
  | MBatch ep rs =>
      match get ep (matches s) with
      | None => (if passthrough then MPassthrough else MRefused, s)
      | Some _ =>
          let '(b, s') := match_all s ep rs batch_empty in
          match b with
          | Some b => (MReply (JArr (map resp_to_json (b_items b))), s')
          | None => (if batch_raises s ep rs batch_empty then MRaised else MIdentity, s')
          end
      end
  end.

Fixpoint run_ops (passthrough : bool) (s : mstate) (ops : list mop) : list mout * mstate :=
  match ops with
  | [] => ([], s)
  | o :: q => let '(x, s1) := step passthrough s o in
              let '(xs, s2) := run_ops passthrough s1 q in (x :: xs, s2)
  end.
