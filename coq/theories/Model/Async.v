(* Model of the asynchronous batch path (dispatcher.py AsyncDispatcher.dispatch, asyncio.gather):
   each element handler is a coroutine = a non-empty sequence of atomic segments (the code between two suspension
   points; a segment emits events) ending in a result.  gather = indexed slots; a schedule is ANY list of slot
   indices (strictly more interleavings than the event loop can produce).  Generic in the event and result types. *)
From Coq Require Import List Arith Bool.
Import ListNotations.

Section Async.
Variables (Ev Res : Type).

Record co := { segs : list (list Ev); res : Res }.
Inductive slot := Run (c : co) | Done (r : Res).
Definition st := list slot.

(* resuming a coroutine runs it up to its next suspension point; after its last segment it is finished *)
Definition step_slot (s : slot) : slot * list Ev :=
  match s with
  | Done r => (Done r, [])
  | Run c => match segs c with
             | [] => (Done (res c), [])
             | [e] => (Done (res c), e)
             | e :: rest => (Run {| segs := rest; res := res c |}, e)
             end
  end.
Fixpoint step_at (i : nat) (s : st) : st * list Ev :=
  match s, i with
  | [], _ => ([], [])
  | x :: xs, O => let '(x', e) := step_slot x in (x' :: xs, e)
  | x :: xs, S j => let '(xs', e) := step_at j xs in (x :: xs', e)
  end.
(* the global trace: events tagged with the element that emitted them *)
Fixpoint run (sched : list nat) (s : st) : st * list (nat * Ev) :=
  match sched with
  | [] => (s, [])
  | i :: r => let '(s1, e) := step_at i s in
              let '(s2, t) := run r s1 in (s2, map (pair i) e ++ t)
  end.

Definition proj (i : nat) (t : list (nat * Ev)) : list Ev := map snd (filter (fun p => Nat.eqb (fst p) i) t).
Definition slot_rest (s : slot) : list Ev := match s with Done _ => [] | Run c => concat (segs c) end.
Definition slot_final (s : slot) : Res := match s with Done r => r | Run c => res c end.
Definition is_done (s : slot) : bool := match s with Done _ => true | Run _ => false end.
Definition finished (s : st) : bool := forallb is_done s.
Definition steps_needed (s : slot) : nat := match s with Done _ => 0 | Run c => Nat.max 1 (length (segs c)) end.

(* gather: start every coroutine (in argument order), then resume as the schedule says; results in argument order *)
Definition start_all (n : nat) : list nat := seq 0 n.
(* the sequential driver (concurrent_batch = False): each coroutine runs to completion before the next starts *)
Fixpoint seq_schedule (i : nat) (s : st) : list nat :=
  match s with [] => [] | x :: xs => repeat i (steps_needed x) ++ seq_schedule (S i) xs end.
End Async.

Arguments segs {Ev Res}. Arguments res {Ev Res}. Arguments Run {Ev Res}. Arguments Done {Ev Res}.
Arguments step_slot {Ev Res}. Arguments step_at {Ev Res}. Arguments run {Ev Res}. Arguments proj {Ev}.
Arguments slot_rest {Ev Res}. Arguments slot_final {Ev Res}. Arguments is_done {Ev Res}. Arguments finished {Ev Res}.
Arguments steps_needed {Ev Res}. Arguments seq_schedule {Ev Res}.
