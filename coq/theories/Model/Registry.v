(* Model of MethodRegistry (dispatcher.py:138-276) and the dispatcher-level add / add_methods / view:
   a registry is a prefix and a name -> method dict; functions are abstract identities. *)
From Coq Require Import ZArith List String Ascii Bool.
From PJ Require Import Base.Json.
Import ListNotations.
Open Scope string_scope. Open Scope list_scope.

Definition fn := nat.
(* '.'.join(filter(None, parts)) : empty and missing parts are dropped *)
Definition nonempty (o : option string) : list string :=
  match o with Some s => if String.eqb s "" then [] else [s] | None => [] end.
Fixpoint join_dot (l : list string) : string :=
  match l with [] => "" | [a] => a | a :: r => a ++ "." ++ join_dot r end.
Definition join_names (parts : list (option string)) : string := join_dot (flat_map nonempty parts).

(* a view class: its members in dir() order with name, callable?, function *)
Record member := { mb_name : string; mb_callable : bool; mb_fn : fn }.
Definition is_public (m : member) : bool :=
  match mb_name m with String c _ => negb (Ascii.eqb c "_"%char) | EmptyString => true end.
Definition exposed (ms : list member) : list member := filter (fun m => is_public m && mb_callable m) ms.

Inductive regop :=
| OAdd (f : fn) (fname : string) (name : option string)           (* registry.add(f, name=...) ; fname = f.__name__ *)
| OAddMethod (f : fn) (fname : string) (name : option string)     (* registry.add_methods(Method(f, name=...)) *)
| OAddPlain (f : fn) (fname : string)                             (* registry.add_methods(f) *)
| OView (vprefix : option string) (members : list member)         (* registry.view(V, prefix=...) *)
| OMerge (other : rexpr)                                          (* registry.merge(other) *)
with rexpr := RE (prefix : option string) (ops : list regop).

Definition reg := list (string * fn).
(* merge: `if self._prefix: name = f'{prefix}.{name}'` - a truthiness test: None and '' both mean no prefix *)
Definition prefixed (prefix : option string) (name : string) : string :=
  match nonempty prefix with [p] => p ++ "." ++ name | _ => name end.

Fixpoint eval (e : rexpr) : reg :=
  match e with
  | RE prefix ops =>
      (fix go (ops : list regop) (r : reg) : reg :=
         match ops with
         | [] => r
         | o :: q =>
             go q
               match o with
               | OAdd f fname name =>
                   set (join_names [prefix; Some (match nonempty name with [n] => n | _ => fname end)]) f r
               | OAddMethod f fname name =>
                   set (prefixed prefix (match nonempty name with [n] => n | _ => fname end)) f r
               | OAddPlain f fname => set (join_names [prefix; Some fname]) f r
               | OView vp ms =>
                   fold_left (fun acc m => set (join_names [prefix; vp; Some (mb_name m)]) (mb_fn m) acc) (exposed ms) r
               | OMerge other =>
                   fold_left (fun acc kv => set (prefixed prefix (fst kv)) (snd kv) acc) (eval other) r
               end
         end) ops []
  end.

(* ---------- the declarative reading of the property ---------- *)
(* every registration, flattened in the order it takes effect, under the name the property prescribes: the explicit name or the
   function's own name, preceded by the dot-joined (non-empty) prefixes of the registries and view it was added through *)
Fixpoint entries (path : list string) (e : rexpr) : list (string * fn) :=
  match e with
  | RE prefix ops =>
      let path' := path ++ nonempty prefix in
      (fix go (ops : list regop) : list (string * fn) :=
         match ops with
         | [] => []
         | o :: q =>
             match o with
             | OAdd f fname name | OAddMethod f fname name =>
                 [(join_dot (path' ++ [match nonempty name with [n] => n | _ => fname end]), f)]
             | OAddPlain f fname => [(join_dot (path' ++ [fname]), f)]
             | OView vp ms => map (fun m => (join_dot (path' ++ nonempty vp ++ [mb_name m]), mb_fn m)) (exposed ms)
             | OMerge other => entries path' other
             end ++ go q
         end) ops
  end.
(* a later registration under an existing name replaces the earlier one *)
Fixpoint last_match (n : string) (l : list (string * fn)) : option fn :=
  match l with
  | [] => None
  | (k, f) :: q => match last_match n q with Some g => Some g | None => if String.eqb n k then Some f else None end
  end.
Definition spec_lookup (n : string) (e : rexpr) : option fn := last_match n (entries [] e).
