(* Model of parameter binding:
   - [py_call]   : CPython's own binding of a call f( *pos, **kw ) -- the SPECIFICATION of "what a direct call binds";
   - [sig_bind_*]: inspect.Signature.bind restricted to "positional list XOR mapping" (validators/base.py:bind);
   - [method_invoke] : pjrpc's path Method.bind / ViewMethod.bind: exclude the context parameter, bind,
                   take .arguments (a name -> value mapping; a var-positional parameter maps to a tuple, a
                   var-keyword one to a dict), add the context, functools.partial(method, *args, **kw)(). *)
From Coq Require Import ZArith List String Ascii Bool.
From PJ Require Import Base.Json Base.Res.
Import ListNotations.
Open Scope string_scope.

Inductive pkind := PO (* positional-only *) | PK (* positional-or-keyword *) | VP (* var-positional *)
                 | KO (* keyword-only *) | VK (* var-keyword *).
Record param := { pname : string; pk : pkind; pdef : bool }.
Definition sig := list param.

Inductive slotv := Given (v : json) | Default | Star (l : list json) | StarStar (kvs : list (string * json)).
Definition env := list (string * slotv).

Definition pkind_eqb a b := match a, b with PO,PO|PK,PK|VP,VP|KO,KO|VK,VK => true | _,_ => false end.
Definition is_positional p := match pk p with PO | PK => true | _ => false end.
Definition has_kind k (s : sig) := existsb (fun p => pkind_eqb (pk p) k) s.
Definition find_param (n : string) (s : sig) : option param := find (fun p => String.eqb (pname p) n) s.

(* ---------- CPython call binding ---------- *)
Fixpoint fill_pos (ps : sig) (pos : list json) : list (string * json) * list json :=
  match ps, pos with
  | p :: ps', a :: pos' => if is_positional p
                           then let '(b, rest) := fill_pos ps' pos' in ((pname p, a) :: b, rest)
                           else ([], pos)
  | _, _ => ([], pos)
  end.

(* keywords: (named bindings, surplus for the var-keyword parameter) or None on TypeError *)
Fixpoint place_kw (s : sig) (bound : list (string*json)) (kw : list (string*json))
  : option (list (string*json) * list (string*json)) :=
  match kw with
  | [] => Some (bound, [])
  | (n, v) :: kw' =>
      let to_extra :=
        if has_kind VK s then
          match place_kw s bound kw' with Some (b, e) => Some (b, (n,v) :: e) | None => None end
        else None in
      match find_param n s with
      | Some p =>
          match pk p with
          | PK | KO => if has n bound then None else place_kw s (bound ++ [(n,v)]) kw'
          | PO | VP | VK => to_extra
          end
      | None => to_extra
      end
  end.

Fixpoint finish (s : sig) (bound : list (string*json)) (star : list json) (extra : list (string*json)) : option env :=
  match s with
  | [] => Some []
  | p :: s' =>
      let slot := match pk p with
                  | VP => Some (Star star)
                  | VK => Some (StarStar extra)
                  | _ => match get (pname p) bound with
                         | Some v => Some (Given v)
                         | None => if pdef p then Some Default else None
                         end
                  end in
      match slot, finish s' bound star extra with Some x, Some r => Some ((pname p, x) :: r) | _, _ => None end
  end.

(* None = TypeError (missing / surplus / unknown / duplicate argument) *)
Definition py_call (s : sig) (pos : list json) (kw : list (string*json)) : option env :=
  let '(b, rest) := fill_pos s pos in
  if (negb (has_kind VP s)) && (match rest with [] => false | _ => true end) then None else
  match place_kw s b kw with
  | None => None
  | Some (b', extra) => finish s b' rest extra
  end.

(* ---------- inspect.Signature.bind, positional list only ---------- *)
Fixpoint rest_optional (ps : sig) : bool :=
  match ps with
  | [] => true
  | p :: ps' => match pk p with VP | VK => rest_optional ps' | _ => pdef p && rest_optional ps' end
  end.
(* returns .arguments: a var-positional parameter is bound to the tuple of the remaining values *)
Fixpoint sig_bind_pos (ps : sig) (args : list json) : option (list (string * json)) :=
  match args with
  | [] => if rest_optional ps then Some [] else None
  | a :: args' =>
      match ps with
      | [] => None
      | p :: ps' =>
          match pk p with
          | VK | KO => None
          | VP => if rest_optional ps' then Some [(pname p, JArr (a :: args'))] else None
          | _ => match sig_bind_pos ps' args' with Some r => Some ((pname p, a) :: r) | None => None end
          end
      end
  end.

(* ---------- inspect.Signature.bind, mapping only ---------- *)
Fixpoint remove_all (k : string) (l : list (string*json)) : list (string*json) :=
  match l with [] => [] | (k',v)::r => if String.eqb k k' then remove_all k r else (k',v) :: remove_all k r end.
Fixpoint sig_bind_kw_go (ps : sig) (kw : list (string*json)) (vk : option string) : option (list (string*json)) :=
  match ps with
  | [] => match kw with
          | [] => Some []
          | _ => match vk with Some n => Some [(n, JObj kw)] | None => None end
          end
  | p :: ps' =>
      match pk p with
      | VK => sig_bind_kw_go ps' kw (Some (pname p))
      | VP => sig_bind_kw_go ps' kw vk
      | k => match get (pname p) kw with
             | Some v => if pkind_eqb k PO then None
                         else match sig_bind_kw_go ps' (remove_all (pname p) kw) vk with
                              | Some r => Some ((pname p, v) :: r) | None => None end
             | None => if pdef p then sig_bind_kw_go ps' kw vk else None
             end
      end
  end.
Definition sig_bind_kw ps kw := sig_bind_kw_go ps kw None.

(* ---------- pjrpc ---------- *)
Inductive pparams := PPos (l : list json) | PKw (d : list (string * json)).

(* how the context reaches the method *)
Inductive ctxmode :=
| CtxNone
| CtxByName (n : string)        (* Method(context=n): passed as keyword n *)
| CtxPositional (n : string)    (* Method(context=n, positional=True): passed as first positional argument *)
| CtxView (wants : bool).       (* ViewMethod: the view is constructed with the context iff configured *)

Definition sig_exclude (n : string) (s : sig) : sig := filter (fun p => negb (String.eqb (pname p) n)) s.

Inductive invoke :=
| InvInvalid                      (* ValidationError: -32602, body not run *)
| InvCallFail                     (* TypeError when the partial is called: body not run, -32000 *)
| InvRan (e : env).               (* the body ran with these bindings *)

Definition validate_bind (s : sig) (p : pparams) : option (list (string * json)) :=
  match p with PPos l => sig_bind_pos s l | PKw d => sig_bind_kw s d end.

Definition method_invoke (s : sig) (cm : ctxmode) (ctx : json) (p : pparams) : invoke :=
  let s' := match cm with CtxByName n | CtxPositional n => sig_exclude n s | _ => s end in
  match validate_bind s' p with
  | None => InvInvalid
  | Some kwargs =>
      let '(pos, kw) := match cm with
                        | CtxByName n => ([], set n ctx kwargs)
                        | CtxPositional _ => ([ctx], kwargs)
                        | _ => ([], kwargs) end in
      match py_call s pos kw with Some e => InvRan e | None => InvCallFail end
  end.

(* ---------- the specification: what a direct Python call with the same arguments binds ---------- *)
(* The client sees the function minus its context parameter; a direct call of THAT function with the
   positional list or the mapping binds [e']; the server-side context then occupies its own parameter. *)
Definition insert_ctx (s : sig) (n : string) (ctx : json) (e' : env) : env :=
  map (fun p => (pname p, if String.eqb (pname p) n then Given ctx
                          else match get (pname p) e' with Some v => v | None => Default end)) s.
Definition direct_call (s : sig) (cm : ctxmode) (ctx : json) (p : pparams) : option env :=
  let '(pos, kw) := match p with PPos l => (l, []) | PKw d => ([], d) end in
  match cm with
  | CtxByName n | CtxPositional n =>
      match py_call (sig_exclude n s) pos kw with
      | Some e' => Some (insert_ctx s n ctx e')
      | None => None end
  | _ => py_call s pos kw
  end.

(* well-formed Python signatures *)
Definition kind_rank k := match k with PO => 0 | PK => 1 | VP => 2 | KO => 3 | VK => 4 end.
Fixpoint sorted_kinds (s : sig) : bool :=
  match s with
  | p :: ((q :: _) as r) => Nat.leb (kind_rank (pk p)) (kind_rank (pk q)) && sorted_kinds r
  | _ => true end.
Fixpoint defaults_ok (seen : bool) (s : sig) : bool :=
  match s with
  | [] => true
  | p :: r => match pk p with
              | PO | PK => if pdef p then defaults_ok true r else negb seen && defaults_ok seen r
              | VP | VK => negb (pdef p) && defaults_ok seen r
              | KO => defaults_ok seen r end
  end.
Fixpoint names_distinct (s : sig) : bool :=
  match s with [] => true | p :: r => negb (existsb (fun q => String.eqb (pname p) (pname q)) r) && names_distinct r end.
Definition count_kind k (s : sig) := List.length (filter (fun p => pkind_eqb (pk p) k) s).
Definition wf_sig (s : sig) : bool :=
  sorted_kinds s && defaults_ok false s && names_distinct s
  && Nat.leb (count_kind VP s) 1 && Nat.leb (count_kind VK s) 1.
(* the class on which pjrpc's path is faithful to a direct call *)
Definition simple_sig (s : sig) : bool :=
  forallb (fun p => match pk p with PK | KO => true | _ => false end) s.
