(* Model of pjrpc/client/retry.py (backoff generators, retry / retry_async loops) and of the `retried` and
   `traced` wrappers of pjrpc/client/client.py.  One definition serves the synchronous and the asynchronous
   halves (their texts differ only in `time.sleep` vs `await asyncio.sleep` and `await`).
   Delays are exact rationals; the jitter function is a stream indexed by the number of calls made to it. *)
From Coq Require Import ZArith QArith List Bool.
Import ListNotations.
Open Scope Q_scope.

(* ---------- backoffs ---------- *)
Inductive backoff :=
| Periodic (attempts : nat) (interval : Q)
| Exponential (attempts : nat) (base factor : Q) (max_value : option Q)
| Fibonacci (attempts : nat) (multiplier : Q) (max_value : option Q).

Definition cap (m : option Q) (v : Q) : Q :=
  match m with Some mx => if Qle_bool mx v then mx else v | None => v end.     (* min(max_value, value) *)

(* the generator of FibonacciBackoff: state (prev, cur), one jitter call per delay *)
Fixpoint fib_gen (n : nat) (k : nat) (prev cur : Z) (mult : Q) (mx : option Q) (jit : nat -> Q) : list Q :=
  match n with
  | O => []
  | S n' => cap mx (inject_Z cur * mult + jit k) :: fib_gen n' (S k) cur (prev + cur)%Z mult mx jit
  end.

Definition delays (b : backoff) (jit : nat -> Q) : list Q :=
  match b with
  | Periodic n interval => map (fun k => interval + jit k) (seq 0 n)
  | Exponential n base factor mx => map (fun k => cap mx (base * Qpower factor (Z.of_nat k) + jit k)) (seq 0 n)
  | Fibonacci n mult mx => fib_gen n 0 1 1 mult mx jit
  end.
Definition attempts_of (b : backoff) : nat :=
  match b with Periodic n _ | Exponential n _ _ _ | Fibonacci n _ _ => n end.

(* ---------- what one send attempt ends in ---------- *)
Inductive akind :=
| KResp (err : option Z)    (* a response object: Some code when `is_error` (an error response / a batch-level error) *)
| KNone                     (* no response: the request was a notification *)
| KExc (cls : nat).         (* an exception of class cls was raised (class table shared with the harness) *)
Record attempt := { a_kind : akind; a_tag : nat }.     (* the tag identifies the very object returned / raised *)

Record strategy := { s_backoff : backoff; s_codes : option (list Z); s_excs : option (list nat) }.

(* issubclass on the harness's exception classes:
   0 ConnectionError  1 SubConn(ConnectionError)  2 TimeoutError  3 ValueError  4 KeyboardInterrupt
   5 asyncio.CancelledError  6 pjrpc DeserializationError  7 pjrpc IdentityError  8 json.JSONDecodeError
   9 Exception  10 OSError  11 BaseException *)
Definition subclass (c parent : nat) : bool :=
  Nat.eqb c parent
  || match parent with
     | 11 => true
     | 9 => negb (Nat.eqb c 4 || Nat.eqb c 5 || Nat.eqb c 11)
     | 10 => Nat.eqb c 0 || Nat.eqb c 1 || Nat.eqb c 2
     | 0 => Nat.eqb c 1
     | 3 => Nat.eqb c 6 || Nat.eqb c 8           (* DeserializationError and JSONDecodeError are ValueErrors *)
     | _ => false end%nat.

Definition retryable (s : strategy) (a : attempt) : bool :=
  match a_kind a with
  | KResp (Some code) => match s_codes s with Some cs => existsb (Z.eqb code) cs | None => false end
  | KResp None | KNone => false
  | KExc c => match s_excs s with Some ps => existsb (subclass c) ps | None => false end
  end.

(* the loop: structural on the script of attempt outcomes; each retry consumes one delay *)
Record run := { r_sends : nat; r_sleeps : list Q; r_final : option attempt }.
Fixpoint retry_loop (s : strategy) (ds : list Q) (script : list attempt) {struct script} : run :=
  match script with
  | [] => {| r_sends := 0; r_sleeps := []; r_final := None |}          (* script exhausted: excluded by the theorems *)
  | a :: rest =>
      if retryable s a then
        match ds with
        | d :: ds' => let r := retry_loop s ds' rest in
                      {| r_sends := S (r_sends r); r_sleeps := d :: r_sleeps r; r_final := r_final r |}
        | [] => {| r_sends := 1; r_sleeps := []; r_final := Some a |}
        end
      else {| r_sends := 1; r_sleeps := []; r_final := Some a |}
  end.

(* `retried`: the per-request strategy replaces the client's; None disables retrying *)
Inductive per_request := RUnset | RNone | RSome (s : strategy).
Definition effective (client : option strategy) (p : per_request) : option strategy :=
  match p with RUnset => client | RNone => None | RSome s => Some s end.

Definition send_with (client : option strategy) (p : per_request) (jit : nat -> Q) (script : list attempt) : run :=
  match effective client p with
  | Some s => retry_loop s (delays (s_backoff s) jit) script
  | None => match script with
            | a :: _ => {| r_sends := 1; r_sleeps := []; r_final := Some a |}
            | [] => {| r_sends := 0; r_sleeps := []; r_final := None |} end
  end.

(* ---------- tracers: retried(traced(_send)) - every attempt is traced ---------- *)
Inductive tctx := CtxCaller | CtxFresh (attempt_index : nat).     (* `_trace_ctx or SimpleNamespace()` per attempt *)
Inductive tev :=
| TBegin (tracer : nat) (c : tctx)
| TEnd (tracer : nat) (c : tctx) (resp_tag : option nat)            (* None: the response is None (notification) *)
| TError (tracer : nat) (c : tctx) (exc_tag : nat).

Definition trace_attempt (tracers : nat) (supplied : bool) (idx : nat) (a : attempt) : list tev :=
  let c := if supplied then CtxCaller else CtxFresh idx in
  map (fun t => TBegin t c) (seq 0 tracers)
  ++ map (fun t => match a_kind a with
                   | KResp _ => TEnd t c (Some (a_tag a))
                   | KNone => TEnd t c None
                   | KExc _ => TError t c (a_tag a) end) (seq 0 tracers).

(* the events of a whole call: one bracket per attempt actually sent *)
Fixpoint trace_attempts (tracers : nat) (supplied : bool) (idx : nat) (sent : list attempt) : list tev :=
  match sent with
  | [] => []
  | a :: q => trace_attempt tracers supplied idx a ++ trace_attempts tracers supplied (S idx) q
  end.
Definition traced_run (client : option strategy) (p : per_request) (jit : nat -> Q) (tracers : nat) (supplied : bool)
           (script : list attempt) : run * list tev :=
  let r := send_with client p jit script in
  (r, trace_attempts tracers supplied 0 (firstn (r_sends r) script)).
