(* Model of the document assemblers OpenAPI.schema (specs/openapi.py:677-763) and OpenRPC.schema (specs/openrpc.py:448-488):
   the skeleton of a generated document - one entry per method under its key, the error codes it documents, the component
   keys registered under the method's prefix and the references its schemas make.  What the schema extractors return for a
   method (error list, component names, names referenced) is oracle data, prefix-abstract: the ASSEMBLER forms prefix ++ name.
   The lists a user passed to annotate(errors=[...]) live in a heap so that "does not modify what the user passed in" can be stated. *)
From Coq Require Import ZArith List String Ascii Bool.
From PJ Require Import Base.Json.
Import ListNotations.
Open Scope string_scope. Open Scope list_scope.

Definition heap := list (list Z).
Record smethod := {
  sm_key : string;                   (* OpenAPI: "<endpoint path>#<method name>" ; OpenRPC: the method name *)
  sm_ann_errors : option nat;        (* annotate(errors=L): the heap index of the user's list L *)
  sm_ext_errors : list Z;            (* error codes the extractors report for this method (docstring :raises: ...) *)
  sm_prefix : option string;         (* annotate(component_name_prefix=...) ; '' counts as absent *)
  sm_comps : list string;            (* component base names the extractors return for this method *)
  sm_refs : list string }.           (* component base names the schemas of this method refer to *)
Record entry := { en_errors : list Z; en_refs : list string; en_comps : list string }.
Record sdoc := { d_paths : list (string * entry); d_components : list string }.

Fixpoint dedup (seen : list Z) (l : list Z) : list Z :=
  match l with [] => [] | c :: r => if existsb (Z.eqb c) seen then dedup seen r else c :: dedup (c :: seen) r end.
Definition own_prefix (global : string) (m : smethod) : string :=
  match sm_prefix m with Some p => if String.eqb p "" then global else p | None => global end.
(* _extract_errors: a COPY of the annotated list, extended by the extractors' errors, unique by code *)
Definition method_errors (h : heap) (m : smethod) : list Z :=
  dedup [] ((match sm_ann_errors m with Some i => nth i h [] | None => [] end) ++ sm_ext_errors m).
Definition entry_of (global : string) (h : heap) (m : smethod) : entry :=
  let p := own_prefix global m in
  {| en_errors := method_errors h m; en_refs := map (fun n => p ++ n)%string (sm_refs m); en_comps := map (fun n => p ++ n)%string (sm_comps m) |}.

Fixpoint add_all (l : list string) (acc : list string) : list string :=
  match l with [] => acc | x :: r => add_all r (if mem_str x acc then acc else acc ++ [x]) end.

(* the loop of OpenAPI.schema: paths[key] = entry (dict assignment), components.update(...) ; the heap is only read *)
Definition generate (global : string) (h : heap) (ms : list smethod) : sdoc * heap :=
  (fold_left (fun d m => let e := entry_of global h m in
                         {| d_paths := set (sm_key m) e (d_paths d); d_components := add_all (en_comps e) (d_components d) |})
             ms {| d_paths := []; d_components := [] |}, h).
(* OpenRPC.schema appends to a list instead of assigning into a dict *)
Definition generate_rpc (h : heap) (ms : list smethod) : list (string * entry) * heap :=
  (map (fun m => (sm_key m, entry_of "" h m)) ms, h).
