(* Model of the HTTP integrations' request gate and reply (integration/aiohttp.py:150-169, flask.py:165-190,
   werkzeug.py:25-60).  Header parsing (the media type of a Content-Type value), body decoding and the frameworks'
   response classes are oracles; [media_type] below is the SPECIFICATION of what they must compute. *)
From Coq Require Import ZArith List String Ascii Bool.
From PJ Require Import Base.Json Base.Res Generated.Consts.
Import ListNotations.
Open Scope string_scope. Open Scope list_scope.

Definition lower_ascii (c : ascii) : ascii :=
  let n := nat_of_ascii c in if (Nat.leb 65 n && Nat.leb n 90)%bool then ascii_of_nat (n + 32) else c.
Fixpoint lower (s : string) : string := match s with EmptyString => EmptyString | String c r => String (lower_ascii c) (lower r) end.
Definition is_space (c : ascii) : bool := (Ascii.eqb c " " || Ascii.eqb c "009")%char%bool.
Fixpoint ltrim (s : string) : string := match s with String c r => if is_space c then ltrim r else s | EmptyString => EmptyString end.
Fixpoint rtrim (s : string) : string :=
  match s with
  | EmptyString => EmptyString
  | String c r => match rtrim r with EmptyString => if is_space c then EmptyString else String c EmptyString | r' => String c r' end
  end.
Fixpoint before_semicolon (s : string) : string :=
  match s with EmptyString => EmptyString | String c r => if Ascii.eqb c ";"%char then EmptyString else String c (before_semicolon r) end.
(* the media type of a Content-Type header value: the text before the first ';', trimmed, lower-cased *)
Definition media_type (h : option string) : option string :=
  match h with None => None | Some v => Some (lower (rtrim (ltrim (before_semicolon v)))) end.
Definition accepted_type (h : option string) : bool :=
  match media_type h with Some t => mem_str t request_content_types | None => false end.

Inductive body := BText (dispatch_out : option (json * list Z))      (* decodable body; what the dispatcher returned for it *)
                | BUndecodable.                                       (* not valid UTF-8 *)
Inductive status_fn := SDefault | SFirstError (table : list (Z * Z)) (other : Z) (allok : Z)
                     | SMixed (allfail partial allok : Z)      (* looks at the successes too: 207-style gateways *)
                     | SCount (base : Z)                        (* depends on how many calls were answered *)
                     | SExact (table : list (list Z * Z)) (other : Z).   (* a lookup keyed by the whole tuple *)
Fixpoint ltable (c : list Z) (t : list (list Z * Z)) : option Z :=
  match t with [] => None | (k, v) :: r => if list_eqb Z.eqb k c then Some v else ltable c r end.
(* the harness's status functions: [allok] when every code is 0, else the table entry of the first non-zero code, else [other] *)
Fixpoint first_error (codes : list Z) : option Z :=
  match codes with [] => None | c :: r => if Z.eqb c 0 then first_error r else Some c end.
Fixpoint ztable (c : Z) (t : list (Z * Z)) : option Z := match t with [] => None | (k, v) :: r => if Z.eqb k c then Some v else ztable c r end.
Definition status_of (f : status_fn) (codes : list Z) : Z :=
  match f with
  | SDefault => 200
  | SFirstError t other allok => match first_error codes with None => allok | Some c => match ztable c t with Some s => s | None => other end end
  | SMixed allfail partial allok =>
      if forallb (Z.eqb 0) codes then allok else if existsb (Z.eqb 0) codes then partial else allfail
  | SCount base => base + Z.of_nat (List.length codes)
  | SExact t other => match ltable codes t with Some s => s | None => other end
  end%Z.

Record reply := { r_status : Z; r_ctype : option string; r_body : option json; r_dispatched : bool }.
Inductive integration := IAiohttp | IFlask | IWerkzeug.
(* werkzeug has no status_by_error parameter: always 200 *)
Definition effective_status (i : integration) (f : status_fn) : status_fn := match i with IWerkzeug => SDefault | _ => f end.

Definition handle (i : integration) (f : status_fn) (header : option string) (b : body) : reply :=
  if negb (accepted_type header) then {| r_status := 415; r_ctype := None; r_body := None; r_dispatched := false |}
  else match b with
       | BUndecodable => {| r_status := 400; r_ctype := None; r_body := None; r_dispatched := false |}
       | BText None => {| r_status := 200; r_ctype := None; r_body := None; r_dispatched := true |}
       | BText (Some (doc, codes)) =>
           {| r_status := status_of (effective_status i f) codes; r_ctype := Some default_content_type; r_body := Some doc; r_dispatched := true |}
       end.
