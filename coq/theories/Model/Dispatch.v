(* Model of pjrpc/server/dispatcher.py : Dispatcher.dispatch / AsyncDispatcher.dispatch (sequential
   semantics; the concurrent schedule of the async batch path is Model/Async.v).  No proofs here. *)
From Coq Require Import ZArith List String Ascii Bool.
From PJ Require Import Base.Json Base.Res Model.Msg Model.Bind Generated.Consts.
Import ListNotations.
Open Scope string_scope. Open Scope list_scope.

(* what running user code produces *)
Inductive outcome := ORet (v : json) | ORpc (e : rpc_error) | OExc (tag : nat).

(* a registered method, as the dispatcher sees it: bind the parameters, then maybe run the body *)
Inductive minvoke :=
| MInvalid (data : json)          (* validators.ValidationError -> InvalidParamsError(data=e); body not run *)
| MInternal                       (* bind raised something else -> InternalError; body not run *)
| MCallFail                       (* the bound partial raised TypeError when called -> ServerError; body not run *)
| MRan (args : env) (o : outcome).
Definition rmethod := json -> params -> minvoke.          (* context -> params -> ... *)

Inductive event :=
| EvCall (name : string) (args : env)
| EvMwEnter (i : nat) (r : request)
| EvMwExit (i : nat) (resp : option response)
| EvEh (key : option Z) (i : nat) (e : rpc_error).

(* a middleware either answers itself or passes a (possibly rewritten) request on and may rewrite the answer *)
Record middleware := {
  mw_pre : request -> json -> request + option response;
  mw_post : request -> json -> option response -> option response }.
Definition ehandler := request -> json -> rpc_error -> rpc_error.

Record config := {
  c_registry : list (string * rmethod);
  c_mws : list middleware;
  c_ehs : list (option Z * list ehandler);
  c_max_batch : option Z }.

Definition TEXT : json := JStr "<text>".           (* library-generated human-readable text, abstracted *)
Definition std_error (cls : string) (code : Z) (msg : string) (data : option json) : rpc_error :=
  {| e_code := code; e_msg := msg; e_data := data; e_class := cls |}.
Definition parse_error := std_error "ParseError" ParseError_code ParseError_message (Some TEXT).
Definition invalid_request := std_error "InvalidRequestError" InvalidRequestError_code InvalidRequestError_message (Some TEXT).
Definition method_not_found := std_error "MethodNotFoundError" MethodNotFoundError_code MethodNotFoundError_message (Some TEXT).
Definition invalid_params (d : json) := std_error "InvalidParamsError" InvalidParamsError_code InvalidParamsError_message (Some d).
Definition internal_error := std_error "InternalError" InternalError_code InternalError_message None.
Definition server_error := std_error "ServerError" ServerError_code ServerError_message None.

Definition log := list event.

(* _handle_rpc_method *)
Inductive hres := HVal (v : json) | HErr (e : rpc_error).
Definition handle_rpc_method (cfg : config) (name : string) (p : params) (ctx : json) : hres * log :=
  match get name (c_registry cfg) with
  | None => (HErr method_not_found, [])
  | Some m =>
      match m ctx p with
      | MInvalid d => (HErr (invalid_params d), [])
      | MInternal => (HErr internal_error, [])          (* via the catch-all of _handle_request *)
      | MCallFail => (HErr server_error, [])
      | MRan args o =>
          (match o with ORet v => HVal v | ORpc e => HErr e | OExc _ => HErr server_error end,
           [EvCall name args])
      end
  end.

Fixpoint get_eh (k : option Z) (t : list (option Z * list ehandler)) : list ehandler :=
  match t with
  | [] => []
  | (k', hs) :: q => if option_eqb Z.eqb k k' then hs else get_eh k q
  end.

Fixpoint run_ehs (key : option Z) (i : nat) (hs : list ehandler) (r : request) (ctx : json) (e : rpc_error) : rpc_error * log :=
  match hs with
  | [] => (e, [])
  | h :: q => let e' := h r ctx e in
              let '(e'', lg) := run_ehs key (S i) q r ctx e' in (e'', EvEh key i e :: lg)
  end.

(* _handle_request : the innermost handler *)
Definition handle_request (cfg : config) (r : request) (ctx : json) : option response * log :=
  let '(h, lg) := handle_rpc_method cfg (r_method r) (r_params r) ctx in
  match h with
  | HVal v => (match r_id r with None => None | Some _ => Some (RResult (r_id r) v) end, lg)
  | HErr e =>
      (* the per-code list is chosen by the code of the RAISED error, before any handler ran *)
      let '(e1, lg1) := run_ehs None 0 (get_eh None (c_ehs cfg)) r ctx e in
      let '(e2, lg2) := run_ehs (Some (e_code e)) 0 (get_eh (Some (e_code e)) (c_ehs cfg)) r ctx e1 in
      (match r_id r with None => None | Some _ => Some (RError (r_id r) e2) end, lg ++ lg1 ++ lg2)
  end.

(* the middleware chain: first declared outermost *)
Fixpoint chain (mws : list middleware) (i : nat) (base : request -> json -> option response * log)
         (r : request) (ctx : json) : option response * log :=
  match mws with
  | [] => base r ctx
  | m :: rest =>
      match mw_pre m r ctx with
      | inr resp => (resp, [EvMwEnter i r; EvMwExit i resp])
      | inl r' =>
          let '(resp, lg) := chain rest (S i) base r' ctx in
          let resp' := mw_post m r ctx resp in
          (resp', EvMwEnter i r :: lg ++ [EvMwExit i resp'])
      end
  end.
Definition request_handler (cfg : config) := chain (c_mws cfg) 0 (handle_request cfg).

(* what the configured json_loader did with the request text *)
Inductive load_result :=
| LOk (v : json)
| LDecodeError          (* json.JSONDecodeError *)
| LValueError           (* another ValueError, e.g. an integer literal above the interpreter's digit limit *)
| LRaise (x : exn).     (* anything else: outside the loader contract *)

Definition resp_code (r : response) : Z := match r with RResult _ _ => 0%Z | RError _ e => e_code e end.
Definition single (r : response) : option (json * list Z) := Some (resp_to_json r, [resp_code r]).
Definition reject (e : rpc_error) : res (option (json * list Z)) * log := (Ok (single (RError None e)), []).

Definition too_large (mb : option Z) (n : nat) : bool :=
  match mb with
  | Some m => negb (Z.eqb m 0) && Z.ltb m (Z.of_nat n)       (* `self._max_batch_size and len(request) > ...` *)
  | None => false end.

Definition dispatch (cfg : config) (l : load_result) (ctx : json) : res (option (json * list Z)) * log :=
  match l with
  | LRaise x => (Raise x, [])
  | LDecodeError | LValueError => reject parse_error
  | LOk (JArr elems) =>
      match breq_from_json (JArr elems) with
      | Raise _ => reject invalid_request
      | Ok b =>
          if too_large (c_max_batch cfg) (List.length (b_items b)) then reject invalid_request else
          let outs := map (fun r => request_handler cfg r ctx) (b_items b) in
          let resps := cat_some (map fst outs) in
          let lg := List.concat (map snd outs) in
          match batch_extend resp_id batch_empty resps with
          | Raise x => (Raise x, lg)               (* BatchResponse( *resps ) with duplicate ids *)
          | Ok rb =>
              match b_items rb with
              | [] => (Ok None, lg)
              | rs => (Ok (Some (JArr (map resp_to_json rs), map resp_code rs)), lg)
              end
          end
      end
  | LOk v =>
      match req_from_json v with
      | Raise _ => reject invalid_request
      | Ok r =>
          let '(resp, lg) := request_handler cfg r ctx in
          (Ok (match resp with Some x => single x | None => None end), lg)
      end
  end.

(* ---------- the JSON-RPC 2.0 response grammar, written independently (C01) ---------- *)
Definition wf_error_obj (j : json) : bool :=
  match j with
  | JObj kvs =>
      match get "code" kvs, get "message" kvs with
      | Some (JInt _), Some (JStr _) => forallb (fun k => mem_str k ["code"; "message"; "data"]) (keys kvs)
      | _, _ => false end
  | _ => false end.
Definition wf_response_obj (j : json) : bool :=
  match j with
  | JObj kvs =>
      match get "jsonrpc" kvs with Some (JStr v) => String.eqb v "2.0" | _ => false end
      && match get "id" kvs with Some (JStr _ | JInt _ | JNull) => true | _ => false end
      && match get "result" kvs, get "error" kvs with
         | Some _, None => true
         | None, Some e => wf_error_obj e
         | _, _ => false end
      && forallb (fun k => mem_str k ["jsonrpc"; "id"; "result"; "error"]) (keys kvs)
  | _ => false end.
Definition wf_response_doc (j : json) : bool :=
  match j with
  | JArr [] => false
  | JArr l => forallb wf_response_obj l
  | _ => wf_response_obj j end.
Definition code_of_obj (j : json) : Z :=
  match j with
  | JObj kvs => match get "error" kvs with
                | Some (JObj e) => match get "code" e with Some (JInt c) => c | _ => 0%Z end
                | _ => 0%Z end
  | _ => 0%Z end.
Definition codes_of_doc (j : json) : list Z :=
  match j with JArr l => map code_of_obj l | _ => [code_of_obj j] end.
