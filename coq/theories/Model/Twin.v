(* The places where the synchronous and the asynchronous halves of dispatcher.py genuinely differ in text (C11):
   - the batch filter:  sync  `if not isinstance(resp, UnsetType)`   async  `if resp`  (truthiness);
   - the element driver: sync generator expression   async gather / sequential awaits (Model/Async.v);
   - the method call:    async awaits the result when it is a coroutine (plain functions are served too). *)
From Coq Require Import ZArith List String Bool.
From PJ Require Import Base.Json Base.Res Model.Msg Generated.Consts.
Import ListNotations.

Definition keep_sync (o : option response) : bool := match o with None => false | Some _ => true end.
(* Python truthiness of what a handler returned: UNSET is falsy (UnsetType.__bool__), a Response object is truthy because the
   class defines neither __bool__ nor __len__ - both facts are read from the live classes into Generated/Consts.v *)
Definition keep_async (o : option response) : bool :=
  match o with None => negb unset_is_falsy | Some _ => response_always_truthy end.
Definition collect_with (keep : option response -> bool) (outs : list (option response)) : list response :=
  cat_some (filter keep outs).

(* what calling the bound method yields: a value/exception directly, or a coroutine that yields it when awaited *)
Inductive called (A : Type) := Direct (a : A) | Coroutine (a : A).
Arguments Direct {A}. Arguments Coroutine {A}.
(* AsyncDispatcher._handle_rpc_method: `if asyncio.iscoroutine(result): result = await result` *)
Definition async_result {A} (c : called A) : A := match c with Direct a | Coroutine a => a end.
