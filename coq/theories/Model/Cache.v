(* Model of the library's cross-request state (C13): the memoised BaseValidator._signature (keyed by validator,
   underlying function, excluded names, bound flag) and PydanticValidator.build_validation_schema (keyed by the signature).
   functools.lru_cache(None) is a transparent, unbounded memo table. *)
From Coq Require Import ZArith List String Ascii Bool Arith.
From PJ Require Import Base.Json Model.Bind.
Import ListNotations.

Definition ckey := (nat * nat * list string * bool)%type.       (* validator id, function id, excluded names, bound method? *)
Definition ckey_eqb (a b : ckey) : bool :=
  let '(v1, f1, e1, b1) := a in let '(v2, f2, e2, b2) := b in
  Nat.eqb v1 v2 && Nat.eqb f1 f2 && list_eqb String.eqb e1 e2 && Bool.eqb b1 b2.

Section Memo.
Variable V : Type.
Variable compute : ckey -> V.                       (* inspect.signature + exclusion: a function of the key alone *)
Definition cache := list (ckey * V).
Fixpoint lookup (k : ckey) (c : cache) : option V :=
  match c with [] => None | (k', v) :: r => if ckey_eqb k k' then Some v else lookup k r end.
Definition memo (c : cache) (k : ckey) : V * cache :=
  match lookup k c with Some v => (v, c) | None => let v := compute k in (v, (k, v) :: c) end.
(* a history of dispatches = the sequence of keys they ask for *)
Fixpoint memo_all (c : cache) (ks : list ckey) : list V * cache :=
  match ks with [] => ([], c) | k :: q => let '(v, c1) := memo c k in let '(vs, c2) := memo_all c1 q in (v :: vs, c2) end.
Definition cache_ok (c : cache) : Prop := forall k v, lookup k c = Some v -> v = compute k.
End Memo.
Arguments lookup {V}. Arguments memo {V}. Arguments memo_all {V}. Arguments cache_ok {V}.

(* the key a dispatch to a registered method asks for depends on the REGISTRATION only - never on the request, its
   context or the per-request view instance (for a class based view the bound method is replaced by its function) *)
Record regmethod := { rm_validator : nat; rm_fn : nat; rm_ctx : option string; rm_view : bool }.
Definition key_of (m : regmethod) : ckey :=
  (rm_validator m, rm_fn m, (if rm_view m then [] else match rm_ctx m with Some c => [c] | None => [] end), rm_view m).

(* ---------- binding through the cache ---------- *)
(* BaseValidator._signature: inspect.signature(function) minus the excluded names (for a bound method: minus self, which the
   signature descriptors of the model never contain) *)
Definition compute_sig (sigs : nat -> sig) (k : ckey) : sig :=
  let '(_, f, excl, _) := k in filter (fun p => negb (mem_str (pname p) excl)) (sigs f).
(* Method.bind with the (possibly cached) context-free signature s' *)
Definition method_invoke_with (s' s : sig) (cm : ctxmode) (ctx : json) (p : pparams) : invoke :=
  match validate_bind s' p with
  | None => InvInvalid
  | Some kwargs =>
      let '(pos, kw) := match cm with
                        | CtxByName n => ([], set n ctx kwargs)
                        | CtxPositional _ => ([ctx], kwargs)
                        | _ => ([], kwargs) end in
      match py_call s pos kw with Some e => InvRan e | None => InvCallFail end
  end.
Definition ctx_name (cm : ctxmode) : option string := match cm with CtxByName n | CtxPositional n => Some n | _ => None end.
Definition is_view (cm : ctxmode) : bool := match cm with CtxView _ => true | _ => false end.
Definition invoke_cached (sigs : nat -> sig) (c : cache sig) (validator fn : nat) (cm : ctxmode) (ctx : json) (p : pparams)
  : invoke * cache sig :=
  let m := {| rm_validator := validator; rm_fn := fn; rm_ctx := ctx_name cm; rm_view := is_view cm |} in
  let '(s', c') := memo (compute_sig sigs) c (key_of m) in
  (method_invoke_with s' (sigs fn) cm ctx p, c').
