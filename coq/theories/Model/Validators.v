(* Model of the parameter validators (validators/jsonschema.py, validators/pydantic.py) on top of Model/Bind.v.
   - JSON Schema: the fragment of the property's quantifier has an executable semantics [js_valid], which is the
     DEFINITION of "satisfies the schema" (cross-checked against the jsonschema package on every case);
   - pydantic: the per-argument verdict (accepted with a possibly converted value / rejected) is oracle data. *)
From Coq Require Import ZArith List String Ascii Bool.
From PJ Require Import Base.Json Base.Res Model.Bind.
Import ListNotations.
Open Scope string_scope. Open Scope list_scope.

Inductive jtype := TInteger | TNumber | TString | TBoolean | TNull | TArray | TObject.
Inductive schema :=
| SAny
| SNode (ty : option jtype) (enum : option (list json)) (minimum maximum : option Z)
        (props : list (string * schema)) (required : list string) (additional : bool) (items : option schema).

Definition type_ok (t : option jtype) (v : json) : bool :=
  match t with
  | None => true
  | Some TInteger => match v with JInt _ => true | _ => false end           (* a bool is not an integer *)
  | Some TNumber => match v with JInt _ | JFloat _ => true | _ => false end
  | Some TString => match v with JStr _ => true | _ => false end
  | Some TBoolean => match v with JBool _ => true | _ => false end
  | Some TNull => match v with JNull => true | _ => false end
  | Some TArray => match v with JArr _ => true | _ => false end
  | Some TObject => match v with JObj _ => true | _ => false end
  end.
Definition enum_ok (e : option (list json)) (v : json) : bool :=
  match e with None => true | Some l => existsb (json_eqb v) l end.
Definition bound_ok (mn mx : option Z) (v : json) : bool :=
  match v with
  | JInt z => match mn with Some m => Z.leb m z | None => true end && match mx with Some m => Z.leb z m | None => true end
  | _ => true end.

Fixpoint js_valid (s : schema) (v : json) {struct s} : bool :=
  match s with
  | SAny => true
  | SNode ty en mn mx props req add items =>
      type_ok ty v && enum_ok en v && bound_ok mn mx v
      && match v with
         | JObj kvs =>
             forallb (fun r => has r kvs) req
             && forallb (fun k => add || has k props) (keys kvs)
             && (fix go (ps : list (string * schema)) : bool :=
                   match ps with
                   | [] => true
                   | (k, sub) :: r => match get k kvs with Some x => js_valid sub x | None => true end && go r
                   end) props
         | JArr l => match items with Some it => forallb (js_valid it) l | None => true end
         | _ => true
         end
  end.

(* JsonSchemaValidator.validate_method : bind, then validate the bound-argument mapping against the schema *)
Definition validate_js (s' : sig) (sc : schema) (p : pparams) : option (list (string * json)) :=
  match validate_bind s' p with
  | Some kw => if js_valid sc (JObj kw) then Some kw else None
  | None => None end.
Definition excluded_sig (s : sig) (cm : ctxmode) : sig :=
  match cm with CtxByName n | CtxPositional n => sig_exclude n s | _ => s end.
Definition call_with (s : sig) (cm : ctxmode) (ctx : json) (kwargs : list (string * json)) : invoke :=
  let '(pos, kw) := match cm with
                    | CtxByName n => ([], set n ctx kwargs)
                    | CtxPositional _ => ([ctx], kwargs)
                    | _ => ([], kwargs) end in
  match py_call s pos kw with Some e => InvRan e | None => InvCallFail end.
Definition invoke_js (s : sig) (cm : ctxmode) (ctx : json) (sc : schema) (p : pparams) : invoke :=
  match validate_js (excluded_sig s cm) sc p with Some kw => call_with s cm ctx kw | None => InvInvalid end.

(* PydanticValidator.validate_method : bind, validate every bound argument (oracle), optionally pass the converted values *)
Definition verdicts := list (string * option json).        (* argument name -> Some converted value | None = rejected *)
Fixpoint apply_verdicts (o : verdicts) (kw : list (string * json)) : option (list (string * json)) :=
  match kw with
  | [] => Some []
  | (n, v) :: r =>
      match get n o with
      | Some (Some v') => match apply_verdicts o r with Some r' => Some ((n, v') :: r') | None => None end
      | _ => None end
  end.
Definition validate_pyd (s' : sig) (o : verdicts) (coerce : bool) (p : pparams) : option (list (string * json)) :=
  match validate_bind s' p with
  | Some kw => match apply_verdicts o kw with Some kw' => Some (if coerce then kw' else kw) | None => None end
  | None => None end.
Definition invoke_pyd (s : sig) (cm : ctxmode) (ctx : json) (o : verdicts) (coerce : bool) (p : pparams) : invoke :=
  match validate_pyd (excluded_sig s cm) o coerce p with Some kw => call_with s cm ctx kw | None => InvInvalid end.

(* exclude_param=predicate (validators/base.py:_signature, every validator class): the parameters the predicate selects - here by
   their names [xs] - are removed, together with the context parameter, from the signature the request is bound to and validated
   against; the body then sees its own defaults for them (dependency injection) *)
Definition sig_exclude_all (xs : list string) (s : sig) : sig := filter (fun p => negb (mem_str (pname p) xs)) s.
Definition excluded_sig_x (s : sig) (cm : ctxmode) (xs : list string) : sig := sig_exclude_all xs (excluded_sig s cm).
Definition invoke_base_x (s : sig) (cm : ctxmode) (xs : list string) (ctx : json) (p : pparams) : invoke :=
  match validate_bind (excluded_sig_x s cm xs) p with Some kw => call_with s cm ctx kw | None => InvInvalid end.
Definition invoke_js_x (s : sig) (cm : ctxmode) (xs : list string) (ctx : json) (sc : schema) (p : pparams) : invoke :=
  match validate_js (excluded_sig_x s cm xs) sc p with Some kw => call_with s cm ctx kw | None => InvInvalid end.
Definition invoke_pyd_x (s : sig) (cm : ctxmode) (xs : list string) (ctx : json) (o : verdicts) (coerce : bool) (p : pparams) : invoke :=
  match validate_pyd (excluded_sig_x s cm xs) o coerce p with Some kw => call_with s cm ctx kw | None => InvInvalid end.
(* what a direct call of the function the CLIENT sees (the signature minus the excluded parameters) binds, widened by the
   excluded parameters at their defaults *)
Definition widen (s : sig) (e' : env) : env :=
  map (fun p => (pname p, match get (pname p) e' with Some v => v | None => Default end)) s.
