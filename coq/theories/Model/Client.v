(* Model of pjrpc/client/client.py (request building in every notation, _send, _relate for single requests
   and batches, result extraction) and pjrpc/common/generators.py.  Executable definitions only. *)
From Coq Require Import ZArith List String Ascii Bool.
From PJ Require Import Base.Json Base.Res Model.Msg Generated.Consts.
Import ListNotations.
Open Scope string_scope. Open Scope list_scope.

(* ---------- id generators ---------- *)
Inductive gen :=
| GSeq (start step : Z)             (* generators.sequential *)
| GStream (ids : list idv)          (* randint / random: the values the generator yielded, recorded by the harness *)
| GUuid.                            (* generators.uuid: yields uuid.UUID objects, which the JSON encoder cannot serialise *)
Definition gen_nth (g : gen) (k : nat) : res idv :=
  match g with
  | GSeq a s => Ok (IInt (a + s * Z.of_nat k)%Z)
  | GStream l => match nth_error l k with Some i => Ok i | None => Raise XValue end
  | GUuid => Raise XType
  end.

(* ---------- building requests ---------- *)
(* `params = args or kwargs` : the positional tuple when non-empty, else the keyword dict (possibly empty) *)
Definition mk_params (pos : list json) (kw : list (string * json)) : res params :=
  match pos, kw with
  | _ :: _, _ :: _ => Raise XAssert          (* "positional and keyword arguments are mutually exclusive" *)
  | _ :: _, [] => Ok (PList pos)
  | [], _ => Ok (PDict kw)
  end.

Inductive single_notation :=
| NCall (m : string) (pos : list json) (kw : list (string * json))       (* client.call / client(...) / client.proxy.m(...) *)
| NNotify (m : string) (pos : list json) (kw : list (string * json))
| NSend (r : request).                                                     (* hand-built request through client.send *)

(* call(): `id=next(self.id_gen_impl())` - a FRESH generator per call, so the id is its first value *)
Definition build_single (g : gen) (n : single_notation) : res request :=
  match n with
  | NCall m pos kw => do p <- mk_params pos kw ; do i <- gen_nth g 0 ; Ok {| r_method := m; r_params := p; r_id := Some i |}
  | NNotify m pos kw => do p <- mk_params pos kw ; Ok {| r_method := m; r_params := p; r_id := None |}
  | NSend r => Ok r
  end.

Inductive bitem := BCall (m : string) (pos : list json) (kw : list (string * json))
                 | BNote (m : string) (pos : list json) (kw : list (string * json)).
Inductive batch_notation :=
| BnAdd (items : list bitem)            (* batch.add / batch(...) / batch.proxy.m(...) / batch.notify, then call() *)
| BnGetitem (items : list (string * list json))      (* batch[(m, a1, a2..), ...] : calls with positional lists only *)
| BnSend (rs : list request).           (* hand-built BatchRequest through batch.send *)

(* the batch owns ONE generator; only calls consume ids *)
Fixpoint build_items (g : gen) (k : nat) (items : list bitem) : res (list request) :=
  match items with
  | [] => Ok []
  | BCall m pos kw :: q =>
      do p <- mk_params pos kw ; do i <- gen_nth g k ; do rest <- build_items g (S k) q ;
      Ok ({| r_method := m; r_params := p; r_id := Some i |} :: rest)
  | BNote m pos kw :: q =>
      do p <- mk_params pos kw ; do rest <- build_items g k q ;
      Ok ({| r_method := m; r_params := p; r_id := None |} :: rest)
  end.
Fixpoint build_getitem (g : gen) (k : nat) (items : list (string * list json)) : res (list request) :=
  match items with
  | [] => Ok []
  | (m, pos) :: q => do i <- gen_nth g k ; do rest <- build_getitem g (S k) q ;
                     Ok ({| r_method := m; r_params := PList pos; r_id := Some i |} :: rest)
  end.
(* requests are appended one by one (add/notify) or all at once (getitem): duplicates raise IdentityError *)
Definition build_batch (g : gen) (n : batch_notation) : res breq :=
  match n with
  | BnAdd items => do rs <- build_items g 0 items ;
                   fold_left (fun acc r => do b <- acc ; breq_append b r) rs (Ok batch_empty)
  | BnGetitem items => do rs <- build_getitem g 0 items ; breq_extend batch_empty rs
  | BnSend rs => breq_extend batch_empty rs
  end.

(* ---------- what the transport returned ---------- *)
Inductive body :=
| BNone                 (* None or the empty string *)
| BJson (j : json)      (* text that the configured loader parses to j *)
| BGarbage.             (* non-empty text the loader rejects (json.JSONDecodeError) *)
Definition body_truthy (b : body) : bool := match b with BNone => false | _ => true end.

Inductive cexn := CX (x : exn) | CDecode (* json.JSONDecodeError from the loader *) | CRpc (e : rpc_error).
Inductive cres (A : Type) := COk (a : A) | CRaise (x : cexn).
Arguments COk {A}. Arguments CRaise {A}.
Definition lift {A} (r : res A) : cres A := match r with Ok a => COk a | Raise x => CRaise (CX x) end.

(* BaseAbstractClient._relate *)
Definition relate_single (strict : bool) (q : request) (r : response) : res response :=
  match resp_id r with
  | Some i => if strict && negb (option_eqb id_eqb (Some i) (r_id q)) then Raise XIdentity else Ok r
  | None => Ok r
  end.

(* _send for a single request *)
Definition recv_single (strict : bool) (base : string) (q : request) (b : body) : cres (option response) :=
  match r_id q with
  | None => if strict && body_truthy b then CRaise (CX XBaseErr) else COk None
  | Some _ =>
      match b with
      | BNone => CRaise (CX XType)           (* json.loads(None) *)
      | BGarbage => CRaise CDecode
      | BJson j => lift (do r <- resp_from_json error_registry base j ; do r' <- relate_single strict q r ; Ok (Some r'))
      end
  end.

(* BaseBatch._relate : id -> response map, popped per request in REQUEST order; left-overs rejected in strict mode;
   the related responses are put in the order the calls were made, the unrelated ones after them *)
Fixpoint pop_id (i : idv) (m : list (idv * response)) : option response * list (idv * response) :=
  match m with
  | [] => (None, [])
  | (k, r) :: q => if id_eqb k i then (Some r, q)
                   else let '(x, q') := pop_id i q in (x, (k, r) :: q')
  end.
Definition response_map (rs : list response) : list (idv * response) :=
  cat_some (map (fun r => match resp_id r with Some i => Some (i, r) | None => None end) rs).
Fixpoint relate_loop (strict : bool) (qs : list request) (m : list (idv * response))
  : res (list response * list (idv * response)) :=
  match qs with
  | [] => Ok ([], m)
  | q :: rest =>
      match r_id q with
      | None => relate_loop strict rest m
      | Some i =>
          let '(x, m') := pop_id i m in
          match x with
          | None => if strict then Raise XIdentity else relate_loop strict rest m'
          | Some r => do out <- relate_loop strict rest m' ; Ok (r :: fst out, snd out)
          end
      end
  end.
Definition is_related (related : list response) (r : response) : bool :=
  match resp_id r with Some i => existsb (fun x => option_eqb id_eqb (resp_id x) (Some i)) related | None => false end.
Definition relate_batch (strict : bool) (qs : list request) (b : bresp) : res bresp :=
  match b with
  | BError e => Ok b
  | BList bl =>
      do out <- relate_loop strict qs (response_map (b_items bl)) ;
      let '(related, lft) := out in
      match lft with
      | _ :: _ => if strict then Raise XIdentity
                  else Ok (BList {| b_items := related ++ filter (fun r => negb (is_related related r)) (b_items bl); b_ids := b_ids bl |})
      | [] => Ok (BList {| b_items := related ++ filter (fun r => negb (is_related related r)) (b_items bl); b_ids := b_ids bl |})
      end
  end.

Definition recv_batch (strict : bool) (base : string) (qs : breq) (b : body) : cres (option bresp) :=
  if breq_is_notification qs then (if strict && body_truthy b then CRaise (CX XBaseErr) else COk None)
  else match b with
       | BNone => CRaise (CX XType)
       | BGarbage => CRaise CDecode
       | BJson j => lift (do r <- bresp_from_json error_registry base j ; do r' <- relate_batch strict (b_items qs) r ; Ok (Some r'))
       end.

(* ---------- what the caller gets ---------- *)
Definition result_single (r : response) : cres json :=
  match r with RResult _ v => COk v | RError _ e => CRaise (CRpc e) end.
Fixpoint results (rs : list response) : cres (list json) :=
  match rs with
  | [] => COk []
  | RError _ e :: _ => CRaise (CRpc e)
  | RResult _ v :: q => match results q with COk l => COk (v :: l) | CRaise x => CRaise x end
  end.
Definition result_batch (b : bresp) : cres (list json) :=
  match b with BError e => CRaise (CRpc e) | BList bl => results (b_items bl) end.

(* client.call : `assert response is not None` then response.result *)
Definition call_outcome (x : cres (option response)) : cres json :=
  match x with
  | COk (Some r) => result_single r
  | COk None => CRaise (CX XAssert)
  | CRaise e => CRaise e
  end.
(* batch.call : response.result if response is not None else None *)
Definition batch_call_outcome (x : cres (option bresp)) : cres (option (list json)) :=
  match x with
  | COk (Some b) => match result_batch b with COk l => COk (Some l) | CRaise e => CRaise e end
  | COk None => COk None
  | CRaise e => CRaise e
  end.
