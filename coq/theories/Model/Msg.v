(* Model of pjrpc/common/v20.py and pjrpc/common/exceptions.py : the JSON-RPC 2.0 message algebra.
   Executable definitions only; the proofs live in Lemmas/MsgL.v. *)
From Coq Require Import ZArith List String Ascii Bool.
From PJ Require Import Base.Json Base.Res.
Import ListNotations.
Open Scope string_scope.

(* ---- identifiers ------------------------------------------------------------------- *)
(* JsonRpcRequestId = Union[str, int]; a Python bool is NOT an id (from_json rejects it). *)
Inductive idv := IInt (z : Z) | IStr (s : string).
Definition id_eqb (a b : idv) : bool :=
  match a, b with IInt x, IInt y => Z.eqb x y | IStr s, IStr t => String.eqb s t | _, _ => false end.
Definition id_json (i : option idv) : json :=
  match i with None => JNull | Some (IInt z) => JInt z | Some (IStr s) => JStr s end.
Definition mem_id (i : idv) (l : list idv) : bool := existsb (id_eqb i) l.

(* json_data.get('id') ; None stays None; int (not bool) or str accepted *)
Definition parse_id (o : option json) : res (option idv) :=
  match o with
  | None | Some JNull => Ok None
  | Some (JInt z) => Ok (Some (IInt z))
  | Some (JStr s) => Ok (Some (IStr s))
  | Some _ => Raise XDeser
  end.

(* ---- errors ------------------------------------------------------------------------ *)
(* the class registry JsonRpcErrorMeta.__errors_mapping__ : code -> class name *)
Definition registry := list (Z * string).
Fixpoint reg_get (code : Z) (r : registry) : option string :=
  match r with [] => None | (c, n) :: q => if Z.eqb c code then Some n else reg_get code q end.
Definition class_of (r : registry) (base : string) (code : Z) : string :=
  match reg_get code r with Some n => n | None => base end.

Record rpc_error := { e_code : Z; e_msg : string; e_data : option json; e_class : string }.
Definition mk_error (r : registry) (base : string) (code : Z) (msg : string) (data : option json) : rpc_error :=
  {| e_code := code; e_msg := msg; e_data := data; e_class := class_of r base code |}.

Definition err_to_json (e : rpc_error) : json :=
  JObj ([("code", JInt (e_code e)); ("message", JStr (e_msg e))]
        ++ match e_data e with Some d => [("data", d)] | None => [] end).

(* JsonRpcError.from_json *)
Definition err_from_json (r : registry) (base : string) (j : json) : res rpc_error :=
  match j with
  | JObj kvs =>
      match get "code" kvs with
      | None => Raise XDeser                         (* KeyError -> DeserializationError *)
      | Some (JInt c) =>
          match get "message" kvs with
          | None => Raise XDeser
          | Some (JStr m) => Ok (mk_error r base c m (get "data" kvs))
          | Some _ => Raise XDeser
          end
      | Some _ => Raise XDeser
      end
  | _ => Raise XDeser
  end.

(* ---- requests ---------------------------------------------------------------------- *)
Inductive params := PNone | PList (l : list json) | PDict (kvs : list (string * json)).
Record request := { r_method : string; r_params : params; r_id : option idv }.

Definition params_truthy (p : params) : bool :=
  match p with PNone => false | PList [] => false | PDict [] => false | _ => true end.
Definition params_json (p : params) : json :=
  match p with PNone => JNull | PList l => JArr l | PDict d => JObj d end.

Definition req_to_json (r : request) : json :=
  JObj ([("jsonrpc", JStr "2.0"); ("method", JStr (r_method r))]
        ++ match r_id r with None => [] | Some _ => [("id", id_json (r_id r))] end
        ++ (if params_truthy (r_params r) then [("params", params_json (r_params r))] else [])).

Definition req_from_json (j : json) : res request :=
  match j with
  | JObj kvs =>
    match get "jsonrpc" kvs with
    | None => Raise XDeser
    | Some v =>
      if negb (json_eqb v (JStr "2.0")) then Raise XDeser else
      do i <- parse_id (get "id" kvs) ;
      match get "method" kvs with
      | Some (JStr m) =>
          match get "params" kvs with
          | None => Ok {| r_method := m; r_params := PList []; r_id := i |}
          | Some (JArr l) => Ok {| r_method := m; r_params := PList l; r_id := i |}
          | Some (JObj d) => Ok {| r_method := m; r_params := PDict d; r_id := i |}
          | Some _ => Raise XDeser
          end
      | _ => Raise XDeser
      end
    end
  | _ => Raise XDeser
  end.

(* ---- responses --------------------------------------------------------------------- *)
(* Response(id, result=UNSET, error=UNSET) with exactly one of the two set: the constructor
   assertions make the other combinations unconstructible, hence a sum type. *)
Inductive response := RResult (i : option idv) (v : json) | RError (i : option idv) (e : rpc_error).
Definition resp_id (r : response) : option idv := match r with RResult i _ | RError i _ => i end.
Definition resp_is_error (r : response) : bool := match r with RError _ _ => true | _ => false end.

Definition resp_to_json (r : response) : json :=
  match r with
  | RResult i v => JObj [("jsonrpc", JStr "2.0"); ("id", id_json i); ("result", v)]
  | RError i e => JObj [("jsonrpc", JStr "2.0"); ("id", id_json i); ("error", err_to_json e)]
  end.

Definition resp_from_json (rg : registry) (base : string) (j : json) : res response :=
  match j with
  | JObj kvs =>
      match get "jsonrpc" kvs with
      | None => Raise XDeser
      | Some v =>
        if negb (json_eqb v (JStr "2.0")) then Raise XDeser else
        do i <- parse_id (get "id" kvs) ;
        do e <- match get "error" kvs with
                | None => Ok None
                | Some ej => do e <- err_from_json rg base ej ; Ok (Some e) end ;
        match get "result" kvs, e with
        | None, None => Raise XDeser
        | Some _, Some _ => Raise XDeser
        | Some r, None => Ok (RResult i r)
        | None, Some e' => Ok (RError i e')
        end
      end
  | _ => Raise XDeser
  end.

(* ---- batches ----------------------------------------------------------------------- *)
(* _add_ids with strict=True: copy-then-commit, None ids skipped *)
Fixpoint add_ids (seen : list idv) (ids : list (option idv)) : res (list idv) :=
  match ids with
  | [] => Ok seen
  | None :: q => add_ids seen q
  | Some i :: q => if mem_id i seen then Raise XIdentity else add_ids (seen ++ [i]) q
  end.

Record batch (A : Type) := { b_items : list A; b_ids : list idv }.
Arguments b_items {A}. Arguments b_ids {A}.
Definition batch_empty {A} : batch A := {| b_items := []; b_ids := [] |}.

Definition batch_extend {A} (idof : A -> option idv) (b : batch A) (xs : list A) : res (batch A) :=
  do ids <- add_ids (b_ids b) (map idof xs) ;
  Ok {| b_items := b_items b ++ xs; b_ids := ids |}.
Definition batch_append {A} (idof : A -> option idv) (b : batch A) (x : A) : res (batch A) :=
  batch_extend idof b [x].

Definition breq := batch request.
Definition breq_extend := batch_extend r_id.
Definition breq_append := batch_append r_id.
Definition breq_to_json (b : breq) : json := JArr (map req_to_json (b_items b)).
Definition breq_is_notification (b : breq) : bool :=
  forallb (fun r => match r_id r with None => true | Some _ => false end) (b_items b).

Definition breq_from_json (j : json) : res breq :=
  match j with
  | JArr [] => Raise XDeser
  | JArr l => do rs <- mapM req_from_json l ; breq_extend batch_empty rs
  | _ => Raise XDeser
  end.

(* BatchResponse: either a batch-level error or a list of responses *)
Inductive bresp := BError (e : rpc_error) | BList (b : batch response).
Definition bresp_to_json (b : bresp) : json :=
  match b with
  | BError e => resp_to_json (RError None e)
  | BList b => JArr (map resp_to_json (b_items b))
  end.

Definition bresp_from_json (rg : registry) (base : string) (j : json) : res bresp :=
  match j with
  | JObj kvs =>
      match get "jsonrpc" kvs with
      | None => Raise XDeser
      | Some v =>
        if negb (json_eqb v (JStr "2.0")) then Raise XDeser else
        match get "id" kvs, get "error" kvs with
        | (None | Some JNull), Some ej => do e <- err_from_json rg base ej ; Ok (BError e)
        | _, _ => Raise XDeser            (* a dict that is not a batch-level error is not a list *)
        end
      end
  | JArr l =>
      (* elements are deserialised with the DEFAULT error base class (source: Response.from_json(item)) *)
      do rs <- mapM (resp_from_json rg "JsonRpcError") l ;
      do b <- batch_extend resp_id batch_empty rs ;
      Ok (BList b)
  | _ => Raise XDeser
  end.

(* ---- declarative grammars, written independently of the deserialisers (used as specs) ---- *)
Definition valid_id_member (o : option json) : bool :=
  match o with None | Some JNull | Some (JInt _) | Some (JStr _) => true | _ => false end.
Definition valid_version (kvs : list (string * json)) : bool :=
  match get "jsonrpc" kvs with Some (JStr v) => String.eqb v "2.0" | _ => false end.
Definition valid_error_json (j : json) : bool :=
  match j with
  | JObj kvs => match get "code" kvs, get "message" kvs with
                | Some (JInt _), Some (JStr _) => true | _, _ => false end
  | _ => false end.
Definition valid_request_json (j : json) : bool :=
  match j with
  | JObj kvs =>
      valid_version kvs && valid_id_member (get "id" kvs)
      && match get "method" kvs with Some (JStr _) => true | _ => false end
      && match get "params" kvs with None | Some (JArr _) | Some (JObj _) => true | _ => false end
  | _ => false end.
Definition valid_response_json (j : json) : bool :=
  match j with
  | JObj kvs =>
      valid_version kvs && valid_id_member (get "id" kvs)
      && match get "result" kvs, get "error" kvs with
         | Some _, None => true | None, Some e => valid_error_json e | _, _ => false end
  | _ => false end.
(* ids of a list of message documents, as they would be parsed *)
Definition doc_id (j : json) : option idv :=
  match j with JObj kvs => match get "id" kvs with Some (JInt z) => Some (IInt z) | Some (JStr s) => Some (IStr s) | _ => None end | _ => None end.
Fixpoint nodup_ids (seen : list idv) (l : list (option idv)) : bool :=
  match l with
  | [] => true
  | None :: q => nodup_ids seen q
  | Some i :: q => negb (mem_id i seen) && nodup_ids (i :: seen) q
  end.
Definition valid_breq_json (j : json) : bool :=
  match j with
  | JArr [] => false
  | JArr l => forallb valid_request_json l
  | _ => false end.
Definition valid_bresp_json (j : json) : bool :=
  match j with
  | JArr l => forallb valid_response_json l
  | JObj kvs => valid_version kvs
                && match get "id" kvs with None | Some JNull => true | _ => false end
                && match get "error" kvs with Some e => valid_error_json e | None => false end
  | _ => false end.

(* ---- imperative reading of the batch mutators: the object after the call, plus the exception ---- *)
(* _add_ids works on a copy of the id set and commits it only after every id was accepted, and the
   element list is touched after that; so a failed call leaves the object as it was. *)
Definition batch_extend_st {A} (idof : A -> option idv) (b : batch A) (xs : list A) : batch A * option exn :=
  match batch_extend idof b xs with Ok b' => (b', None) | Raise x => (b, Some x) end.
Inductive batch_op (A : Type) := OpAppend (x : A) | OpExtend (xs : list A).
Arguments OpAppend {A}. Arguments OpExtend {A}.
Definition batch_step {A} (idof : A -> option idv) (b : batch A) (o : batch_op A) : batch A * option exn :=
  match o with OpAppend x => batch_extend_st idof b [x] | OpExtend xs => batch_extend_st idof b xs end.
(* a history: the state after it, and the outcome of every operation *)
Fixpoint batch_run {A} (idof : A -> option idv) (b : batch A) (ops : list (batch_op A)) : batch A * list (option exn) :=
  match ops with
  | [] => (b, [])
  | o :: q => let '(b', r) := batch_step idof b o in
              let '(b'', rs) := batch_run idof b' q in (b'', r :: rs)
  end.

(* ---- normal forms reached by one trip over the wire (used by C05) ---- *)
(* None, (), [] and {} all mean "no parameters": the wire form has no params member and the
   deserialiser yields the empty list. *)
Definition norm_params (p : params) : params := if params_truthy p then p else PList [].
Definition norm_req (r : request) : request :=
  {| r_method := r_method r; r_params := norm_params (r_params r); r_id := r_id r |}.
(* the class is not on the wire: it is recomputed from the code (registered class, else the base) *)
Definition reclass_err (rg : registry) (base : string) (e : rpc_error) : rpc_error :=
  mk_error rg base (e_code e) (e_msg e) (e_data e).
Definition reclass (rg : registry) (base : string) (r : response) : response :=
  match r with RResult i v => RResult i v | RError i e => RError i (reclass_err rg base e) end.

(* constructing an error the way user code does: cls(code=None, message=None, data=UNSET);
   [defaults] is the class table (Consts.error_messages); the base class has no defaults *)
Definition new_error (defaults : list (string * (Z * string))) (cls : string)
           (code : option Z) (msg : option string) (data : option json) : res rpc_error :=
  let d := get cls defaults in
  match (match code with Some c => Some c | None => option_map fst d end),
        (match msg with Some m => Some m | None => option_map snd d end) with
  | Some c, Some m => Ok {| e_code := c; e_msg := m; e_data := data; e_class := cls |}
  | _, _ => Raise XAssert
  end.
