(* C08 - the client matches responses to requests by id and rejects mismatches.
   Statements only; proofs in Lemmas/ClientL.v and Lemmas/MsgL.v. *)
From Coq Require Import ZArith List String Ascii Bool Permutation.
From PJ Require Import Base.Json Base.Res Model.Msg Model.Client Lemmas.MsgL Lemmas.ClientL.
Import ListNotations.
Open Scope string_scope. Open Scope list_scope.

(* single responses, strict mode: a non-null id that differs from the request id (typed: 1 vs "1" differ) *)
Theorem C08_single_strict : forall q r i,
  resp_id r = Some i -> r_id q <> Some i -> relate_single true q r = Raise XIdentity.
Proof. exact relate_single_strict. Qed.
Theorem C08_single_accepts_only_own : forall strict q r r', relate_single strict q r = Ok r' ->
  r' = r /\ (strict = true -> resp_id r = None \/ resp_id r = r_id q).
Proof. exact relate_single_ok_inv. Qed.
Theorem C08_single_lenient : forall q r, relate_single false q r = Ok r.
Proof. exact relate_single_lenient. Qed.

(* a JSON body that is not a valid response (array): only the deserialisation error (C06) *)
Theorem C08_invalid_body_single : forall rg base j, valid_response_json j = false -> resp_from_json rg base j = Raise XDeser.
Proof.
  intros rg base j H. destruct (resp_from_json rg base j) as [r|x] eqn:E.
  - assert (valid_response_json j = true) by (apply (resp_from_json_ok_iff rg base j); eauto). congruence.
  - rewrite (resp_from_json_exn _ _ _ _ E). reflexivity.
Qed.
Theorem C08_invalid_body_batch : forall rg base j x, bresp_from_json rg base j = Raise x -> x = XDeser \/ x = XIdentity.
Proof. exact bresp_from_json_exn. Qed.
Theorem C08_batch_body_accepted_iff : forall rg base j,
  (exists b, bresp_from_json rg base j = Ok b) <->
  (valid_bresp_json j = true /\ forall l, j = JArr l -> NoDup (cat_some (map doc_id l))).
Proof. exact bresp_from_json_ok_iff. Qed.

(* batches, strict mode: accepted iff the non-null response ids are exactly the ids of the calls - a missing response,
   an extra response, (a repeated id is refused at deserialisation, above) all raise the identity error *)
Theorem C08_batch_strict_iff : forall qs bl,
  NoDup (call_ids qs) -> NoDup (b_ids bl) -> b_ids bl = cat_some (map resp_id (b_items bl)) ->
  ((exists b', relate_batch true qs (BList bl) = Ok b') <-> (forall i, In i (call_ids qs) <-> In i (b_ids bl))).
Proof. exact relate_batch_strict_iff. Qed.
Theorem C08_batch_only_identity_error : forall strict qs b x, relate_batch strict qs b = Raise x -> x = XIdentity /\ strict = true.
Proof. exact relate_batch_exn. Qed.

(* accepted: whatever ORDER the server used (any permutation of its array), the responses of the calls come back in
   the order the calls were made, each linked to the call with the same typed id; null-id responses follow; the
   multiset of responses is unchanged.  Batches of any length. *)
Theorem C08_positional : forall qs bl b',
  NoDup (b_ids bl) -> b_ids bl = cat_some (map resp_id (b_items bl)) ->
  relate_batch true qs (BList bl) = Ok b' ->
  exists related,
    b' = BList {| b_items := related ++ filter null_id (b_items bl); b_ids := b_ids bl |}
    /\ map resp_id related = map Some (call_ids qs)
    /\ Permutation (b_items bl) (related ++ filter null_id (b_items bl)).
Proof. exact relate_batch_strict_ok. Qed.

(* a server error is raised to the caller; a batch-level error object is raised for the batch *)
Theorem C08_server_error : forall i e, result_single (RError i e) = CRaise (CRpc e).
Proof. reflexivity. Qed.
Theorem C08_batch_level_error : forall strict qs e,
  relate_batch strict qs (BError e) = Ok (BError e) /\ result_batch (BError e) = CRaise (CRpc e).
Proof. exact batch_level_error. Qed.

(* non-vacuity: a reversed array for the calls 1, "1" (distinct typed ids) *)
Example C08_ex_reordered :
  let q i := {| r_method := "m"; r_params := PNone; r_id := Some i |} in
  let bl := {| b_items := [RResult (Some (IStr "1")) (JStr "b"); RResult None JNull; RResult (Some (IInt 1)) (JStr "a")];
               b_ids := [IStr "1"; IInt 1] |} in
  match relate_batch true [q (IInt 1); q (IStr "1")] (BList bl) with
  | Ok b => result_batch b = COk [JStr "a"; JStr "b"; JNull]
  | Raise _ => False end.
Proof. vm_compute. reflexivity. Qed.
