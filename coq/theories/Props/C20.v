(* C20 - the pytest mocker answers as configured: round-robin, once, recorded.
   Statements only; proofs in Lemmas/MockerL.v.  Histories of ANY length. *)
From Coq Require Import ZArith List String Ascii Bool.
From PJ Require Import Base.Json Base.Res Model.Msg Model.Mocker Generated.Consts Lemmas.MockerL.
Import ListNotations.
Open Scope string_scope. Open Scope list_scope.

(* every reachable state: a patched endpoint has at least one patched method, a patched method at least one patch, and the
   tables are dicts - after every operation, successful or failing (a failed replace / remove changes nothing) *)
Theorem C20_invariant : forall pt ops, inv (snd (run_ops pt m_init ops)) = true.
Proof. exact reachable_inv. Qed.
Theorem C20_dicts : forall pt ops, wfm (snd (run_ops pt m_init ops)).
Proof. exact reachable_wfm. Qed.

(* a call to a patched (endpoint, method): answered by the patch at the front of the queue, which goes to the back unless it
   is a once-patch; other methods are untouched; the call is recorded with its arguments *)
Theorem C20_call : forall s ep r t p rest, wfm s ->
  get ep (matches s) = Some t -> get (r_method r) t = Some (p :: rest) ->
  fst (match_request s ep r) = answer p r
  /\ patches (snd (match_request s ep r)) ep (r_method r) = (if p_once p then rest else rest ++ [p])
  /\ (forall k, k <> r_method r -> patches (snd (match_request s ep r)) ep k = patches s ep k)
  /\ calls (snd (match_request s ep r)) = record_call (calls s) ep (r_method r) (r_params r).
Proof. exact call_patched. Qed.
(* round robin in the order of addition: the first |a| calls are answered by the patches a in order and the queue has rotated *)
Theorem C20_round_robin : forall ep m (a b : list patch) (rs : list request) s, wfm s ->
  patches s ep m = a ++ b -> forallb (fun p => negb (p_once p)) a = true ->
  List.length rs = List.length a -> (forall r, In r rs -> r_method r = m) ->
  fst (calls_for s ep rs) = map (fun pr => answer (fst pr) (snd pr)) (combine a rs)
  /\ patches (snd (calls_for s ep rs)) ep m = b ++ a.
Proof. exact round_robin. Qed.
Theorem C20_once : forall s ep r t p rest, wfm s ->
  get ep (matches s) = Some t -> get (r_method r) t = Some (p :: rest) -> p_once p = true ->
  fst (match_request s ep r) = answer p r /\ patches (snd (match_request s ep r)) ep (r_method r) = rest.
Proof. exact once_used_once. Qed.
(* the reply carries the request id, whatever patch (or -32601) answers *)
Theorem C20_reply_id : forall s ep r i, r_id r = Some i -> resp_id (fst (match_request s ep r)) = Some i.
Proof. exact reply_id. Qed.
Theorem C20_unpatched_method : forall s ep r t, get ep (matches s) = Some t -> get (r_method r) t = None ->
  exists e, match_request s ep r = (RError (r_id r) e, s) /\ e_code e = MethodNotFoundError_code.
Proof. exact call_unpatched_method. Qed.
Theorem C20_unpatched_endpoint : forall pt s ep r, get ep (matches s) = None ->
  step pt s (MCall ep r) = (if pt then MPassthrough else MRefused, s).
Proof. exact call_unpatched_endpoint. Qed.
(* (no element served by a patch whose serving raises: then the exception leaves the loop, see C20_raising) *)
Theorem C20_batch : forall pt s ep rs t b, get ep (matches s) = Some t -> no_raise s ep rs = true ->
  batch_extend resp_id batch_empty (fst (calls_for s ep rs)) = Ok b ->
  step pt s (MBatch ep rs) = (MReply (JArr (map resp_to_json (fst (calls_for s ep rs)))), snd (calls_for s ep rs)).
Proof. exact batch_elementwise. Qed.

(* a patch whose serving raises has been USED all the same: the exception reaches the caller, the queue has rotated (a
   once-patch is gone) and the call is recorded *)
Theorem C20_raising : forall pt s ep r t p rest, wfm s ->
  get ep (matches s) = Some t -> get (r_method r) t = Some (p :: rest) -> p_kind p = PRaise ->
  fst (step pt s (MCall ep r)) = MRaised
  /\ patches (snd (step pt s (MCall ep r))) ep (r_method r) = (if p_once p then rest else rest ++ [p])
  /\ calls (snd (step pt s (MCall ep r))) = record_call (calls s) ep (r_method r) (r_params r).
Proof. exact call_raising. Qed.
(* replace with a Python index: idx < 0 counts from the end; out of range changes nothing *)
Theorem C20_replace_index : forall idx n k, norm_index idx n = Some k ->
  ((0 <= idx)%Z /\ k = Z.to_nat idx) \/ ((idx < 0)%Z /\ (0 <= Z.of_nat n + idx)%Z /\ k = Z.to_nat (Z.of_nat n + idx)).
Proof. exact norm_index_spec. Qed.

Example C20_ex :
  let p v o := {| p_kind := PResult (JStr v); p_once := o; p_id := None |} in
  let q i := MCall "e" {| r_method := "m"; r_params := PList []; r_id := Some (IInt i) |} in
  fst (run_ops false m_init [MAdd "e" "m" (p "once" true); MAdd "e" "m" (p "a" false); MAdd "e" "m" (p "b" false);
                              q 0%Z; q 1%Z; q 2%Z; q 3%Z; MRemove "e" (Some "m"); q 4%Z])
  = [MDone; MDone; MDone;
     MReply (JObj [("jsonrpc", JStr "2.0"); ("id", JInt 0); ("result", JStr "once")]);
     MReply (JObj [("jsonrpc", JStr "2.0"); ("id", JInt 1); ("result", JStr "a")]);
     MReply (JObj [("jsonrpc", JStr "2.0"); ("id", JInt 2); ("result", JStr "b")]);
     MReply (JObj [("jsonrpc", JStr "2.0"); ("id", JInt 3); ("result", JStr "a")]);
     MDone; MRefused].
Proof. vm_compute. reflexivity. Qed.
