(* C11 - the synchronous and asynchronous halves behave identically.
   The client halves, the retry loops and the tracing wrappers are modelled by ONE definition each (Model/Client.v,
   Model/Retry.v): their texts differ only by async/await and the sleep primitive (Consts.retry_twins_textually_equal is
   recomputed from the source on every run), and the correspondence run drives BOTH real halves on every case and compares
   each with that model and with the other.  The theorems below cover the places where the dispatcher halves differ in text. *)
From Coq Require Import ZArith List String Bool.
From PJ Require Import Base.Json Base.Res Model.Msg Model.Bind Model.Dispatch Model.Async Model.Twin Generated.Consts
     Lemmas.AsyncL Lemmas.DispatchL.
Import ListNotations.

(* the two batch filters keep exactly the responses that were produced (proved against the regenerated truthiness facts) *)
Theorem C11_filters_agree : forall outs,
  collect_with keep_sync outs = cat_some outs /\ collect_with keep_async outs = cat_some outs.
Proof.
  intros outs. unfold collect_with. split; induction outs as [|[r|] q IH]; cbn; auto; rewrite IH; reflexivity.
Qed.

(* the asynchronous batch path (any cut into segments, ANY schedule, concurrent or sequential driver, truthiness filter)
   assembles the same responses as the synchronous one (generator, isinstance filter) *)
Theorem C11_batch_paths_agree : forall cfg ctx (rs : list request) (cut : option response * log -> list (list event)) sched,
  let outs := map (fun r => request_handler cfg r ctx) rs in
  let slots := map (fun o => Run {| segs := cut o; res := fst o |}) outs in
  collect_with keep_async (map slot_final (fst (run sched slots))) = collect_with keep_sync (map fst outs).
Proof.
  intros cfg ctx rs cut sched outs slots.
  destruct (C11_filters_agree (map slot_final (fst (run sched slots)))) as [_ ->].
  destruct (C11_filters_agree (map fst outs)) as [-> _].
  rewrite results_order_independent. subst slots. rewrite map_map. reflexivity.
Qed.

(* the asynchronous dispatcher serves a plain function with the same outcome as a coroutine function *)
Theorem C11_plain_function : forall (A : Type) (a : A), async_result (Direct a) = async_result (Coroutine a).
Proof. reflexivity. Qed.

(* everything else of the two dispatchers is one model: dispatch does not take a kind parameter, so every C01-C03/C12
   theorem holds for both; e.g. the batch is the element-wise map for both *)
Theorem C11_dispatch_shared : forall cfg elems b ctx,
  mws_id_ok cfg ->
  breq_from_json (JArr elems) = Ok b -> too_large (c_max_batch cfg) (List.length (b_items b)) = false ->
  dispatch cfg (LOk (JArr elems)) ctx = collect (map (fun e => dispatch cfg (LOk e) ctx) elems).
Proof. exact batch_is_map. Qed.
