(* C12 - middlewares and error handlers run once per request, in the declared order.
   Statements only; proofs in Lemmas/DispatchL.v. *)
From Coq Require Import ZArith List String Ascii Bool Permutation.
From PJ Require Import Base.Json Base.Res Model.Msg Model.Bind Model.Dispatch Lemmas.DispatchL Lemmas.EhOrderL.
Import ListNotations.
Open Scope string_scope. Open Scope list_scope.

(* when no middleware answers by itself: each is entered exactly once, first-declared outermost, middleware k sees
   the request as rewritten by 0..k-1, the inner handler runs on the fully rewritten request, they exit in reverse
   order, and what the outermost returns is the result of the chain - for stacks of ANY height *)
Theorem C12_chain_passthrough : forall mws base ctx i r r_in,
  thread_req mws r ctx = Some r_in ->
  chain mws i base r ctx =
  (post_all mws r ctx (fst (base r_in ctx)),
   enters mws i r ctx ++ snd (base r_in ctx) ++ exits mws i r ctx (fst (base r_in ctx))).
Proof. exact chain_passthrough. Qed.
Theorem C12_enter_order : forall mws ctx i r r_in, thread_req mws r ctx = Some r_in ->
  map (fun e => match e with EvMwEnter k _ => k | _ => O end) (enters mws i r ctx) = seq i (List.length mws).
Proof. exact enters_indices. Qed.
Theorem C12_exit_order : forall mws ctx x i r r_in, thread_req mws r ctx = Some r_in ->
  map (fun e => match e with EvMwExit k _ => k | _ => O end) (exits mws i r ctx x) = rev (seq i (List.length mws)).
Proof. exact exits_indices. Qed.
(* a middleware that answers by itself: nothing below it (later middlewares, the method, error handlers) runs -
   the whole outcome is independent of what is below *)
Theorem C12_short_circuit : forall pre m ctx i r r_at y post1 post2 base1 base2,
  thread_req pre r ctx = Some r_at -> mw_pre m r_at ctx = inr y ->
  chain (pre ++ m :: post1) i base1 r ctx = chain (pre ++ m :: post2) i base2 r ctx.
Proof. exact chain_short_circuit. Qed.

(* error handlers: generic handlers, then those registered for the code of the RAISED error, in list order,
   each receiving what the previous returned; the last output is sent *)
Theorem C12_error_handlers_fold : forall cfg r ctx name e,
  fst (handle_rpc_method cfg (r_method r) (r_params r) ctx) = HErr e -> r_id r = Some name ->
  fst (handle_request cfg r ctx) =
  Some (RError (r_id r) (fold_left (fun acc h => h r ctx acc)
                                   (get_eh None (c_ehs cfg) ++ get_eh (Some (e_code e)) (c_ehs cfg)) e)).
Proof. exact error_handlers_fold. Qed.
(* the table is a mapping: the order its keys are WRITTEN in does not matter - the generic handlers still run first *)
Theorem C12_table_order : forall cfg t' r ctx,
  NoDup (map fst (c_ehs cfg)) -> Permutation (c_ehs cfg) t' ->
  handle_request (with_ehs cfg t') r ctx = handle_request cfg r ctx.
Proof. exact handle_request_table_order. Qed.
Theorem C12_error_handler_log : forall key hs r ctx i e,
  snd (run_ehs key i hs r ctx e)
  = map (fun ie => EvEh key (fst ie) (snd ie)) (combine (seq i (List.length hs)) (eh_inputs hs r ctx e)).
Proof. exact run_ehs_log. Qed.
(* handlers never run for successful requests ... *)
Theorem C12_not_on_success : forall cfg r ctx v,
  fst (handle_rpc_method cfg (r_method r) (r_params r) ctx) = HVal v ->
  filter is_eh (snd (handle_request cfg r ctx)) = [].
Proof. exact error_handlers_not_on_success. Qed.
(* ... nor for documents rejected before dispatch (the log is empty: no middleware, handler or method ran) *)
Theorem C12_not_on_rejected : forall cfg ctx l, l = LDecodeError \/ l = LValueError ->
  snd (dispatch cfg l ctx) = [].
Proof. intros cfg ctx l H. rewrite (not_json_is_parse_error cfg ctx l H). reflexivity. Qed.
Theorem C12_not_on_rejected_batch : forall cfg elems ctx,
  (exists x, breq_from_json (JArr elems) = Raise x)
  \/ (exists b, breq_from_json (JArr elems) = Ok b /\ too_large (c_max_batch cfg) (List.length (b_items b)) = true) ->
  snd (dispatch cfg (LOk (JArr elems)) ctx) = [].
Proof. intros cfg elems ctx H. rewrite (rejected_batch_silent cfg elems ctx H). reflexivity. Qed.
(* every element of an accepted batch goes through the chain exactly once, in request order (C02_batch_is_map) *)
Theorem C12_batch_elements : forall cfg elems b ctx,
  mws_id_ok cfg ->
  breq_from_json (JArr elems) = Ok b -> too_large (c_max_batch cfg) (List.length (b_items b)) = false ->
  snd (dispatch cfg (LOk (JArr elems)) ctx) = List.concat (map (fun e => snd (dispatch cfg (LOk e) ctx)) elems).
Proof.
  intros cfg elems b ctx H1 H2 H3. rewrite (batch_is_map cfg elems b ctx H1 H2 H3). unfold collect. cbn [snd].
  rewrite map_map. reflexivity.
Qed.

Example C12_ex_order :
  let mw k : middleware := {| mw_pre := fun r _ => inl r; mw_post := fun _ _ x => x |} in
  let base : request -> json -> option response * log := fun r _ => (None, [EvCall "inner" []]) in
  snd (chain [mw 0; mw 1] 0 base {| r_method := "m"; r_params := PNone; r_id := None |} JNull)
  = let r := {| r_method := "m"; r_params := PNone; r_id := None |} in
    [EvMwEnter 0 r; EvMwEnter 1 r; EvCall "inner" []; EvMwExit 1 None; EvMwExit 0 None].
Proof. vm_compute. reflexivity. Qed.
