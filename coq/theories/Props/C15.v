(* C15 - methods are reachable under exactly their registered names, private ones never.
   Statements only; proofs in Lemmas/RegistryL.v (and Lemmas/DispatchL.v for the -32601 answer). *)
From Coq Require Import ZArith List String Ascii Bool.
From PJ Require Import Base.Json Base.Res Model.Msg Model.Bind Model.Dispatch Model.Registry Lemmas.RegistryL Lemmas.DispatchL.
Import ListNotations.
Open Scope string_scope. Open Scope list_scope.

(* for EVERY registration history - any number of operations, registries merged into registries to any depth - and every
   name n: the registry answers n exactly as the declarative reading does (explicit name or the function's own name,
   preceded by the dot-joined non-empty prefixes of the registries and view it was added through; the last registration
   under a name wins; a name never registered is absent) *)
Theorem C15_exact : forall e, wf e = true -> forall n, get n (eval e) = spec_lookup n e.
Proof. exact registry_exact. Qed.

(* class-based views expose exactly their public callables *)
Theorem C15_view_members : forall ms m, In m (exposed ms) <-> In m ms /\ is_public m = true /\ mb_callable m = true.
Proof. exact exposed_only_public_callables. Qed.
Theorem C15_private_never : forall prefix vp ms m r n,
  In m ms -> is_public m && mb_callable m = false ->
  (forall m', In m' (exposed ms) -> join_names [prefix; vp; Some (mb_name m')] <> n) ->
  get n (fold_left (fun acc m => set (join_names [prefix; vp; Some (mb_name m)]) (mb_fn m) acc) (exposed ms) r) = get n r.
Proof. exact view_private_never. Qed.

(* the registry of any history is a dict: one method per name *)
Theorem C15_one_per_name : forall e, NoDup (keys (eval e)).
Proof. exact eval_uniq. Qed.

(* a name that is not registered yields -32601 and runs nothing *)
Theorem C15_unknown : forall cfg name p ctx,
  get name (c_registry cfg) = None -> handle_rpc_method cfg name p ctx = (HErr method_not_found, []).
Proof. exact unknown_method_not_found. Qed.

Example C15_ex :
  let inner := RE (Some "b") [OAdd 1 "f" None; OAddMethod 2 "g" (Some "x")] in
  let e := RE (Some "a") [OAdd 0 "f" None; OMerge inner; OView (Some "v") [{| mb_name := "show"; mb_callable := true; mb_fn := 3 |};
                                                                            {| mb_name := "_hid"; mb_callable := true; mb_fn := 4 |}];
                          OAdd 5 "h" (Some "b.f")] in
  eval e = [("a.f", 0); ("a.b.f", 5); ("a.b.x", 2); ("a.v.show", 3)]%nat.
Proof. vm_compute. reflexivity. Qed.
