(* C05 - Messages survive the wire: serialise -> (JSON text) -> deserialise is lossless, the wire form
   is exact, errors deserialise to the class registered for their code.  Statements only.
   Text level: json.dumps / json.loads are an oracle; the value-level theorems below compose with the
   codec contract "loads (dumps v) = v", which the correspondence run exercises on every case. *)
From Coq Require Import ZArith List String Ascii Bool.
From PJ Require Import Base.Json Base.Res Model.Msg Generated.Consts Lemmas.MsgL Lemmas.ConstsSpec.
Import ListNotations.
Open Scope string_scope.

Theorem C05_request_roundtrip : forall r,
  req_from_json (req_to_json r) = Ok (norm_req r) /\ req_to_json (norm_req r) = req_to_json r.
Proof. exact req_roundtrip. Qed.
(* norm_req only identifies the spellings of "no parameters"; everything else is kept *)
Theorem C05_request_fields : forall r,
  r_method (norm_req r) = r_method r /\ r_id (norm_req r) = r_id r
  /\ (params_truthy (r_params r) = true -> r_params (norm_req r) = r_params r)
  /\ (params_truthy (r_params r) = false -> r_params (norm_req r) = PList []).
Proof. intros r; unfold norm_req, norm_params; cbn; destruct (params_truthy (r_params r)); repeat split; auto; discriminate. Qed.

Theorem C05_error_roundtrip : forall rg base e,
  err_from_json rg base (err_to_json e) = Ok (reclass_err rg base e)
  /\ err_to_json (reclass_err rg base e) = err_to_json e.
Proof. exact err_roundtrip. Qed.
Theorem C05_response_roundtrip : forall rg base r,
  resp_from_json rg base (resp_to_json r) = Ok (reclass rg base r)
  /\ resp_to_json (reclass rg base r) = resp_to_json r.
Proof. exact resp_roundtrip. Qed.
(* reclass keeps id, result, code, message, data; only the class is recomputed from the code *)
Theorem C05_error_fields : forall rg base e,
  e_code (reclass_err rg base e) = e_code e /\ e_msg (reclass_err rg base e) = e_msg e
  /\ e_data (reclass_err rg base e) = e_data e /\ e_class (reclass_err rg base e) = class_of rg base (e_code e).
Proof. intros; repeat split. Qed.

Theorem C05_batch_request_roundtrip : forall b,
  binv r_id b -> b_items b <> [] ->
  breq_from_json (breq_to_json b) = Ok {| b_items := map norm_req (b_items b); b_ids := b_ids b |}
  /\ breq_to_json {| b_items := map norm_req (b_items b); b_ids := b_ids b |} = breq_to_json b.
Proof. exact breq_roundtrip. Qed.
Theorem C05_batch_response_roundtrip : forall rg base b,
  match b with
  | BError e => bresp_from_json rg base (bresp_to_json b) = Ok (BError (reclass_err rg base e))
  | BList bl => binv resp_id bl ->
      bresp_from_json rg base (bresp_to_json b)
      = Ok (BList {| b_items := map (reclass rg "JsonRpcError") (b_items bl); b_ids := b_ids bl |})
  end.
Proof. exact bresp_roundtrip. Qed.
Theorem C05_batch_response_rewire : forall rg base b,
  match b with
  | BError e => bresp_to_json (BError (reclass_err rg base e)) = bresp_to_json b
  | BList bl => bresp_to_json (BList {| b_items := map (reclass rg base) (b_items bl); b_ids := b_ids bl |}) = bresp_to_json b
  end.
Proof. exact bresp_rewire. Qed.

(* the wire form is exact *)
Theorem C05_request_wire : forall r,
  exists kvs, req_to_json r = JObj kvs
  /\ get "jsonrpc" kvs = Some (JStr "2.0")
  /\ get "method" kvs = Some (JStr (r_method r))
  /\ get "id" kvs = match r_id r with None => None | Some _ => Some (id_json (r_id r)) end
  /\ get "params" kvs = (if params_truthy (r_params r) then Some (params_json (r_params r)) else None)
  /\ (forall k, has k kvs = true -> In k ["jsonrpc"; "method"; "id"; "params"]).
Proof. exact req_wire. Qed.
Theorem C05_response_wire : forall r,
  exists kvs, resp_to_json r = JObj kvs
  /\ get "jsonrpc" kvs = Some (JStr "2.0")
  /\ get "id" kvs = Some (id_json (resp_id r))
  /\ match r with
     | RResult _ v => get "result" kvs = Some v /\ get "error" kvs = None
     | RError _ e => get "result" kvs = None /\ get "error" kvs = Some (err_to_json e)
     end.
Proof. exact resp_wire. Qed.
Theorem C05_error_wire : forall e,
  exists kvs, err_to_json e = JObj kvs
  /\ get "code" kvs = Some (JInt (e_code e)) /\ get "message" kvs = Some (JStr (e_msg e))
  /\ get "data" kvs = e_data e.
Proof. exact err_wire. Qed.

(* typed except-clauses: the class registered for the code, else the supplied base *)
Theorem C05_error_class : forall rg base j e, err_from_json rg base j = Ok e -> e_class e = class_of rg base (e_code e).
Proof. exact err_from_json_class. Qed.
Theorem C05_registered_classes :
  class_of error_registry "B" (-32700) = "ParseError" /\ class_of error_registry "B" (-32600) = "InvalidRequestError"
  /\ class_of error_registry "B" (-32601) = "MethodNotFoundError" /\ class_of error_registry "B" (-32602) = "InvalidParamsError"
  /\ class_of error_registry "B" (-32603) = "InternalError" /\ class_of error_registry "B" (-32000) = "ServerError"
  /\ class_of error_registry "B" 0 = "HarnessZeroError" /\ class_of error_registry "B" 1 = "B" /\ class_of error_registry "B" (-32001) = "B".
Proof. exact registry_classes. Qed.
Theorem C05_versions : request_version = "2.0" /\ response_version = "2.0"
                 /\ batch_request_version = "2.0" /\ batch_response_version = "2.0".
Proof. exact versions. Qed.

Example C05_ex_null_result_distinct :
  resp_to_json (RResult (Some (IInt 1)) JNull) = JObj [("jsonrpc", JStr "2.0"); ("id", JInt 1); ("result", JNull)].
Proof. reflexivity. Qed.
Example C05_ex_null_data_distinct :
  err_to_json {| e_code := 0; e_msg := ""; e_data := Some JNull; e_class := "JsonRpcError" |}
  <> err_to_json {| e_code := 0; e_msg := ""; e_data := None; e_class := "JsonRpcError" |}.
Proof. cbn; discriminate. Qed.
Example C05_ex_batch : binv r_id {| b_items := [{| r_method := "m"; r_params := PNone; r_id := Some (IInt 0) |};
                                                 {| r_method := "n"; r_params := PDict []; r_id := None |}];
                                     b_ids := [IInt 0] |}.
Proof. split; cbn; auto. repeat constructor; cbn; tauto. Qed.
