(* C18 - HTTP integrations relay the dispatcher's verdict unchanged.  Statements only; proofs in Lemmas/HttpL.v.
   Header parsing, body decoding and the response classes of aiohttp / flask / werkzeug are oracles: [media_type] is the
   specification of what they must compute and the correspondence run posts through the frameworks' own test clients. *)
From Coq Require Import ZArith List String Ascii Bool.
From PJ Require Import Base.Json Base.Res Generated.Consts Model.Msg Model.Bind Model.Dispatch Model.Http Lemmas.HttpL.
Import ListNotations.
Open Scope string_scope. Open Scope list_scope.

(* an accepted media type: the request is handed to the dispatcher and answered with exactly its document, the JSON content type
   and the status chosen by the status-by-error function; nothing from the dispatcher -> 200 with an empty body *)
Theorem C18_relay : forall i f h out, accepted_type h = true ->
  handle i f h (BText out) =
  match out with
  | None => {| r_status := 200; r_ctype := None; r_body := None; r_dispatched := true |}
  | Some (doc, codes) => {| r_status := status_of (effective_status i f) codes; r_ctype := Some default_content_type;
                            r_body := Some doc; r_dispatched := true |} end.
Proof. exact relay. Qed.
(* any other media type (or none): 415, and the dispatcher is not invoked, whatever the body *)
Theorem C18_refuse : forall i f h b, accepted_type h = false ->
  handle i f h b = {| r_status := 415; r_ctype := None; r_body := None; r_dispatched := false |}.
Proof. exact refuse. Qed.
(* which media types are accepted: every documented one (against the regenerated constants), with or without parameters
   such as charset, in any letter case *)
Theorem C18_documented_types : forallb (fun t => accepted_type (Some t)) request_content_types = true.
Proof. exact documented_types_accepted. Qed.
Theorem C18_parameters_ignored : forall t p, accepted_type (Some (t ++ String ";" p)%string) = accepted_type (Some (before_semicolon t)).
Proof. exact accepted_ignores_params. Qed.
Theorem C18_case_insensitive : forall s, media_type (Some (lower s)) = media_type (Some s).
Proof. exact media_type_case_insensitive. Qed.
(* 200 by default; the same request gets the same reply from every integration *)
Theorem C18_default_status : forall i codes, status_of (effective_status i SDefault) codes = 200%Z.
Proof. exact default_status. Qed.
Theorem C18_uniform : forall i j h b, handle i SDefault h b = handle j SDefault h b.
Proof. exact uniform. Qed.

(* composed with the dispatcher model: the status is the status function applied to the error tuple of the relayed document (one entry
   per answered call, 0 for a success), so status functions that count calls or tell partial from total failure get what they need *)
Theorem C18_relays_dispatcher : forall cfg l ctx i f h doc codes lg,
  accepted_type h = true -> dispatch cfg l ctx = (Ok (Some (doc, codes)), lg) ->
  handle i f h (BText (Some (doc, codes))) =
  {| r_status := status_of (effective_status i f) (codes_of_doc doc); r_ctype := Some default_content_type;
     r_body := Some doc; r_dispatched := true |}.
Proof. exact relay_dispatch. Qed.
Theorem C18_partial_failure : forall a p k codes,
  In 0%Z codes -> (exists c, In c codes /\ c <> 0%Z) -> status_of (SMixed a p k) codes = p.
Proof. exact mixed_partial. Qed.
Theorem C18_count : forall b docs, status_of (SCount b) (codes_of_doc (JArr docs)) = (b + Z.of_nat (List.length docs))%Z.
Proof. exact count_spec. Qed.

Example C18_ex :
  accepted_type (Some "Application/JSON-RPC ; charset=utf-8") = true /\ accepted_type (Some "application/jsonx") = false
  /\ accepted_type (Some "application/foo+json") = false /\ accepted_type None = false /\ accepted_type (Some "") = false.
Proof. vm_compute. repeat split; reflexivity. Qed.
