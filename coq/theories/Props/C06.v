(* C06 - Deserialisation is strict and total: only DeserializationError (IdentityError for duplicate
   batch ids) escapes; structurally invalid messages are never accepted; a duplicate id leaves a batch
   unchanged.  Statements only; proofs are in Lemmas/MsgL.v. *)
From Coq Require Import ZArith List String Ascii Bool.
From PJ Require Import Base.Json Base.Res Model.Msg Lemmas.MsgL.
Import ListNotations.
Open Scope string_scope.

(* total: for EVERY JSON value, the only exceptions that escape *)
Theorem C06_total_request : forall j x, req_from_json j = Raise x -> x = XDeser.
Proof. exact req_from_json_exn. Qed.
Theorem C06_total_response : forall rg base j x, resp_from_json rg base j = Raise x -> x = XDeser.
Proof. exact resp_from_json_exn. Qed.
Theorem C06_total_error : forall rg base j x, err_from_json rg base j = Raise x -> x = XDeser.
Proof. exact err_from_json_exn. Qed.
Theorem C06_total_batch_request : forall j x, breq_from_json j = Raise x -> x = XDeser \/ x = XIdentity.
Proof. exact breq_from_json_exn. Qed.
Theorem C06_total_batch_response : forall rg base j x, bresp_from_json rg base j = Raise x -> x = XDeser \/ x = XIdentity.
Proof. exact bresp_from_json_exn. Qed.

(* strict, and exact: accepted <-> satisfies the declarative grammar *)
Theorem C06_strict_request : forall j, (exists r, req_from_json j = Ok r) <-> valid_request_json j = true.
Proof. exact req_from_json_ok_iff. Qed.
Theorem C06_strict_response : forall rg base j, (exists r, resp_from_json rg base j = Ok r) <-> valid_response_json j = true.
Proof. exact resp_from_json_ok_iff. Qed.
Theorem C06_strict_error : forall rg base j, (exists e, err_from_json rg base j = Ok e) <-> valid_error_json j = true.
Proof. exact err_from_json_ok_iff. Qed.
Theorem C06_strict_batch_request : forall j,
  (exists b, breq_from_json j = Ok b) <->
  (valid_breq_json j = true /\ exists l, j = JArr l /\ NoDup (cat_some (map doc_id l))).
Proof. exact breq_from_json_ok_iff. Qed.
Theorem C06_strict_batch_response : forall rg base j,
  (exists b, bresp_from_json rg base j = Ok b) <->
  (valid_bresp_json j = true /\ forall l, j = JArr l -> NoDup (cat_some (map doc_id l))).
Proof. exact bresp_from_json_ok_iff. Qed.

(* batches: every history keeps "id set = non-null ids of the elements, duplicate-free" *)
Theorem C06_history_invariant : forall A (idof : A -> option idv) ops b b' rs,
  binv idof b -> batch_run idof b ops = (b', rs) -> binv idof b'.
Proof. intros A idof ops. exact (batch_run_inv idof ops). Qed.
Theorem C06_append_atomic : forall A (idof : A -> option idv) b o b' x,
  batch_step idof b o = (b', Some x) -> b' = b /\ x = XIdentity.
Proof. intros A. exact (@batch_step_atomic A). Qed.
Theorem C06_append_dup : forall A (idof : A -> option idv) b m i,
  idof m = Some i -> In i (b_ids b) -> batch_step idof b (OpAppend m) = (b, Some XIdentity).
Proof. intros A. exact (@batch_append_dup A). Qed.
Theorem C06_extend_dup : forall A (idof : A -> option idv) b xs,
  binv idof b -> ~ NoDup (b_ids b ++ cat_some (map idof xs))%list ->
  batch_step idof b (OpExtend xs) = (b, Some XIdentity).
Proof. intros A. exact (@batch_extend_dup A). Qed.
Theorem C06_append_fresh : forall A (idof : A -> option idv) b m,
  (forall i, idof m = Some i -> ~ In i (b_ids b)) ->
  batch_step idof b (OpAppend m) = ({| b_items := b_items b ++ [m]; b_ids := b_ids b ++ cat_some [idof m] |}, None).
Proof. intros A. exact (@batch_append_fresh A). Qed.

(* non-vacuity: the hypotheses are met by concrete non-trivial instances *)
Example C06_ex_accept : exists r, req_from_json
  (JObj [("jsonrpc", JStr "2.0"); ("id", JStr "1"); ("method", JStr "m"); ("params", JObj [("a", JInt 1)])]) = Ok r.
Proof. eexists; vm_compute; reflexivity. Qed.
Example C06_ex_reject_bool_id :
  req_from_json (JObj [("jsonrpc", JStr "2.0"); ("id", JBool true); ("method", JStr "m")]) = Raise XDeser.
Proof. vm_compute; reflexivity. Qed.
Example C06_ex_reject_both :
  resp_from_json [] "JsonRpcError" (JObj [("jsonrpc", JStr "2.0"); ("id", JInt 1); ("result", JInt 0);
     ("error", JObj [("code", JInt 0); ("message", JStr "")])]) = Raise XDeser.
Proof. vm_compute; reflexivity. Qed.
Example C06_ex_dup : batch_run r_id batch_empty
   [OpAppend {| r_method := "m"; r_params := PNone; r_id := Some (IInt 1) |};
    OpExtend [{| r_method := "n"; r_params := PNone; r_id := Some (IStr "1") |};
              {| r_method := "k"; r_params := PNone; r_id := Some (IInt 1) |}]]
  = ({| b_items := [{| r_method := "m"; r_params := PNone; r_id := Some (IInt 1) |}]; b_ids := [IInt 1] |},
     [None; Some XIdentity]).
Proof. vm_compute; reflexivity. Qed.
