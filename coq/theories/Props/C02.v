(* C02 - one response per call, none per notification; a batch maps over its elements; rejected batches
   execute nothing; exactly-once execution.  Statements only; proofs in Lemmas/DispatchL.v. *)
From Coq Require Import ZArith List String Ascii Bool.
From PJ Require Import Base.Json Base.Res Model.Msg Model.Bind Model.Dispatch Lemmas.MsgL Lemmas.DispatchL.
Import ListNotations.
Open Scope string_scope. Open Scope list_scope.

(* a valid single request with an id is answered by exactly one response carrying the identical id
   (typed equality on idv: IInt 1 and IStr "1" are different ids) *)
Theorem C02_call_answered : forall cfg v r ctx i,
  mws_answer_ok cfg -> (forall es, v <> JArr es) -> req_from_json v = Ok r -> r_id r = Some i ->
  exists resp lg, dispatch cfg (LOk v) ctx = (Ok (single resp), lg) /\ resp_id resp = Some i.
Proof. exact single_call_answered. Qed.

(* a notification is never answered - whether the method succeeds, fails, or does not exist *)
Theorem C02_notification_silent : forall cfg v r ctx,
  mws_answer_ok cfg -> (forall es, v <> JArr es) -> req_from_json v = Ok r -> r_id r = None ->
  fst (dispatch cfg (LOk v) ctx) = Ok None.
Proof. exact single_notification_silent. Qed.

(* the innermost handler alone obeys the answer discipline for EVERY registry / handler table, so the proviso
   above is about user middlewares only and holds for the empty stack *)
Theorem C02_inner_discipline : forall cfg, handler_answer_ok (handle_request cfg).
Proof. exact handle_request_answer_ok. Qed.
Theorem C02_no_middlewares : forall cfg, c_mws cfg = [] -> mws_answer_ok cfg.
Proof. exact no_mws_answer_ok. Qed.

(* an accepted batch of ANY length is answered by exactly what its elements get when sent alone, in request
   order (document, codes and the log of everything executed); nothing at all if all are notifications *)
Theorem C02_batch_is_map : forall cfg elems b ctx,
  mws_id_ok cfg ->
  breq_from_json (JArr elems) = Ok b -> too_large (c_max_batch cfg) (List.length (b_items b)) = false ->
  dispatch cfg (LOk (JArr elems)) ctx = collect (map (fun e => dispatch cfg (LOk e) ctx) elems).
Proof. exact batch_is_map. Qed.

(* a rejected batch (empty, invalid element anywhere, duplicate ids, over the limit) executes nothing:
   the log is empty and the single answer is -32600 with id null *)
Theorem C02_rejected_batch_silent : forall cfg elems ctx,
  (exists x, breq_from_json (JArr elems) = Raise x)
  \/ (exists b, breq_from_json (JArr elems) = Ok b /\ too_large (c_max_batch cfg) (List.length (b_items b)) = true) ->
  dispatch cfg (LOk (JArr elems)) ctx = reject invalid_request.
Proof. exact rejected_batch_silent. Qed.
(* ... and "rejected" is exactly: not (non-empty, every element a valid request, non-null ids pairwise distinct) *)
Theorem C02_batch_accepted_iff : forall j,
  (exists b, breq_from_json j = Ok b) <->
  (valid_breq_json j = true /\ exists l, j = JArr l /\ NoDup (cat_some (map doc_id l))).
Proof. exact breq_from_json_ok_iff. Qed.

(* exactly once: handling one element logs one execution of its method, with its own bound arguments, iff the
   method exists and the parameters bind - and no other execution *)
Theorem C02_exactly_once : forall cfg r ctx,
  filter is_call (snd (handle_request cfg r ctx)) =
  match get (r_method r) (c_registry cfg) with
  | Some m => match m ctx (r_params r) with MRan args _ => [EvCall (r_method r) args] | _ => [] end
  | None => [] end.
Proof. exact handle_request_calls. Qed.

Example C02_ex_batch :
  let m : rmethod := fun _ p => MRan [] (ORet (params_json p)) in
  let cfg := {| c_registry := [("m", m)]; c_mws := []; c_ehs := []; c_max_batch := None |} in
  let call i := JObj [("jsonrpc", JStr "2.0"); ("method", JStr "m"); ("id", i)] in
  let note := JObj [("jsonrpc", JStr "2.0"); ("method", JStr "nosuch")] in
  fst (dispatch cfg (LOk (JArr [call (JInt 1); note; call (JStr "1")])) JNull)
  = Ok (Some (JArr [JObj [("jsonrpc", JStr "2.0"); ("id", JInt 1); ("result", JArr [])];
                    JObj [("jsonrpc", JStr "2.0"); ("id", JStr "1"); ("result", JArr [])]], [0%Z; 0%Z])).
Proof. vm_compute. reflexivity. Qed.
