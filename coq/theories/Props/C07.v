(* C07 - calling through client and server equals calling the function, in any notation.
   Statements only; proofs in Lemmas/EndToEndL.v, Lemmas/ClientL.v, Lemmas/MsgL.v.
   through_single / through_batch compose: the client's request building, the wire round trip, the dispatcher
   (Model.Dispatch.dispatch), and the client's receive path; the JSON text codec between the two halves is an
   oracle (identity on JSON values), exercised by the correspondence run on every case. *)
From Coq Require Import ZArith List String Ascii Bool.
From PJ Require Import Base.Json Base.Res Model.Msg Model.Bind Model.Dispatch Model.Client Model.EndToEnd Generated.Consts
     Lemmas.MsgL Lemmas.DispatchL Lemmas.ClientL Lemmas.EndToEndL.
Import ListNotations.
Open Scope string_scope. Open Scope list_scope.

(* exactly one well-formed request document per call: it deserialises to the request that was built *)
Theorem C07_single_wire : forall g n q, build_single g n = Ok q ->
  valid_request_json (req_to_json q) = true /\ req_from_json (req_to_json q) = Ok (norm_req q).
Proof. exact single_wire. Qed.
Theorem C07_wire_members : forall r,
  exists kvs, req_to_json r = JObj kvs
  /\ get "jsonrpc" kvs = Some (JStr "2.0")
  /\ get "method" kvs = Some (JStr (r_method r))
  /\ get "id" kvs = match r_id r with None => None | Some _ => Some (id_json (r_id r)) end
  /\ get "params" kvs = (if params_truthy (r_params r) then Some (params_json (r_params r)) else None)
  /\ forall k, has k kvs = true -> In k ["jsonrpc"; "method"; "id"; "params"].
Proof. exact req_wire. Qed.
(* whatever the id generator yields, a batch never goes on the wire with duplicate ids: building it raises instead *)
Theorem C07_batch_ids_distinct : forall g n bq, build_batch g n = Ok bq ->
  b_ids bq = cat_some (map r_id (b_items bq)) /\ NoDup (b_ids bq).
Proof. exact build_batch_inv. Qed.

(* client.call (= client(...) = client.proxy.m(...)) returns what the registered function returns, and raises the
   error the function raised with the same code, message and data, as the class registered for the code *)
Theorem C07_call_equals_function : forall cfg ctx strict base g m pos kw q f,
  c_mws cfg = [] -> c_ehs cfg = [] -> build_single g (NCall m pos kw) = Ok q ->
  get m (c_registry cfg) = Some f ->
  call_outcome (fst (through_single cfg ctx strict base g (NCall m pos kw))) =
  match f ctx (norm_params (r_params q)) with
  | MRan _ (ORet v) => COk v
  | MRan _ (ORpc e) => CRaise (CRpc (reclass_err error_registry base e))
  | MRan _ (OExc _) | MCallFail => CRaise (CRpc (reclass_err error_registry base server_error))
  | MInvalid d => CRaise (CRpc (reclass_err error_registry base (invalid_params d)))
  | MInternal => CRaise (CRpc (reclass_err error_registry base internal_error))
  end.
Proof. exact call_equals_function. Qed.
Theorem C07_error_class : forall rg base e,
  e_code (reclass_err rg base e) = e_code e /\ e_msg (reclass_err rg base e) = e_msg e
  /\ e_data (reclass_err rg base e) = e_data e /\ e_class (reclass_err rg base e) = class_of rg base (e_code e).
Proof. intros; repeat split. Qed.

(* notifications return nothing, raise nothing (strict or not) and run the method exactly as a call would *)
Theorem C07_notify : forall cfg ctx strict base g m pos kw q,
  c_mws cfg = [] -> build_single g (NNotify m pos kw) = Ok q ->
  through_single cfg ctx strict base g (NNotify m pos kw) = (COk None, snd (handle_request cfg (norm_req q) ctx)).
Proof. exact notify_returns_nothing. Qed.

(* batches of ANY length, mixing calls and notifications, in every notation: the caller gets nothing for an
   all-notification batch, else the responses of the calls in call order (aligned), each being what the element
   gets alone; the server-side log is the concatenation of the per-element logs *)
Theorem C07_batch : forall cfg ctx strict base g n bq,
  c_mws cfg = [] -> c_max_batch cfg = None -> build_batch g n = Ok bq -> b_items bq <> [] ->
  let outs := map (fun q => handle_request cfg (norm_req q) ctx) (b_items bq) in
  let resps := map (reclass error_registry "JsonRpcError") (cat_some (map fst outs)) in
  exists ids,
  through_batch cfg ctx strict base g n =
  (if breq_is_notification bq then COk None else COk (Some (BList {| b_items := resps; b_ids := ids |})),
   List.concat (map snd outs))
  /\ aligned (b_items bq) resps.
Proof. exact through_batch_request. Qed.

(* all notations for the same calls are interchangeable: identical wire documents *)
Theorem C07_notations : forall g items,
  match build_batch g (BnGetitem items), build_batch g (BnAdd (map (fun mp => BCall (fst mp) (snd mp) []) items)) with
  | Ok a, Ok b => breq_to_json a = breq_to_json b
  | Raise x, Raise y => x = y
  | _, _ => False end.
Proof. exact notations_same_wire. Qed.

(* the built-in uuid generator cannot be used: building the request document fails (known finding F7) *)
Theorem C07_uuid_refuted : forall m pos kw p, mk_params pos kw = Ok p -> build_single GUuid (NCall m pos kw) = Raise XType.
Proof. intros m pos kw p H. cbn. rewrite H. reflexivity. Qed.

Example C07_ex :
  let f : rmethod := fun _ p => MRan [] (ORet (params_json p)) in
  let cfg := {| c_registry := [("echo", f)]; c_mws := []; c_ehs := []; c_max_batch := None |} in
  call_outcome (fst (through_single cfg JNull true "JsonRpcError" (GSeq 1 1) (NCall "echo" [JInt 1; JNull] []))) = COk (JArr [JInt 1; JNull])
  /\ fst (through_batch cfg JNull true "JsonRpcError" (GSeq 1 1) (BnAdd [BNote "echo" [] []; BNote "nosuch" [] []])) = COk None.
Proof. vm_compute. split; reflexivity. Qed.
