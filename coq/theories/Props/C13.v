(* C13 - requests are independent: nothing leaks from one dispatch into the next.
   Statements only; proofs in Lemmas/CacheL.v.  The dispatcher object itself keeps only the registry, the middleware chain
   and the handler table (Model.Dispatch.dispatch is a function of configuration, request and context - it has no state
   argument at all); the library state that survives a dispatch is the memo tables modelled in Model/Cache.v.
   Garbage-collector reachability and OS-thread interleavings are runtime behaviour: they are observed by the correspondence
   run (weak references after gc.collect(), thread pools) and not expressible as theorems. *)
From Coq Require Import ZArith List String Ascii Bool Arith.
From PJ Require Import Base.Json Model.Bind Model.Cache Lemmas.CacheL.
Import ListNotations.

(* after ANY history of dispatches a lookup returns exactly the recomputed value: answers do not depend on what was served before *)
Theorem C13_history_free : forall (V : Type) (compute : ckey -> V) ks c, cache_ok compute c ->
  fst (memo_all compute c ks) = map compute ks /\ cache_ok compute (snd (memo_all compute c ks)).
Proof. intros V compute. exact (history_free compute). Qed.
(* in particular parameter binding through the signature cache is parameter binding without it (Model.Bind.method_invoke),
   whatever the cache holds - so every theorem of C01-C04 holds after any history *)
Theorem C13_binding_unaffected : forall sigs c validator fn cm ctx p,
  cache_ok (compute_sig sigs) c ->
  fst (invoke_cached sigs c validator fn cm ctx p) = method_invoke (sigs fn) cm ctx p
  /\ cache_ok (compute_sig sigs) (snd (invoke_cached sigs c validator fn cm ctx p)).
Proof. exact cached_binding_is_binding. Qed.

(* memory: the table holds at most one entry per distinct key ever asked for - bounded by the number of registered
   (validator, function, exclusion) combinations, however many requests are served *)
Theorem C13_bounded : forall (V : Type) (compute : ckey -> V) ks (universe : list ckey),
  (forall k, In k ks -> In k universe) -> List.length (snd (memo_all compute [] ks)) <= List.length universe.
Proof. intros V compute. exact (size_bounded compute). Qed.
(* ... and the key is a function of the registration alone: it mentions neither the request, nor its context, nor the
   per-request view instance (a record without such fields), so nothing created for a request is retained by the table *)
Theorem C13_key_of_registration_only : forall m,
  key_of m = (rm_validator m, rm_fn m, (if rm_view m then [] else match rm_ctx m with Some c => [c] | None => [] end), rm_view m).
Proof. reflexivity. Qed.

Example C13_ex_view_constant :
  let m := {| rm_validator := 0; rm_fn := 7; rm_ctx := None; rm_view := true |} in
  List.length (snd (memo_all (fun k => k) [] (repeat (key_of m) 50))) = 1.
Proof. vm_compute. reflexivity. Qed.
