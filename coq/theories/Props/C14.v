(* C14 - parameter validators let exactly the conforming calls through.  Statements only; proofs in Lemmas/ValidatorsL.v.
   [js_valid] is the definition of conformance for the JSON-Schema fragment of the quantifier (cross-checked against the
   jsonschema package on every case); pydantic's per-argument verdicts are oracle data. *)
From Coq Require Import ZArith List String Ascii Bool.
From PJ Require Import Base.Json Base.Res Model.Bind Model.Validators Lemmas.BindL Lemmas.ValidatorsL Lemmas.ExcludeL.
Import ListNotations.
Open Scope string_scope. Open Scope list_scope.

(* schema validator: the body runs IFF the arguments bind and the bound arguments satisfy the schema - and then with exactly the
   arguments an unvalidated call would get (nothing is rewritten) *)
Theorem C14_schema_iff : forall s cm ctx sc p e,
  invoke_js s cm ctx sc p = InvRan e <->
  (method_invoke s cm ctx p = InvRan e /\ exists kw, validate_bind (excluded_sig s cm) p = Some kw /\ js_valid sc (JObj kw) = true).
Proof. exact invoke_js_runs_iff. Qed.
Theorem C14_schema_spec : forall s cm ctx sc p,
  invoke_js s cm ctx sc p =
  match validate_bind (excluded_sig s cm) p with
  | Some kw => if js_valid sc (JObj kw) then method_invoke s cm ctx p else InvInvalid
  | None => InvInvalid end.
Proof. exact invoke_js_spec. Qed.
Theorem C14_schema_rejects : forall s cm ctx sc p kw,
  validate_bind (excluded_sig s cm) p = Some kw -> js_valid sc (JObj kw) = false -> invoke_js s cm ctx sc p = InvInvalid.
Proof. exact invoke_js_rejects. Qed.

(* the evaluator means what the keywords say *)
Theorem C14_required : forall ty en mn mx props req add items kvs,
  js_valid (SNode ty en mn mx props req add items) (JObj kvs) = true -> forall r, In r req -> has r kvs = true.
Proof. exact js_required. Qed.
Theorem C14_additional_properties : forall ty en mn mx props req items kvs,
  js_valid (SNode ty en mn mx props req false items) (JObj kvs) = true -> forall k, In k (keys kvs) -> has k props = true.
Proof. exact js_additional. Qed.
Theorem C14_type_enum_bounds : forall ty en mn mx props req add items v,
  js_valid (SNode ty en mn mx props req add items) v = true -> type_ok ty v = true /\ enum_ok en v = true /\ bound_ok mn mx v = true.
Proof. exact js_type. Qed.
Theorem C14_properties : forall ty en mn mx req add items kvs k sub x props,
  js_valid (SNode ty en mn mx props req add items) (JObj kvs) = true -> In (k, sub) props -> get k kvs = Some x -> js_valid sub x = true.
Proof. exact js_property. Qed.

(* the excluded (context) parameter is never part of what is validated, and cannot be set by the client (C04) *)
Theorem C14_excluded_not_validated : forall s n p kw, simple_sig s = true -> names_distinct s = true -> params_wf p ->
  validate_bind (sig_exclude n s) p = Some kw -> ~ In n (keys kw).
Proof. exact validated_mapping_excludes_context. Qed.

(* type validator: every bound argument must be accepted; without coercion the arguments are unchanged, with coercion the
   body receives exactly the converted values *)
Theorem C14_typed_unchanged : forall s cm ctx o p kw kw',
  validate_bind (excluded_sig s cm) p = Some kw -> apply_verdicts o kw = Some kw' ->
  invoke_pyd s cm ctx o false p = method_invoke s cm ctx p.
Proof. exact invoke_pyd_no_coerce. Qed.
Theorem C14_typed_converted : forall s cm ctx o p kw kw',
  validate_bind (excluded_sig s cm) p = Some kw -> apply_verdicts o kw = Some kw' ->
  invoke_pyd s cm ctx o true p = call_with s cm ctx kw'.
Proof. exact invoke_pyd_coerce. Qed.
Theorem C14_converted_values : forall o kw kw', apply_verdicts o kw = Some kw' ->
  Forall2 (fun a b => fst a = fst b /\ get (fst a) o = Some (Some (snd b))) kw kw'.
Proof. exact apply_verdicts_spec. Qed.
Theorem C14_typed_rejects : forall s cm ctx o coerce p kw,
  validate_bind (excluded_sig s cm) p = Some kw -> apply_verdicts o kw = None -> invoke_pyd s cm ctx o coerce p = InvInvalid.
Proof. exact invoke_pyd_rejects. Qed.
Theorem C14_rejected_argument : forall o kw n v, In (n, v) kw -> (get n o = None \/ get n o = Some None) -> apply_verdicts o kw = None.
Proof. exact apply_verdicts_reject. Qed.

(* the exclusion predicate (exclude_param=...): the selected parameters are removed from what is bound and validated under every
   validator; without a predicate nothing changes *)
Theorem C14_no_predicate : forall s cm ctx p sc o coerce,
  invoke_base_x s cm [] ctx p = method_invoke s cm ctx p
  /\ invoke_js_x s cm [] ctx sc p = invoke_js s cm ctx sc p
  /\ invoke_pyd_x s cm [] ctx o coerce p = invoke_pyd s cm ctx o coerce p.
Proof. exact invoke_x_nil. Qed.
Theorem C14_predicate_schema_spec : forall s cm xs ctx sc p,
  invoke_js_x s cm xs ctx sc p =
  match validate_bind (excluded_sig_x s cm xs) p with
  | Some kw => if js_valid sc (JObj kw) then invoke_base_x s cm xs ctx p else InvInvalid
  | None => InvInvalid end.
Proof. exact invoke_js_x_spec. Qed.
Theorem C14_predicate_typed_spec : forall s cm xs ctx o coerce p,
  invoke_pyd_x s cm xs ctx o coerce p =
  match validate_bind (excluded_sig_x s cm xs) p with
  | Some kw => match apply_verdicts o kw with
               | Some kw' => if coerce then call_with s cm ctx kw' else invoke_base_x s cm xs ctx p
               | None => InvInvalid end
  | None => InvInvalid end.
Proof. exact invoke_pyd_x_spec. Qed.
(* excluded parameters are never validated ... *)
Theorem C14_predicate_not_validated : forall s cm xs p kw, simple_sig s = true -> names_distinct s = true -> params_wf p ->
  validate_bind (excluded_sig_x s cm xs) p = Some kw -> forall n, In n xs -> ~ In n (keys kw).
Proof. exact excluded_not_validated. Qed.
(* ... never settable by the client: naming one is -32602 under every validator and the body does not run ... *)
Theorem C14_predicate_not_settable : forall s cm xs ctx d n sc o coerce,
  simple_sig s = true -> names_distinct s = true -> In n xs -> In n (keys d) ->
  invoke_base_x s cm xs ctx (PKw d) = InvInvalid
  /\ invoke_js_x s cm xs ctx sc (PKw d) = InvInvalid
  /\ invoke_pyd_x s cm xs ctx o coerce (PKw d) = InvInvalid.
Proof. exact excluded_not_settable. Qed.
(* ... and (no context parameter) the call is a direct call of the function the client sees, the excluded parameters taking
   their own defaults whatever the client sent *)
Theorem C14_predicate_direct_call : forall s xs ctx p,
  simple_sig s = true -> names_distinct s = true -> params_wf p ->
  (forall q, In q s -> In (pname q) xs -> pdef q = true) ->
  invoke_base_x s CtxNone xs ctx p =
  match py_call (sig_exclude_all xs s) (fst (split_params p)) (snd (split_params p)) with
  | Some e' => InvRan (widen s e') | None => InvInvalid end.
Proof. exact invoke_base_x_direct. Qed.
Theorem C14_predicate_default : forall s xs ctx p e n,
  simple_sig s = true -> names_distinct s = true -> params_wf p ->
  (forall q, In q s -> In (pname q) xs -> pdef q = true) ->
  invoke_base_x s CtxNone xs ctx p = InvRan e -> In n xs -> In n (names s) -> get n e = Some Default.
Proof. exact excluded_takes_default. Qed.

Example C14_ex_predicate :
  let s := [{| pname := "a"; pk := PK; pdef := false |}; {| pname := "db"; pk := PK; pdef := true |}; {| pname := "b"; pk := PK; pdef := true |}] in
  invoke_base_x s CtxNone ["db"] JNull (PPos [JInt 1; JInt 2]) = InvRan [("a", Given (JInt 1)); ("db", Default); ("b", Given (JInt 2))]
  /\ invoke_base_x s CtxNone ["db"] JNull (PKw [("a", JInt 1); ("db", JInt 9)]) = InvInvalid
  /\ invoke_base_x s CtxNone ["db"] JNull (PPos [JInt 1; JInt 2; JInt 3]) = InvInvalid.
Proof. vm_compute. repeat split; reflexivity. Qed.

Example C14_ex :
  let sc := SNode (Some TObject) None None None [("n", SNode (Some TInteger) None (Some 0%Z) None [] [] true None)] ["n"] false None in
  let s := [{| pname := "n"; pk := PK; pdef := false |}; {| pname := "tag"; pk := PK; pdef := true |}] in
  invoke_js s CtxNone JNull sc (PKw [("n", JInt 1)]) = InvRan [("n", Given (JInt 1)); ("tag", Default)]
  /\ invoke_js s CtxNone JNull sc (PKw [("n", JInt (-1))]) = InvInvalid
  /\ invoke_js s CtxNone JNull sc (PKw [("n", JBool true)]) = InvInvalid
  /\ invoke_js s CtxNone JNull sc (PPos [JInt 1; JStr "x"]) = InvInvalid.
Proof. vm_compute. repeat split; reflexivity. Qed.
