(* C14 - parameter validators admit exactly the conforming calls.  Statements only; proofs in Lemmas/ValidatorsL.v.
   [js_valid] is the definition of conformance for the JSON-Schema fragment of the quantifier (cross-checked against the
   jsonschema package on every case); pydantic's per-argument verdicts are oracle data. *)
From Coq Require Import ZArith List String Ascii Bool.
From PJ Require Import Base.Json Base.Res Model.Bind Model.Validators Lemmas.BindL Lemmas.ValidatorsL.
Import ListNotations.
Open Scope string_scope. Open Scope list_scope.

(* schema validator: the body runs IFF the arguments bind and the bound arguments satisfy the schema - and then with exactly the
   arguments an unvalidated call would get (nothing is rewritten) *)
Theorem C14_schema_iff : forall s cm ctx sc p e,
  invoke_js s cm ctx sc p = InvRan e <->
  (method_invoke s cm ctx p = InvRan e /\ exists kw, validate_bind (excluded_sig s cm) p = Some kw /\ js_valid sc (JObj kw) = true).
Proof. exact invoke_js_runs_iff. Qed.
Theorem C14_schema_spec : forall s cm ctx sc p,
  invoke_js s cm ctx sc p =
  match validate_bind (excluded_sig s cm) p with
  | Some kw => if js_valid sc (JObj kw) then method_invoke s cm ctx p else InvInvalid
  | None => InvInvalid end.
Proof. exact invoke_js_spec. Qed.
Theorem C14_schema_rejects : forall s cm ctx sc p kw,
  validate_bind (excluded_sig s cm) p = Some kw -> js_valid sc (JObj kw) = false -> invoke_js s cm ctx sc p = InvInvalid.
Proof. exact invoke_js_rejects. Qed.

(* the evaluator means what the keywords say *)
Theorem C14_required : forall ty en mn mx props req add items kvs,
  js_valid (SNode ty en mn mx props req add items) (JObj kvs) = true -> forall r, In r req -> has r kvs = true.
Proof. exact js_required. Qed.
Theorem C14_additional_properties : forall ty en mn mx props req items kvs,
  js_valid (SNode ty en mn mx props req false items) (JObj kvs) = true -> forall k, In k (keys kvs) -> has k props = true.
Proof. exact js_additional. Qed.
Theorem C14_type_enum_bounds : forall ty en mn mx props req add items v,
  js_valid (SNode ty en mn mx props req add items) v = true -> type_ok ty v = true /\ enum_ok en v = true /\ bound_ok mn mx v = true.
Proof. exact js_type. Qed.
Theorem C14_properties : forall ty en mn mx req add items kvs k sub x props,
  js_valid (SNode ty en mn mx props req add items) (JObj kvs) = true -> In (k, sub) props -> get k kvs = Some x -> js_valid sub x = true.
Proof. exact js_property. Qed.

(* the excluded (context) parameter is never part of what is validated, and cannot be set by the client (C04) *)
Theorem C14_excluded_not_validated : forall s n p kw, simple_sig s = true -> names_distinct s = true -> params_wf p ->
  validate_bind (sig_exclude n s) p = Some kw -> ~ In n (keys kw).
Proof. exact validated_mapping_excludes_context. Qed.

(* type validator: every bound argument must be accepted; without coercion the arguments are unchanged, with coercion the
   body receives exactly the converted values *)
Theorem C14_typed_unchanged : forall s cm ctx o p kw kw',
  validate_bind (excluded_sig s cm) p = Some kw -> apply_verdicts o kw = Some kw' ->
  invoke_pyd s cm ctx o false p = method_invoke s cm ctx p.
Proof. exact invoke_pyd_no_coerce. Qed.
Theorem C14_typed_converted : forall s cm ctx o p kw kw',
  validate_bind (excluded_sig s cm) p = Some kw -> apply_verdicts o kw = Some kw' ->
  invoke_pyd s cm ctx o true p = call_with s cm ctx kw'.
Proof. exact invoke_pyd_coerce. Qed.
Theorem C14_converted_values : forall o kw kw', apply_verdicts o kw = Some kw' ->
  Forall2 (fun a b => fst a = fst b /\ get (fst a) o = Some (Some (snd b))) kw kw'.
Proof. exact apply_verdicts_spec. Qed.
Theorem C14_typed_rejects : forall s cm ctx o coerce p kw,
  validate_bind (excluded_sig s cm) p = Some kw -> apply_verdicts o kw = None -> invoke_pyd s cm ctx o coerce p = InvInvalid.
Proof. exact invoke_pyd_rejects. Qed.
Theorem C14_rejected_argument : forall o kw n v, In (n, v) kw -> (get n o = None \/ get n o = Some None) -> apply_verdicts o kw = None.
Proof. exact apply_verdicts_reject. Qed.

Example C14_ex :
  let sc := SNode (Some TObject) None None None [("n", SNode (Some TInteger) None (Some 0%Z) None [] [] true None)] ["n"] false None in
  let s := [{| pname := "n"; pk := PK; pdef := false |}; {| pname := "tag"; pk := PK; pdef := true |}] in
  invoke_js s CtxNone JNull sc (PKw [("n", JInt 1)]) = InvRan [("n", Given (JInt 1)); ("tag", Default)]
  /\ invoke_js s CtxNone JNull sc (PKw [("n", JInt (-1))]) = InvInvalid
  /\ invoke_js s CtxNone JNull sc (PKw [("n", JBool true)]) = InvInvalid
  /\ invoke_js s CtxNone JNull sc (PPos [JInt 1; JStr "x"]) = InvInvalid.
Proof. vm_compute. repeat split; reflexivity. Qed.
