(* C16 - generated OpenAPI / OpenRPC documents are valid, closed, complete and pure.
   Statements only; proofs in Lemmas/SpecL.v.  PARTIAL, said plainly: the theorems are about the ASSEMBLER (the loops of
   OpenAPI.schema / OpenRPC.schema: keys, per-method entries, component registration under the method's prefix, the user's
   lists) relative to prefix-abstract oracle data for what the schema extractors return; JSON-encodability and validity against
   the official meta-schemas are TESTS run by the correspondence check on every generated document, not theorems. *)
From Coq Require Import ZArith List String Ascii Bool.
From PJ Require Import Base.Json Model.Spec Lemmas.SpecL.
Import ListNotations.
Open Scope string_scope. Open Scope list_scope.

(* complete: with pairwise distinct (endpoint path, method name) keys, every registered method is described exactly once, under its
   key, in registration order - for method sets of any size *)
Theorem C16_complete : forall global h ms, NoDup (map sm_key ms) ->
  d_paths (fst (generate global h ms)) = map (fun m => (sm_key m, entry_of global h m)) ms.
Proof. exact complete. Qed.
(* isolated: what is documented for a method is a function of ITS OWN annotations, the extractor output for IT and the global
   configuration - errors, prefix, references of another method of the set never show up in it *)
Theorem C16_isolated : forall global h ms m, NoDup (map sm_key ms) -> In m ms ->
  get (sm_key m) (d_paths (fst (generate global h ms))) = Some (entry_of global h m).
Proof. exact isolated. Qed.
(* closed: provided the extractors only refer to components they return, every reference of the document resolves among its
   components (the assembler applies one and the same prefix to the reference and to the component key) *)
Theorem C16_closed : forall global h ms, NoDup (map sm_key ms) ->
  (forall m, In m ms -> forall n, In n (sm_refs m) -> In n (sm_comps m)) ->
  forall k e r, In (k, e) (d_paths (fst (generate global h ms))) -> In r (en_refs e) -> In r (d_components (fst (generate global h ms))).
Proof. exact closed. Qed.
(* pure: the lists the user passed to annotate(...) are not modified, and repeating the generation yields the identical document *)
Theorem C16_pure : forall global h ms, snd (generate global h ms) = h.
Proof. exact pure. Qed.
Theorem C16_idempotent : forall global h ms, generate global (snd (generate global h ms)) ms = generate global h ms.
Proof. exact idempotent. Qed.
Theorem C16_openrpc_pure : forall h ms, snd (generate_rpc h ms) = h /\ generate_rpc (snd (generate_rpc h ms)) ms = generate_rpc h ms.
Proof. exact pure_rpc. Qed.

Example C16_ex_shared_list :
  let m1 := {| sm_key := "/#a"; sm_ann_errors := Some 0%nat; sm_ext_errors := [2002%Z]; sm_prefix := Some "P_"; sm_comps := ["A"]; sm_refs := ["A"] |} in
  let m2 := {| sm_key := "/#b"; sm_ann_errors := Some 0%nat; sm_ext_errors := []; sm_prefix := None; sm_comps := ["B"]; sm_refs := ["B"] |} in
  let '(d, h') := generate "" [[2001%Z]] [m1; m2] in
  h' = [[2001%Z]] /\ option_map en_errors (get "/#b" (d_paths d)) = Some [2001%Z]
  /\ option_map en_refs (get "/#b" (d_paths d)) = Some ["B"] /\ d_components d = ["P_A"; "B"].
Proof. vm_compute. repeat split; reflexivity. Qed.
