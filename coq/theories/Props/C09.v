(* C09 - retries are bounded, follow the configured backoff, and return the last outcome.
   Statements only; proofs in Lemmas/RetryL.v.  [script] is the sequence of outcomes of the successive send
   attempts (any length); delays are exact rationals; the jitter function is the stream of its successive values. *)
From Coq Require Import ZArith QArith List Bool.
From PJ Require Import Model.Retry Lemmas.RetryL.
Import ListNotations.

(* at most attempts + 1 sends, for every strategy, jitter and outcome script *)
Theorem C09_bound : forall s jit script,
  (r_sends (retry_loop s (delays (s_backoff s) jit) script) <= attempts_of (s_backoff s) + 1)%nat.
Proof. exact sends_bound. Qed.

(* exactly when: one send more than the number of leading retryable outcomes (listed code on a response or batch-level
   error / listed exception class or subclass), capped by the attempts; the caller gets the outcome of the last send,
   unchanged; the pauses are exactly the first sends-1 delays - none before the first send, none after the last *)
Theorem C09_when_last_delays : forall s ds script,
  (Nat.min (leading s script) (List.length ds) < List.length script)%nat ->
  r_sends (retry_loop s ds script) = S (Nat.min (leading s script) (List.length ds))
  /\ r_final (retry_loop s ds script) = nth_error script (Nat.min (leading s script) (List.length ds))
  /\ r_sleeps (retry_loop s ds script) = firstn (Nat.min (leading s script) (List.length ds)) ds.
Proof. exact loop_sends. Qed.
Theorem C09_sleeps : forall s ds script,
  (Nat.min (leading s script) (List.length ds) < List.length script)%nat ->
  r_sleeps (retry_loop s ds script) = firstn (r_sends (retry_loop s ds script) - 1) ds.
Proof. exact loop_sleeps. Qed.
Theorem C09_last : forall s ds script a, r_final (retry_loop s ds script) = Some a ->
  nth_error script (r_sends (retry_loop s ds script) - 1) = Some a.
Proof. exact loop_final_is_last. Qed.

(* unlisted outcomes, successes and notifications return immediately *)
Theorem C09_passthrough : forall s ds a rest, retryable s a = false ->
  retry_loop s ds (a :: rest) = {| r_sends := 1; r_sleeps := []; r_final := Some a |}.
Proof. exact loop_passthrough. Qed.
Theorem C09_notification : forall s tag, retryable s {| a_kind := KNone; a_tag := tag |} = false.
Proof. exact notification_never_retried. Qed.
Theorem C09_success : forall s tag, retryable s {| a_kind := KResp None; a_tag := tag |} = false.
Proof. exact success_never_retried. Qed.

(* the backoffs: closed forms of the generators, for every index below the number of attempts *)
Theorem C09_periodic : forall n interval jit k, (k < n)%nat ->
  nth_error (delays (Periodic n interval) jit) k = Some (interval + jit k)%Q.
Proof. exact periodic_nth. Qed.
Theorem C09_exponential : forall n base factor mx jit k, (k < n)%nat ->
  nth_error (delays (Exponential n base factor mx) jit) k = Some (cap mx (base * Qpower factor (Z.of_nat k) + jit k))%Q.
Proof. exact exponential_nth. Qed.
Theorem C09_fibonacci : forall n mult mx jit k, (k < n)%nat ->
  nth_error (delays (Fibonacci n mult mx) jit) k = Some (cap mx (inject_Z (fib (k + 2)) * mult + jit k))%Q.
Proof. exact fibonacci_nth. Qed.
Theorem C09_delay_count : forall b jit, List.length (delays b jit) = attempts_of b.
Proof. exact delays_length. Qed.

(* a per-request strategy replaces the client-wide one; None disables retrying *)
Theorem C09_override : forall client s,
  effective client (RSome s) = Some s /\ effective client RNone = None /\ effective client RUnset = client.
Proof. exact per_request_overrides. Qed.
Theorem C09_disabled : forall client p jit a rest, effective client p = None ->
  send_with client p jit (a :: rest) = {| r_sends := 1; r_sleeps := []; r_final := Some a |}.
Proof. exact disabled_sends_once. Qed.

Example C09_ex :
  let s := {| s_backoff := Fibonacci 3 (1#2) (Some 2); s_codes := Some [2000%Z]; s_excs := Some [10%nat] |} in
  let a k t := {| a_kind := k; a_tag := t |} in
  retry_loop s (delays (s_backoff s) (fun _ => 0)) [a (KExc 1) 0%nat; a (KResp (Some 2000%Z)) 1%nat; a (KResp (Some 5%Z)) 2%nat; a (KResp None) 3%nat]
  = {| r_sends := 3%nat; r_sleeps := [cap (Some 2) (inject_Z 1 * (1#2) + 0); cap (Some 2) (inject_Z 2 * (1#2) + 0)]; r_final := Some (a (KResp (Some 5%Z)) 2%nat) |}.
Proof. vm_compute. reflexivity. Qed.
