(* C10 - concurrent batches cannot mix up responses; sequential mode is sequential.
   Statements only; proofs in Lemmas/AsyncL.v.  A schedule is ANY list of element indices - strictly more
   interleavings than asyncio's event loop can produce; coroutines are sequences of atomic segments. *)
From Coq Require Import List Arith Bool.
From PJ Require Import Base.Json Base.Res Model.Msg Model.Bind Model.Dispatch Model.Async Lemmas.AsyncL.
Import ListNotations.

(* the gathered results are in request order, each element's own, under EVERY schedule, for any number of
   elements and suspension points *)
Theorem C10_results : forall (Ev Res : Type) sched (s : list (slot Ev Res)),
  map slot_final (fst (run sched s)) = map slot_final s.
Proof. intros Ev Res. exact (@results_order_independent Ev Res). Qed.

(* at every moment of every schedule: what element k has emitted, followed by what it still has to emit, is
   exactly its own sequential trace (nothing lost, duplicated or attributed to another element) *)
Theorem C10_trace_conserved : forall (Ev Res : Type) sched (s : list (slot Ev Res)) k x, nth_error s k = Some x ->
  exists x', nth_error (fst (run sched s)) k = Some x' /\ proj k (snd (run sched s)) ++ slot_rest x' = slot_rest x
             /\ slot_final x' = slot_final x.
Proof. intros Ev Res. exact (@trace_conserved Ev Res). Qed.
(* when all elements have finished, each has emitted exactly its own trace: every method ran exactly once *)
Theorem C10_exactly_once : forall (Ev Res : Type) sched (s : list (slot Ev Res)) k x,
  finished (fst (run sched s)) = true -> nth_error s k = Some x -> proj k (snd (run sched s)) = slot_rest x.
Proof. intros Ev Res. exact (@complete_traces Ev Res). Qed.

(* concurrent_batch = False: the driver runs each element to completion before starting the next, so the global trace is
   the elements' traces one after the other in request order and everything has finished *)
Theorem C10_sequential : forall (Ev Res : Type) (s : list (slot Ev Res)),
  run (seq_schedule 0 s) s = (map (fun x => Done (slot_final x)) s, tagged_traces 0 s).
Proof. intros Ev Res. exact (@sequential_run Ev Res). Qed.

(* tie to the dispatcher model: however the element handlers of an accepted batch are cut into segments and whatever
   the schedule, the responses gathered are those the synchronous model collects (C02_batch_is_map) *)
Theorem C10_equiv_sync : forall cfg ctx (rs : list request) (cut : option response * log -> list (list event)) sched,
  let outs := map (fun r => request_handler cfg r ctx) rs in
  let slots := map (fun o => Run {| segs := cut o; res := fst o |}) outs in
  cat_some (map slot_final (fst (run sched slots))) = cat_some (map fst outs).
Proof.
  intros cfg ctx rs cut sched outs slots. rewrite results_order_independent. subst slots. rewrite map_map. reflexivity.
Qed.

Example C10_ex_interleaved :
  let s := [Run {| segs := [[1]; [2]]; res := 10 |}; Run {| segs := [[3]; [4]; [5]]; res := 20 |}] in
  run [0; 1; 1; 0; 1] s = ([Done 10; Done 20], [(0, 1); (1, 3); (1, 4); (0, 2); (1, 5)]).
Proof. vm_compute. reflexivity. Qed.
