(* C01 - the server answers every request text with nothing or a well-formed JSON-RPC 2.0 response document
   together with the matching error codes, and never raises.  Statements only; proofs in Lemmas/DispatchL.v.
   [load_result] is what the configured json loader did with the text (an oracle, supplied per case by the
   harness); the loader contract is "returns a value or raises a ValueError (JSONDecodeError included)". *)
From Coq Require Import ZArith List String Ascii Bool.
From PJ Require Import Base.Json Base.Res Model.Msg Model.Bind Model.Dispatch Lemmas.DispatchL.
Import ListNotations.
Open Scope string_scope.

(* never raises: for every configuration (registry, error handlers, batch limit, any middlewares that keep the
   id discipline), every loader verdict inside the contract - hence every request text - and every context *)
Theorem C01_total : forall cfg l ctx,
  loader_in_contract l -> mws_id_ok cfg -> exists o lg, dispatch cfg l ctx = (Ok o, lg).
Proof. exact dispatch_total. Qed.

(* whatever is returned is a response document (one object or a NON-EMPTY array of objects, each with
   jsonrpc "2.0", an id that is a string, an integer or null, exactly one of result / error, error = integer
   code + string message + optional data) and the codes returned alongside are those of the document *)
Theorem C01_wf : forall cfg l ctx doc codes lg,
  dispatch cfg l ctx = (Ok (Some (doc, codes)), lg) ->
  wf_response_doc doc = true /\ codes = codes_of_doc doc.
Proof. exact dispatch_wf. Qed.

(* the middleware proviso is met by the empty stack and by any stack of id-preserving middlewares *)
Theorem C01_no_middlewares : forall cfg, c_mws cfg = [] -> mws_id_ok cfg.
Proof. intros cfg H. unfold mws_id_ok. rewrite H. constructor. Qed.

(* non-vacuity / witnesses *)
Example C01_ex_notifications_only :
  let cfg := {| c_registry := [("m", fun _ _ => MRan [] (ORet (JInt 1)))]; c_mws := []; c_ehs := []; c_max_batch := None |} in
  fst (dispatch cfg (LOk (JArr [JObj [("jsonrpc", JStr "2.0"); ("method", JStr "m")]])) JNull) = Ok None.
Proof. vm_compute. reflexivity. Qed.
Example C01_ex_huge_literal :
  let cfg := {| c_registry := []; c_mws := []; c_ehs := []; c_max_batch := None |} in
  exists doc, fst (dispatch cfg LValueError JNull) = Ok (Some (doc, [(-32700)%Z])) /\ wf_response_doc doc = true.
Proof. eexists. vm_compute. split; reflexivity. Qed.
(* the proviso is necessary: a middleware answering every element with one fixed id makes dispatch raise *)
Example C01_ex_proviso_needed :
  let mw := {| mw_pre := fun _ _ => inr (Some (RResult (Some (IInt 7)) JNull)); mw_post := fun _ _ x => x |} in
  let cfg := {| c_registry := []; c_mws := [mw]; c_ehs := []; c_max_batch := None |} in
  let call i := JObj [("jsonrpc", JStr "2.0"); ("method", JStr "m"); ("id", JInt i)] in
  fst (dispatch cfg (LOk (JArr [call 1%Z; call 2%Z])) JNull) = Raise XIdentity.
Proof. vm_compute. reflexivity. Qed.
