From PJ Require Import Model.Dispatch.
Lemma placeholder : True. Proof. exact I. Qed.
