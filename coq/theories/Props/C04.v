(* C04 - methods receive exactly the caller's arguments plus the server-side context.
   Statements only; proofs in Lemmas/BindL.v and Lemmas/DispatchL.v.
   [py_call] / [direct_call] transcribe CPython's own binding of a call (validated against the interpreter on every
   run) and are the SPECIFICATION; [method_invoke] is pjrpc's path (Signature.bind on the context-free signature,
   .arguments, functools.partial with keywords, context by name / first positional / view constructor). *)
From Coq Require Import ZArith List String Ascii Bool.
From PJ Require Import Base.Json Base.Res Model.Msg Model.Bind Model.Dispatch Lemmas.BindL Lemmas.DispatchL.
Import ListNotations.
Open Scope string_scope. Open Scope list_scope.

(* On every signature of positional-or-keyword / keyword-only parameters (any length, any defaults), for every
   context mode and EVERY positional list or named mapping: the body runs with exactly the environment a direct call
   binds (defaults filling omitted parameters), and whenever a direct call cannot bind (missing, surplus, unknown
   argument) the verdict is "invalid params" and the body does not run - never a failure at call time. *)
Theorem C04_bind_agrees_partial : forall s cm ctx p,
  simple_sig s = true -> names_distinct s = true -> ctx_ok s cm -> params_wf p ->
  method_invoke s cm ctx p = match direct_call s cm ctx p with Some e => InvRan e | None => InvInvalid end.
Proof. exact invoke_agrees. Qed.

(* the FULL statement (all well-formed signatures, incl. variadic and positional-only parameters) is false of the
   faithful model of the current tree: finding F5, witnesses replayed on the implementation by the check *)
Theorem C04_bind_agrees_refuted :
  (wf_sig sig_kw = true /\ method_invoke sig_kw CtxNone JNull (PKw [("a", JInt 1); ("b", JInt 2)])
     <> match direct_call sig_kw CtxNone JNull (PKw [("a", JInt 1); ("b", JInt 2)]) with Some e => InvRan e | None => InvInvalid end)
  /\ (wf_sig sig_args = true /\ method_invoke sig_args CtxNone JNull (PPos [JInt 1]) = InvCallFail
      /\ direct_call sig_args CtxNone JNull (PPos [JInt 1]) = Some [("args", Star [JInt 1])])
  /\ (wf_sig sig_po = true /\ method_invoke sig_po CtxNone JNull (PPos [JInt 1]) = InvCallFail
      /\ direct_call sig_po CtxNone JNull (PPos [JInt 1]) = Some [("a", Given (JInt 1))]).
Proof. exact agrees_refuted. Qed.

(* the context parameter always receives the server-side context object ... *)
Theorem C04_ctx_sealed : forall s n cm ctx p e,
  cm = CtxByName n \/ cm = CtxPositional n ->
  simple_sig s = true -> names_distinct s = true -> ctx_ok s cm -> params_wf p ->
  method_invoke s cm ctx p = InvRan e -> get n e = Some (Given ctx).
Proof. exact ctx_sealed. Qed.
(* ... and can never be supplied by the client: a mapping that names it is refused without running the body, and
   a positional list is bound against the signature WITHOUT the context parameter *)
Theorem C04_ctx_not_settable : forall s n ctx d,
  simple_sig s = true -> names_distinct s = true -> In n (keys d) ->
  method_invoke s (CtxByName n) ctx (PKw d) = InvInvalid /\ method_invoke s (CtxPositional n) ctx (PKw d) = InvInvalid.
Proof. exact ctx_not_settable. Qed.
Theorem C04_ctx_not_positional : forall s n ctx l,
  simple_sig s = true -> names_distinct s = true -> In n (names s) ->
  method_invoke s (CtxByName n) ctx (PPos l)
  = match py_call (sig_exclude n s) l [] with Some e' => InvRan (insert_ctx s n ctx e') | None => InvInvalid end.
Proof. exact positional_agrees_without_ctx. Qed.

(* the return value becomes the result unchanged; a bind failure is -32602 and logs no call (dispatcher level) *)
Theorem C04_result_unchanged : forall cfg r ctx, c_ehs cfg = [] ->
  fst (handle_request cfg r ctx) =
  match r_id r with
  | None => None
  | Some _ =>
      Some match get (r_method r) (c_registry cfg) with
           | None => RError (r_id r) method_not_found
           | Some m => match m ctx (r_params r) with
                       | MInvalid d => RError (r_id r) (invalid_params d)
                       | MInternal => RError (r_id r) internal_error
                       | MCallFail => RError (r_id r) server_error
                       | MRan _ (ORet v) => RResult (r_id r) v
                       | MRan _ (ORpc e) => RError (r_id r) e
                       | MRan _ (OExc _) => RError (r_id r) server_error
                       end
           end
  end.
Proof. exact handle_request_verdict. Qed.

(* non-vacuity: a three-parameter signature with a keyword-only default and the context in the middle *)
Example C04_ex :
  let s := [{| pname := "a"; pk := PK; pdef := false |}; {| pname := "ctx"; pk := PK; pdef := false |};
            {| pname := "k"; pk := KO; pdef := true |}] in
  simple_sig s = true /\ names_distinct s = true /\ ctx_ok s (CtxByName "ctx")
  /\ method_invoke s (CtxByName "ctx") (JStr "C") (PPos [JInt 1])
     = InvRan [("a", Given (JInt 1)); ("ctx", Given (JStr "C")); ("k", Default)]
  /\ method_invoke s (CtxByName "ctx") (JStr "C") (PKw [("a", JInt 1); ("ctx", JInt 2)]) = InvInvalid.
Proof. vm_compute. repeat split; auto. Qed.
