(* C17 - documented parameters are the accepted parameters.  Statements only; proofs in Lemmas/BindL.v.
   [documented] transcribes the schema extractor's filter (specs/extractors/pydantic.py:_build_params_model: the
   positional-or-keyword / keyword-only parameters not excluded; required = no default); [sig_bind_kw] is the binder
   (inspect.Signature.bind on the signature without the injected parameters).  That pydantic lists exactly the model's
   fields with required = fields without default is an oracle assumption checked by the correspondence run on every case. *)
From Coq Require Import ZArith List String Ascii Bool.
From PJ Require Import Base.Json Base.Res Model.Bind Model.Validators Lemmas.BindL Lemmas.ExcludeL.
Import ListNotations.

(* the documented parameters are exactly the parameters the binder sees: the signature minus the injected parameter *)
Theorem C17_names : forall s n, simple_sig s = true -> documented s [n] = sig_exclude n s.
Proof. exact documented_simple. Qed.
Theorem C17_names_no_context : forall s, simple_sig s = true -> documented s [] = s.
Proof. exact documented_simple_nil. Qed.
(* required in the document = without default *)
Theorem C17_required : forall s excl,
  documented_required s excl = map pname (filter (fun p => negb (pdef p)) (documented s excl)).
Proof. reflexivity. Qed.

(* a params object is accepted by binding IFF it names only documented parameters and names all the required ones -
   for signatures of any length; so a request that follows the published schema is never refused with -32602 by binding,
   and one that omits a required or adds an unlisted name (e.g. the context parameter) always is *)
Theorem C17_sound_and_complete : forall s d, simple_sig s = true -> names_distinct s = true ->
  ((exists kw, sig_bind_kw s d = Some kw) <->
   ((forall n, In n (keys d) -> In n (names s)) /\ (forall p, In p s -> pdef p = false -> In (pname p) (keys d)))).
Proof. exact mapping_binds_iff. Qed.
(* with ANY set of injected / excluded names (context parameter, view instance, the exclusion predicate's choice): the documents
   list exactly the signature the binder uses, and a params object is accepted IFF it stays within the documented names and
   covers the documented required ones *)
Theorem C17_names_general : forall s excl, simple_sig s = true -> documented s excl = sig_exclude_all excl s.
Proof. exact documented_is_bound_sig. Qed.
Theorem C17_sound_and_complete_general : forall s excl d, simple_sig s = true -> names_distinct s = true ->
  ((exists kw, sig_bind_kw (sig_exclude_all excl s) d = Some kw) <->
   ((forall n, In n (keys d) -> In n (documented_names s excl))
    /\ (forall r, In r (documented_required s excl) -> In r (keys d)))).
Proof. exact documented_binds_iff. Qed.
(* and when it binds, the dispatcher's verdict is the direct call's (C04) *)
Theorem C17_then_runs : forall s cm ctx p,
  simple_sig s = true -> names_distinct s = true -> ctx_ok s cm -> params_wf p ->
  method_invoke s cm ctx p = match direct_call s cm ctx p with Some e => InvRan e | None => InvInvalid end.
Proof. exact invoke_agrees. Qed.

Example C17_ex :
  let s := [{| pname := "ctx"; pk := PK; pdef := false |}; {| pname := "a"; pk := PK; pdef := false |}; {| pname := "k"; pk := KO; pdef := true |}] in
  documented_names s ["ctx"] = ["a"; "k"] /\ documented_required s ["ctx"] = ["a"]
  /\ sig_bind_kw (sig_exclude "ctx" s) [("a", JInt 1)] = Some [("a", JInt 1)]
  /\ sig_bind_kw (sig_exclude "ctx" s) [("a", JInt 1); ("ctx", JInt 2)] = None
  /\ sig_bind_kw (sig_exclude "ctx" s) [("k", JInt 1)] = None.
Proof. vm_compute. repeat split; reflexivity. Qed.
