(* C19 - tracers see every attempt begin and complete exactly once.
   Statements only; proofs in Lemmas/RetryL.v (the decorator order is retried(traced(_send))). *)
From Coq Require Import ZArith QArith List Bool.
From PJ Require Import Model.Retry Lemmas.RetryL.
Import ListNotations.

(* every attempt that is sent - each retry counts - is traced *)
Theorem C19_every_attempt : forall client p jit tracers supplied script,
  snd (traced_run client p jit tracers supplied script)
  = trace_attempts tracers supplied 0 (firstn (r_sends (send_with client p jit script)) script).
Proof. exact every_attempt_traced. Qed.
(* one attempt: every tracer gets a begin, then - in configuration order, with the same context object - exactly one
   completion: end with the response (nothing for a notification) if the attempt returned, error with the exception
   (BaseException included) if it raised *)
Theorem C19_bracket : forall tracers supplied idx a,
  trace_attempt tracers supplied idx a =
  map (fun t => TBegin t (if supplied then CtxCaller else CtxFresh idx)) (seq 0 tracers)
  ++ map (fun t => match a_kind a with
                   | KResp _ => TEnd t (if supplied then CtxCaller else CtxFresh idx) (Some (a_tag a))
                   | KNone => TEnd t (if supplied then CtxCaller else CtxFresh idx) None
                   | KExc _ => TError t (if supplied then CtxCaller else CtxFresh idx) (a_tag a) end) (seq 0 tracers).
Proof. exact attempt_bracket. Qed.
(* hence begin and completion counts are equal, per tracer, whenever a call has returned or raised *)
Theorem C19_counts : forall tracers supplied t sent idx,
  List.length (filter (is_begin t) (trace_attempts tracers supplied idx sent))
  = List.length (filter (is_done t) (trace_attempts tracers supplied idx sent)).
Proof. exact begin_equals_completion. Qed.
Theorem C19_event_count : forall tracers supplied sent idx,
  List.length (trace_attempts tracers supplied idx sent) = (2 * tracers * List.length sent)%nat.
Proof. exact trace_attempts_length. Qed.
(* the caller's outcome (response or re-raised exception, number of sends, pauses) does not depend on the tracers *)
Theorem C19_transparent : forall client p jit script n1 s1 n2 s2,
  fst (traced_run client p jit n1 s1 script) = fst (traced_run client p jit n2 s2 script).
Proof. exact tracing_transparent. Qed.

(* ... and the exception (or response) still reaches the caller unchanged: it is the outcome of the last attempt the tracers saw *)
Theorem C19_caller_gets_last_traced : forall client p jit tracers supplied script a,
  r_final (fst (traced_run client p jit tracers supplied script)) = Some a ->
  nth_error (firstn (r_sends (send_with client p jit script)) script) (r_sends (send_with client p jit script) - 1) = Some a.
Proof. exact caller_gets_last_traced. Qed.

Example C19_ex :
  let s := {| s_backoff := Periodic 2 0; s_codes := None; s_excs := Some [9%nat] |} in
  let a k t := {| a_kind := k; a_tag := t |} in
  snd (traced_run (Some s) RUnset (fun _ => 0%Q) 2%nat false [a (KExc 2) 0%nat; a KNone 1%nat])
  = [TBegin 0 (CtxFresh 0); TBegin 1 (CtxFresh 0); TError 0 (CtxFresh 0) 0; TError 1 (CtxFresh 0) 0;
     TBegin 0 (CtxFresh 1); TBegin 1 (CtxFresh 1); TEnd 0 (CtxFresh 1) None; TEnd 1 (CtxFresh 1) None]%nat.
Proof. vm_compute. reflexivity. Qed.
