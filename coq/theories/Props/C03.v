(* C03 - failures map to the JSON-RPC 2.0 error codes; application errors pass verbatim; nothing of a
   foreign exception leaks.  Statements only; proofs in Lemmas/DispatchL.v, codes from Generated/Consts.v. *)
From Coq Require Import ZArith List String Ascii Bool.
From PJ Require Import Base.Json Base.Res Model.Msg Model.Bind Model.Dispatch Generated.Consts
     Lemmas.MsgL Lemmas.ConstsSpec Lemmas.DispatchL.
Import ListNotations.
Open Scope string_scope. Open Scope list_scope.

(* the live constants are the JSON-RPC 2.0 codes (re-proved against the regenerated table on every run) *)
Theorem C03_codes :
  ParseError_code = (-32700)%Z /\ InvalidRequestError_code = (-32600)%Z /\ MethodNotFoundError_code = (-32601)%Z
  /\ InvalidParamsError_code = (-32602)%Z /\ InternalError_code = (-32603)%Z /\ ServerError_code = (-32000)%Z.
Proof. exact standard_codes. Qed.

Theorem C03_not_json : forall cfg ctx l, l = LDecodeError \/ l = LValueError ->
  dispatch cfg l ctx = (Ok (single (RError None parse_error)), []).
Proof. exact not_json_is_parse_error. Qed.
Theorem C03_invalid_request : forall cfg ctx v x,
  (forall es, v <> JArr es) -> req_from_json v = Raise x ->
  dispatch cfg (LOk v) ctx = (Ok (single (RError None invalid_request)), []).
Proof. exact invalid_single_is_invalid_request. Qed.
Theorem C03_invalid_batch : forall cfg elems ctx,
  (exists x, breq_from_json (JArr elems) = Raise x)
  \/ (exists b, breq_from_json (JArr elems) = Ok b /\ too_large (c_max_batch cfg) (List.length (b_items b)) = true) ->
  dispatch cfg (LOk (JArr elems)) ctx = (Ok (single (RError None invalid_request)), []).
Proof. exact rejected_batch_silent. Qed.
Theorem C03_error_shapes :
  e_code parse_error = ParseError_code /\ e_code invalid_request = InvalidRequestError_code
  /\ e_code method_not_found = MethodNotFoundError_code /\ (forall d, e_code (invalid_params d) = InvalidParamsError_code)
  /\ e_code server_error = ServerError_code /\ e_data server_error = None /\ e_msg server_error = ServerError_message.
Proof. repeat split. Qed.

Theorem C03_unknown_method : forall cfg name p ctx,
  get name (c_registry cfg) = None -> handle_rpc_method cfg name p ctx = (HErr method_not_found, []).
Proof. exact unknown_method_not_found. Qed.
Theorem C03_invalid_params_not_run : forall cfg name p ctx m d,
  get name (c_registry cfg) = Some m -> m ctx p = MInvalid d ->
  handle_rpc_method cfg name p ctx = (HErr (invalid_params d), []).
Proof. exact invalid_params_not_run. Qed.
(* a protocol error raised by the method is the error answered, field for field *)
Theorem C03_protocol_error_verbatim : forall cfg name p ctx m args e,
  get name (c_registry cfg) = Some m -> m ctx p = MRan args (ORpc e) ->
  handle_rpc_method cfg name p ctx = (HErr e, [EvCall name args]).
Proof. exact protocol_error_verbatim. Qed.
(* ... and its wire form keeps data iff set: absent stays absent, null stays null *)
Theorem C03_error_wire : forall e,
  exists kvs, err_to_json e = JObj kvs
  /\ get "code" kvs = Some (JInt (e_code e)) /\ get "message" kvs = Some (JStr (e_msg e))
  /\ get "data" kvs = e_data e.
Proof. exact err_wire. Qed.
(* any other exception: the answer is the constant -32000 error without data; the exception (tag t) does not occur in it *)
Theorem C03_foreign_exception_opaque : forall cfg name p ctx m args t,
  get name (c_registry cfg) = Some m -> m ctx p = MRan args (OExc t) ->
  handle_rpc_method cfg name p ctx = (HErr server_error, [EvCall name args]).
Proof. exact foreign_exception_opaque. Qed.
(* the complete verdict table of the innermost handler *)
Theorem C03_verdict : forall cfg r ctx, c_ehs cfg = [] ->
  fst (handle_request cfg r ctx) =
  match r_id r with
  | None => None
  | Some _ =>
      Some match get (r_method r) (c_registry cfg) with
           | None => RError (r_id r) method_not_found
           | Some m => match m ctx (r_params r) with
                       | MInvalid d => RError (r_id r) (invalid_params d)
                       | MInternal => RError (r_id r) internal_error
                       | MCallFail => RError (r_id r) server_error
                       | MRan _ (ORet v) => RResult (r_id r) v
                       | MRan _ (ORpc e) => RError (r_id r) e
                       | MRan _ (OExc _) => RError (r_id r) server_error
                       end
           end
  end.
Proof. exact handle_request_verdict. Qed.

Example C03_ex_null_vs_absent :
  err_to_json {| e_code := 0; e_msg := ""; e_data := Some JNull; e_class := "JsonRpcError" |}
  <> err_to_json {| e_code := 0; e_msg := ""; e_data := None; e_class := "JsonRpcError" |}.
Proof. vm_compute. discriminate. Qed.
