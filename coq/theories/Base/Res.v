(* Exceptions are values.  Every modelled function that can raise returns [res A]. *)
From Coq Require Import ZArith List String Bool.
Import ListNotations.

Inductive exn :=
| XDeser        (* pjrpc.exceptions.DeserializationError (a BaseError and a ValueError) *)
| XIdentity     (* pjrpc.exceptions.IdentityError *)
| XAssert       (* AssertionError *)
| XAttr         (* AttributeError *)
| XType         (* TypeError *)
| XValue        (* ValueError (other than the two above) *)
| XKey          (* KeyError *)
| XBaseErr      (* pjrpc.exceptions.BaseError raised directly *)
| XValidation   (* pjrpc.server.validators.ValidationError *)
| XOther (n : nat)   (* anything else, tagged by the harness *).

Definition exn_eqb (a b : exn) : bool :=
  match a, b with
  | XDeser, XDeser | XIdentity, XIdentity | XAssert, XAssert | XAttr, XAttr | XType, XType
  | XValue, XValue | XKey, XKey | XBaseErr, XBaseErr | XValidation, XValidation => true
  | XOther n, XOther m => Nat.eqb n m
  | _, _ => false end.

Inductive res (A : Type) := Ok (a : A) | Raise (x : exn).
Arguments Ok {A}. Arguments Raise {A}.
Definition bind {A B} (m : res A) (f : A -> res B) : res B :=
  match m with Ok a => f a | Raise x => Raise x end.
Notation "'do' x <- m ; k" := (bind m (fun x => k)) (at level 200, x name, m at level 100, k at level 200).

Definition res_eqb {A} (eqb : A -> A -> bool) (a b : res A) : bool :=
  match a, b with Ok x, Ok y => eqb x y | Raise x, Raise y => exn_eqb x y | _, _ => false end.

Fixpoint mapM {A B} (f : A -> res B) (l : list A) : res (list B) :=
  match l with
  | [] => Ok []
  | x :: r => do y <- f x ; do ys <- mapM f r ; Ok (y :: ys)
  end.

Fixpoint cat_some {A} (l : list (option A)) : list A :=
  match l with [] => [] | Some x :: r => x :: cat_some r | None :: r => cat_some r end.

(* verdict codes returned by every Corr.run, one nat per case:
   bit0 (1) model <> implementation     bit1 (2) property predicate false on the impl observation
   bit2 (4) case is non-trivial         bits 3.. (8*k) known-finding class k matched *)
Definition verdict (mismatch propfail nontrivial : bool) (known : nat) : nat :=
  (if mismatch then 1 else 0) + (if propfail then 2 else 0) + (if nontrivial then 4 else 0) + 8 * known.
