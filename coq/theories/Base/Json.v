(* JSON values as pjrpc sees them after json.loads: Python ints are unbounded (Z), bool is a
   separate constructor (the model says explicitly where Python treats a bool as an int),
   floats are opaque repr tokens, strings are byte strings holding UTF-8, objects are
   association lists with Python dict semantics (first match = the only match: the term
   printer never emits duplicate keys, and [set] keeps keys unique). *)
From Coq Require Import ZArith List String Ascii Bool.
Import ListNotations.
Open Scope string_scope.

Inductive json :=
| JNull | JBool (b : bool) | JInt (z : Z) | JFloat (tok : string)
| JStr (s : string) | JArr (l : list json) | JObj (kvs : list (string * json)).

Section Ind.
  Variable P : json -> Prop.
  Hypothesis Hnull : P JNull.
  Hypothesis Hbool : forall b, P (JBool b).
  Hypothesis Hint : forall z, P (JInt z).
  Hypothesis Hfloat : forall t, P (JFloat t).
  Hypothesis Hstr : forall s, P (JStr s).
  Hypothesis Harr : forall l, Forall P l -> P (JArr l).
  Hypothesis Hobj : forall kvs, Forall (fun kv => P (snd kv)) kvs -> P (JObj kvs).
  Fixpoint json_ind' (j : json) : P j :=
    match j with
    | JNull => Hnull | JBool b => Hbool b | JInt z => Hint z | JFloat t => Hfloat t | JStr s => Hstr s
    | JArr l => Harr l ((fix go (l : list json) : Forall P l :=
         match l with [] => Forall_nil _ | x :: xs => Forall_cons _ (json_ind' x) (go xs) end) l)
    | JObj kvs => Hobj kvs ((fix go (l : list (string*json)) : Forall (fun kv => P (snd kv)) l :=
         match l with [] => Forall_nil _ | (k,v) :: xs => Forall_cons (k,v) (json_ind' v) (go xs) end) kvs)
    end.
End Ind.

Fixpoint json_eqb (a b : json) {struct a} : bool :=
  match a, b with
  | JNull, JNull => true
  | JBool x, JBool y => Bool.eqb x y
  | JInt x, JInt y => Z.eqb x y
  | JFloat x, JFloat y => String.eqb x y
  | JStr x, JStr y => String.eqb x y
  | JArr x, JArr y =>
      (fix go (x y : list json) : bool :=
         match x, y with [], [] => true | a :: x', b :: y' => json_eqb a b && go x' y' | _, _ => false end) x y
  | JObj x, JObj y =>
      (fix go (x y : list (string*json)) : bool :=
         match x, y with [], [] => true
         | (k,a) :: x', (k',b) :: y' => String.eqb k k' && json_eqb a b && go x' y' | _, _ => false end) x y
  | _, _ => false
  end.

(* generic list equality from an element equality *)
Fixpoint list_eqb {A} (eqb : A -> A -> bool) (x y : list A) : bool :=
  match x, y with [], [] => true | a :: x', b :: y' => eqb a b && list_eqb eqb x' y' | _, _ => false end.
Definition option_eqb {A} (eqb : A -> A -> bool) (x y : option A) : bool :=
  match x, y with None, None => true | Some a, Some b => eqb a b | _, _ => false end.

(* dict operations *)
Fixpoint get {V} (k : string) (kvs : list (string * V)) : option V :=
  match kvs with [] => None | (k',v) :: r => if String.eqb k k' then Some v else get k r end.
Definition has {V} (k : string) (kvs : list (string * V)) : bool :=
  match get k kvs with Some _ => true | None => false end.
(* d[k] = v : replaces in place when present (keeps position), appends otherwise *)
Fixpoint set {V} (k : string) (v : V) (kvs : list (string * V)) : list (string * V) :=
  match kvs with
  | [] => [(k, v)]
  | (k',v') :: r => if String.eqb k k' then (k, v) :: r else (k',v') :: set k v r
  end.
Fixpoint remove_key {V} (k : string) (kvs : list (string * V)) : list (string * V) :=
  match kvs with [] => [] | (k',v') :: r => if String.eqb k k' then r else (k',v') :: remove_key k r end.
Definition keys {V} (kvs : list (string * V)) : list string := map fst kvs.
Definition mem_str (s : string) (l : list string) : bool := existsb (String.eqb s) l.

(* Python truthiness of a JSON value *)
Definition truthy (j : json) : bool :=
  match j with
  | JNull => false | JBool b => b | JInt z => negb (Z.eqb z 0)
  | JFloat t => negb (String.eqb t "0.0" || String.eqb t "-0.0")
  | JStr s => negb (String.eqb s "")
  | JArr l => match l with [] => false | _ => true end
  | JObj l => match l with [] => false | _ => true end
  end.

(* byte-list spelling of strings, used by the term printer for non-printable payloads *)
Definition bs (l : list nat) : string := fold_right (fun n s => String (ascii_of_nat n) s) EmptyString l.

(* canonical form for comparison: object keys sorted (insertion sort, stable) *)
Fixpoint ins_kv {V} (k : string) (v : V) (l : list (string * V)) : list (string * V) :=
  match l with
  | [] => [(k, v)]
  | (k', v') :: r => if String.leb k k' then (k, v) :: l else (k', v') :: ins_kv k v r
  end.
Definition sort_kvs {V} (l : list (string * V)) : list (string * V) :=
  fold_right (fun kv acc => ins_kv (fst kv) (snd kv) acc) [] l.
Fixpoint canon (j : json) : json :=
  match j with
  | JArr l => JArr (map canon l)
  | JObj kvs => JObj (sort_kvs (map (fun kv => (fst kv, canon (snd kv))) kvs))
  | _ => j
  end.
Definition json_equiv (a b : json) : bool := json_eqb (canon a) (canon b).

(* substring test, used by the no-leak checks *)
Fixpoint is_prefix (p s : string) : bool :=
  match p, s with
  | EmptyString, _ => true
  | String a p', String b s' => Ascii.eqb a b && is_prefix p' s'
  | _, _ => false end.
Fixpoint contains (needle s : string) : bool :=
  is_prefix needle s || match s with EmptyString => false | String _ s' => contains needle s' end.
Fixpoint json_mentions (needle : string) (j : json) : bool :=
  match j with
  | JStr s | JFloat s => contains needle s
  | JArr l => existsb (json_mentions needle) l
  | JObj kvs => existsb (fun kv => contains needle (fst kv) || json_mentions needle (snd kv)) kvs
  | _ => false end.

(* used by the term printer for very long integer literals (Horner form over 200-digit chunks) *)
Definition pow10_200 : Z := Z.pow 10 200.
