theories/Base/Json.vo theories/Base/Json.glob theories/Base/Json.v.beautified theories/Base/Json.required_vo: theories/Base/Json.v 
theories/Base/Json.vio: theories/Base/Json.v 
theories/Base/Json.vos theories/Base/Json.vok theories/Base/Json.required_vos: theories/Base/Json.v 
theories/Base/Res.vo theories/Base/Res.glob theories/Base/Res.v.beautified theories/Base/Res.required_vo: theories/Base/Res.v 
theories/Base/Res.vio: theories/Base/Res.v 
theories/Base/Res.vos theories/Base/Res.vok theories/Base/Res.required_vos: theories/Base/Res.v 
theories/Corr/C01.vo theories/Corr/C01.glob theories/Corr/C01.v.beautified theories/Corr/C01.required_vo: theories/Corr/C01.v theories/Base/Json.vo theories/Base/Res.vo theories/Model/Msg.vo theories/Model/Bind.vo theories/Model/Dispatch.vo theories/Corr/DispCommon.vo
theories/Corr/C01.vio: theories/Corr/C01.v theories/Base/Json.vio theories/Base/Res.vio theories/Model/Msg.vio theories/Model/Bind.vio theories/Model/Dispatch.vio theories/Corr/DispCommon.vio
theories/Corr/C01.vos theories/Corr/C01.vok theories/Corr/C01.required_vos: theories/Corr/C01.v theories/Base/Json.vos theories/Base/Res.vos theories/Model/Msg.vos theories/Model/Bind.vos theories/Model/Dispatch.vos theories/Corr/DispCommon.vos
theories/Corr/C05.vo theories/Corr/C05.glob theories/Corr/C05.v.beautified theories/Corr/C05.required_vo: theories/Corr/C05.v theories/Base/Json.vo theories/Base/Res.vo theories/Model/Msg.vo theories/Generated/Consts.vo theories/Corr/C06.vo
theories/Corr/C05.vio: theories/Corr/C05.v theories/Base/Json.vio theories/Base/Res.vio theories/Model/Msg.vio theories/Generated/Consts.vio theories/Corr/C06.vio
theories/Corr/C05.vos theories/Corr/C05.vok theories/Corr/C05.required_vos: theories/Corr/C05.v theories/Base/Json.vos theories/Base/Res.vos theories/Model/Msg.vos theories/Generated/Consts.vos theories/Corr/C06.vos
theories/Corr/C06.vo theories/Corr/C06.glob theories/Corr/C06.v.beautified theories/Corr/C06.required_vo: theories/Corr/C06.v theories/Base/Json.vo theories/Base/Res.vo theories/Model/Msg.vo theories/Generated/Consts.vo
theories/Corr/C06.vio: theories/Corr/C06.v theories/Base/Json.vio theories/Base/Res.vio theories/Model/Msg.vio theories/Generated/Consts.vio
theories/Corr/C06.vos theories/Corr/C06.vok theories/Corr/C06.required_vos: theories/Corr/C06.v theories/Base/Json.vos theories/Base/Res.vos theories/Model/Msg.vos theories/Generated/Consts.vos
theories/Corr/DispCommon.vo theories/Corr/DispCommon.glob theories/Corr/DispCommon.v.beautified theories/Corr/DispCommon.required_vo: theories/Corr/DispCommon.v theories/Base/Json.vo theories/Base/Res.vo theories/Model/Msg.vo theories/Model/Bind.vo theories/Model/Dispatch.vo theories/Generated/Consts.vo
theories/Corr/DispCommon.vio: theories/Corr/DispCommon.v theories/Base/Json.vio theories/Base/Res.vio theories/Model/Msg.vio theories/Model/Bind.vio theories/Model/Dispatch.vio theories/Generated/Consts.vio
theories/Corr/DispCommon.vos theories/Corr/DispCommon.vok theories/Corr/DispCommon.required_vos: theories/Corr/DispCommon.v theories/Base/Json.vos theories/Base/Res.vos theories/Model/Msg.vos theories/Model/Bind.vos theories/Model/Dispatch.vos theories/Generated/Consts.vos
theories/Generated/Consts.vo theories/Generated/Consts.glob theories/Generated/Consts.v.beautified theories/Generated/Consts.required_vo: theories/Generated/Consts.v theories/Base/Json.vo
theories/Generated/Consts.vio: theories/Generated/Consts.v theories/Base/Json.vio
theories/Generated/Consts.vos theories/Generated/Consts.vok theories/Generated/Consts.required_vos: theories/Generated/Consts.v theories/Base/Json.vos
theories/Lemmas/ConstsSpec.vo theories/Lemmas/ConstsSpec.glob theories/Lemmas/ConstsSpec.v.beautified theories/Lemmas/ConstsSpec.required_vo: theories/Lemmas/ConstsSpec.v theories/Base/Json.vo theories/Base/Res.vo theories/Model/Msg.vo theories/Generated/Consts.vo
theories/Lemmas/ConstsSpec.vio: theories/Lemmas/ConstsSpec.v theories/Base/Json.vio theories/Base/Res.vio theories/Model/Msg.vio theories/Generated/Consts.vio
theories/Lemmas/ConstsSpec.vos theories/Lemmas/ConstsSpec.vok theories/Lemmas/ConstsSpec.required_vos: theories/Lemmas/ConstsSpec.v theories/Base/Json.vos theories/Base/Res.vos theories/Model/Msg.vos theories/Generated/Consts.vos
theories/Lemmas/MsgL.vo theories/Lemmas/MsgL.glob theories/Lemmas/MsgL.v.beautified theories/Lemmas/MsgL.required_vo: theories/Lemmas/MsgL.v theories/Base/Json.vo theories/Base/Res.vo theories/Model/Msg.vo theories/Lemmas/Tactics.vo
theories/Lemmas/MsgL.vio: theories/Lemmas/MsgL.v theories/Base/Json.vio theories/Base/Res.vio theories/Model/Msg.vio theories/Lemmas/Tactics.vio
theories/Lemmas/MsgL.vos theories/Lemmas/MsgL.vok theories/Lemmas/MsgL.required_vos: theories/Lemmas/MsgL.v theories/Base/Json.vos theories/Base/Res.vos theories/Model/Msg.vos theories/Lemmas/Tactics.vos
theories/Lemmas/Tactics.vo theories/Lemmas/Tactics.glob theories/Lemmas/Tactics.v.beautified theories/Lemmas/Tactics.required_vo: theories/Lemmas/Tactics.v theories/Base/Json.vo theories/Base/Res.vo
theories/Lemmas/Tactics.vio: theories/Lemmas/Tactics.v theories/Base/Json.vio theories/Base/Res.vio
theories/Lemmas/Tactics.vos theories/Lemmas/Tactics.vok theories/Lemmas/Tactics.required_vos: theories/Lemmas/Tactics.v theories/Base/Json.vos theories/Base/Res.vos
theories/Model/Bind.vo theories/Model/Bind.glob theories/Model/Bind.v.beautified theories/Model/Bind.required_vo: theories/Model/Bind.v theories/Base/Json.vo theories/Base/Res.vo
theories/Model/Bind.vio: theories/Model/Bind.v theories/Base/Json.vio theories/Base/Res.vio
theories/Model/Bind.vos theories/Model/Bind.vok theories/Model/Bind.required_vos: theories/Model/Bind.v theories/Base/Json.vos theories/Base/Res.vos
theories/Model/Dispatch.vo theories/Model/Dispatch.glob theories/Model/Dispatch.v.beautified theories/Model/Dispatch.required_vo: theories/Model/Dispatch.v theories/Base/Json.vo theories/Base/Res.vo theories/Model/Msg.vo theories/Model/Bind.vo theories/Generated/Consts.vo
theories/Model/Dispatch.vio: theories/Model/Dispatch.v theories/Base/Json.vio theories/Base/Res.vio theories/Model/Msg.vio theories/Model/Bind.vio theories/Generated/Consts.vio
theories/Model/Dispatch.vos theories/Model/Dispatch.vok theories/Model/Dispatch.required_vos: theories/Model/Dispatch.v theories/Base/Json.vos theories/Base/Res.vos theories/Model/Msg.vos theories/Model/Bind.vos theories/Generated/Consts.vos
theories/Model/Msg.vo theories/Model/Msg.glob theories/Model/Msg.v.beautified theories/Model/Msg.required_vo: theories/Model/Msg.v theories/Base/Json.vo theories/Base/Res.vo
theories/Model/Msg.vio: theories/Model/Msg.v theories/Base/Json.vio theories/Base/Res.vio
theories/Model/Msg.vos theories/Model/Msg.vok theories/Model/Msg.required_vos: theories/Model/Msg.v theories/Base/Json.vos theories/Base/Res.vos
theories/Props/C01.vo theories/Props/C01.glob theories/Props/C01.v.beautified theories/Props/C01.required_vo: theories/Props/C01.v theories/Model/Dispatch.vo
theories/Props/C01.vio: theories/Props/C01.v theories/Model/Dispatch.vio
theories/Props/C01.vos theories/Props/C01.vok theories/Props/C01.required_vos: theories/Props/C01.v theories/Model/Dispatch.vos
theories/Props/C05.vo theories/Props/C05.glob theories/Props/C05.v.beautified theories/Props/C05.required_vo: theories/Props/C05.v theories/Base/Json.vo theories/Base/Res.vo theories/Model/Msg.vo theories/Generated/Consts.vo theories/Lemmas/MsgL.vo theories/Lemmas/ConstsSpec.vo
theories/Props/C05.vio: theories/Props/C05.v theories/Base/Json.vio theories/Base/Res.vio theories/Model/Msg.vio theories/Generated/Consts.vio theories/Lemmas/MsgL.vio theories/Lemmas/ConstsSpec.vio
theories/Props/C05.vos theories/Props/C05.vok theories/Props/C05.required_vos: theories/Props/C05.v theories/Base/Json.vos theories/Base/Res.vos theories/Model/Msg.vos theories/Generated/Consts.vos theories/Lemmas/MsgL.vos theories/Lemmas/ConstsSpec.vos
theories/Props/C06.vo theories/Props/C06.glob theories/Props/C06.v.beautified theories/Props/C06.required_vo: theories/Props/C06.v theories/Base/Json.vo theories/Base/Res.vo theories/Model/Msg.vo theories/Lemmas/MsgL.vo
theories/Props/C06.vio: theories/Props/C06.v theories/Base/Json.vio theories/Base/Res.vio theories/Model/Msg.vio theories/Lemmas/MsgL.vio
theories/Props/C06.vos theories/Props/C06.vok theories/Props/C06.required_vos: theories/Props/C06.v theories/Base/Json.vos theories/Base/Res.vos theories/Model/Msg.vos theories/Lemmas/MsgL.vos
