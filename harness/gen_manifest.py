"""Writes /verif/MANIFEST.json from the table below (kept valid at all times)."""
import json
import os

VERIF = os.path.dirname(os.path.dirname(os.path.abspath(__file__)))
ALL = ['C%02d' % i for i in range(1, 21)]

DISP_NOTE = ('trusted: Coq kernel + vm_compute; hand-written model of dispatcher.py/v20.py validated only on the generated inputs; '
             'json loader verdict, CPython call binding (Model/Bind.v) and user code (methods, middlewares, handlers) enter as '
             'oracle data / parameters; library-generated message texts are abstracted to "<text>"; event-loop scheduling is C10.')

CLAIMED = {
    'C01': dict(
        text='Theorems about the Gallina model of Dispatcher/AsyncDispatcher.dispatch: for every configuration, every loader verdict '
             'inside the loader contract (hence every request text) and every context, dispatch returns (never raises) provided user '
             'middlewares keep the id discipline, and whatever document it returns satisfies an independently written JSON-RPC 2.0 '
             'response grammar (non-empty array or object, id string/integer/null, exactly one of result/error) with the codes tuple '
             'equal to the codes of the document. Correspondence: member-alphabet products, batches, non-JSON, huge integer literals, '
             'nesting, both dispatchers, max_batch_size around the length.',
        note=DISP_NOTE, technique='Coq proof (totality + well-formedness of dispatch, induction over batch lists) + correspondence by vm_compute',
        design='6 C01'),
    'C02': dict(
        text='Theorems: a call is answered by one response with the identical (typed) id, a notification by nothing on every path; an '
             'accepted batch of ANY length equals the in-order collection of what its elements get alone (document, codes, execution log); '
             'a rejected batch executes nothing; one execution per bound element and no other. Correspondence is relational: every '
             'batch is also dispatched element by element on fresh dispatchers and the Coq predicate compares the two.',
        note=DISP_NOTE, technique='Coq proof (batch = map over elements by induction; exactly-once log lemma) + relational correspondence by vm_compute',
        design='6 C02'),
    'C03': dict(
        text='Theorems: the complete verdict table of the model (non-JSON -> -32700 id null, invalid request / batch -> -32600 id null '
             'with empty log, unknown method -> -32601, bind/validation failure -> -32602 without a call event, protocol error -> the '
             'same error field for field with data kept iff set, any other exception -> the constant -32000 error in which the exception '
             'does not occur), with the codes re-proved against the constants regenerated from the live tree. Correspondence: every '
             'failure kind as call / notification / at each batch position with marker strings searched for in the response.',
        note=DISP_NOTE, technique='Coq proof (verdict lemmas over the dispatcher model, constants regenerated from source) + correspondence by vm_compute',
        design='6 C03'),
    'C07': dict(
        text='Theorems about the composition client-model o wire round trip (C05) o dispatcher-model (C01-C03) o client receive path: '
             'client.call returns exactly what the registered function returns and raises the function\'s protocol error with the same '
             'code/message/data as the class registered for the code (foreign exceptions as -32000); notifications return and raise nothing '
             'and run the method once; a batch of ANY length in any notation yields the aligned responses of its calls in call order (nothing '
             'for an all-notification batch) with the concatenated per-element server log; ids on the wire are pairwise distinct for every '
             'generator (else building raises); the batch notations produce identical wire documents. Correspondence: a real client connected '
             'to a real dispatcher by a loop-back transport, all notations x sync/async on both sides x generators x strict.',
        note='trusted: Coq kernel + vm_compute; hand-written models of client.py / dispatcher.py validated on generated inputs only; the JSON text '
             'codec between the halves is an oracle (identity on JSON values, exercised on every case); known finding F7 (uuid generator) '
             'suppresses exactly the failures of calls made with the uuid generator.',
        technique='Coq proof (composition of the client, wire and dispatcher models; aligned-responses induction over batches) + loop-back correspondence by vm_compute',
        design='6 C07'),
    'C08': dict(
        text='Theorems about the model of BaseAbstractClient._relate / BaseBatch._relate / BatchResponse.from_json: strict mode rejects a '
             'single response with a differing non-null (typed) id; a batch is accepted iff its non-null response ids are exactly the call '
             'ids (missing / extra -> IdentityError; repeated ids and malformed bodies are refused at deserialisation); when accepted, for '
             'EVERY permutation of the server array the responses of the calls come back in the order the calls were made, each with its '
             'call\'s id, null-id responses after them, the multiset unchanged; server errors and batch-level errors are raised. '
             'Correspondence: every permutation / omission / duplication / addition / type confusion for batches of <= 3 (4) calls.',
        note='trusted: Coq kernel + vm_compute; hand-written model of client.py validated on generated inputs only; scripted transport.',
        technique='Coq proof (Permutation-based reasoning about the id->response map, induction over the request list) + correspondence by vm_compute',
        design='6 C08'),
    'C09': dict(
        text='Theorems about the model of retry()/retry_async() and the backoff generators, for outcome scripts and strategies of ANY '
             'length: sends <= attempts+1; the number of sends is one more than the number of leading retryable outcomes capped by the '
             'attempts (listed code on a response or batch-level error; listed exception class or subclass); the caller gets the last '
             'attempt\'s outcome object unchanged; the pauses are exactly the first sends-1 delays; closed forms of the three generators '
             'proved for every index (periodic interval+j, exponential min?(cap, base*factor^k+j), Fibonacci min?(cap, mult*fib(k+2)+j) by '
             'an invariant on the (prev,cur) state); unlisted outcomes, successes and notifications return at once; per-request strategy '
             'overrides, None disables. Correspondence: exhaustive outcome scripts with patched sleeps compared as exact rationals.',
        note='trusted: Coq kernel + vm_compute; hand-written model of retry.py and the retried wrapper validated on generated inputs only; IEEE-754 '
             'arithmetic is exact on the dyadic parameters used (delays are compared as Fraction(float) with the model rationals); the issubclass '
             'table of the harness exception classes is transcribed in Model/Retry.v.',
        technique='Coq proof (induction over the outcome script; generator-state invariant for Fibonacci) + correspondence by vm_compute over exact rationals',
        design='6 C09'),
    'C10': dict(
        text='Theorems about a generic model of asyncio.gather over element coroutines (sequences of atomic segments; a schedule is ANY list '
             'of element indices, an over-approximation of the event loop), for any number of elements and suspension points: the gathered '
             'results are in request order and each element\'s own under every schedule; at every moment what an element has emitted followed '
             'by what it has left is its own sequential trace, so once all finished every method ran exactly once; the sequential driver '
             '(concurrent_batch=False) runs each element to completion before the next, in request order; the response array equals the one '
             'the synchronous dispatcher model collects. Correspondence: the real AsyncDispatcher under a controlled scheduler, all '
             'interleavings of the resolution order, suspension in methods / middlewares / error handlers, each element also run alone.',
        note='trusted: Coq kernel + vm_compute; asyncio semantics (resolving a Future resumes exactly its awaiter up to the next suspension) '
             'and the absence of shared mutable state between element handlers are validated only on the enumerated small schedules; OS threads '
             'and multiple event loops are not modelled.',
        technique='Coq proof (induction over schedules: results/trace conservation; sequential driver) + exhaustive small-schedule correspondence by vm_compute',
        design='6 C10'),
    'C11': dict(
        text='The client halves, retry loops and tracing wrappers are each ONE Gallina definition serving both kinds, so every C07-C09/C19 theorem '
             'holds for both; for the dispatcher the places where the two texts differ are modelled separately and proved to agree: the '
             'isinstance filter and the truthiness filter keep the same responses (against truthiness facts regenerated from the live classes), '
             'the gather / sequential-await driver under any schedule assembles what the generator does, and the awaited-if-coroutine call '
             'serves plain functions with the same outcome. Correspondence is paired: both real halves are driven on every case of the '
             'C01-C03, C12 (dispatchers) and C07-C09, C19 (clients) corpora, each compared with the single model and with each other.',
        note='trusted: Coq kernel + vm_compute; the trusted bases of the underlying properties; that the twin texts differ only by async/await and '
             'the sleep primitive is checked syntactically for retry/retry_async on every run (Consts.retry_twins_textually_equal) and otherwise '
             'rests on the paired correspondence.',
        technique='Coq proof (filter / driver agreement lemmas over the shared model) + paired sync/async correspondence by vm_compute',
        design='6 C11'),
    'C12': dict(
        text='Theorems for stacks of ANY height: with no short-circuit the trace is Enter 0..k-1, inner handler on the fully rewritten '
             'request, Exit k-1..0 and the chain returns what the outermost returns; a short-circuiting middleware makes the outcome '
             'independent of everything below it; error handlers are a left fold over generic ++ per-code(raised code) with each input '
             'logged; no handler event on success or for rejected documents; batch elements each pass the chain once in request order. '
             'Correspondence: instrumented middleware/handler stacks, every request kind, batches compared element-wise.',
        note=DISP_NOTE, technique='Coq proof (induction over the middleware stack / handler list) + correspondence by vm_compute',
        design='6 C12'),
    'C04': dict(
        text='Theorem (Coq, closed): on every signature of positional-or-keyword / keyword-only parameters of ANY length, for every '
             'context mode and every positional list or mapping, pjrpc\'s path (Signature.bind on the context-free signature + '
             'functools.partial with keywords + context) runs the body with exactly the environment CPython\'s own call binding '
             'produces and answers "invalid params" without running it exactly when a direct call cannot bind; the context parameter '
             'always holds the server-side context and cannot be named or positionally reached by the client. The full statement over '
             'variadic / positional-only signatures is proved FALSE of the faithful model (C04_bind_agrees_refuted = known finding F5). '
             'Correspondence: the call-binding model against the real interpreter, and dispatch of every input to generated methods '
             '(function / coroutine / view, context by name / positional / view constructor, truthy and falsy contexts, twin '
             'registrations of one function).',
        note='trusted: Coq kernel + vm_compute; Model/Bind.v transcribes CPython call binding and inspect.Signature.bind (both validated '
             'on every run against the interpreter / the library on the enumerated inputs only); known finding F5 suppresses exactly the '
             'failures whose signature has a variadic or positional-only parameter.',
        technique='Coq proof (induction over signatures and argument lists: Signature.bind + partial(**kw) = direct call) + correspondence by vm_compute',
        design='6 C04'),
    'C05': dict(
        text='Theorems about the Gallina model of to_json/from_json for requests, responses, errors and batches of ANY length and '
             'payload: from_json(to_json m) returns m up to the normalisation the wire form forces (the spellings of "no parameters"; '
             'the error class recomputed from the code), serialising again gives the identical document, and the wire form is '
             'characterised member by member (jsonrpc "2.0", id iff call, params iff non-empty, exactly one of result/error, null vs '
             'absent). Correspondence: constructor-built messages pushed through the real json codec and the library encoder.',
        note='trusted: Coq kernel + vm_compute; hand-written model (validated on generated inputs only); json.dumps/json.loads as an '
             'oracle exercised on every case; floats as opaque repr tokens; the empty BatchRequest is excluded (C06 refuses it).',
        technique='Coq proof (round-trip and wire-exactness lemmas, induction over batch lists) + correspondence by vm_compute',
        design='6 C05'),
    'C06': dict(
        text='Theorems (Coq 8.16.1, closed under the global context) about a Gallina model of the five deserialisers and the '
             'batch mutators: for EVERY JSON value only DeserializationError (IdentityError for duplicate batch ids) escapes, '
             'acceptance is equivalent to an independently written grammar, and every append/extend history keeps the id-set '
             'invariant with failed operations leaving the batch unchanged. The model is tied to the code by a correspondence '
             'run over the full member-alphabet products (19k cases in the thorough tier) evaluated inside Coq.',
        note='trusted: Coq kernel + vm_compute; the hand-written model of v20.py/exceptions.py (validated only on the generated '
             'inputs); term printer; JSON values typed as json.loads produces them.',
        technique='Coq proof (structural induction over json / operation histories) + model-vs-implementation correspondence by vm_compute',
        design='6 C06'),
    'C19': dict(
        text='Theorems about the model of the traced wrapper composed under the retry loop (retried(traced(_send))), for any number of '
             'tracers and attempts: every attempt sent is traced; per attempt every tracer receives begin and then exactly one completion '
             '(end with the response, nothing for a notification; error with the raised exception, BaseException included) in configuration '
             'order with one context object (the caller\'s if supplied, else one fresh per attempt); begin count = completion count per tracer; '
             'tracing does not change the caller\'s outcome. Correspondence: outcome scripts incl. undecodable bodies, identity mismatches, '
             'KeyboardInterrupt and CancelledError with instrumented tracers recording context identity.',
        note='trusted: Coq kernel + vm_compute; hand-written model of the traced/retried wrappers validated on generated inputs only; instrumented Tracer subclasses.',
        technique='Coq proof (induction over the attempts sent) + correspondence by vm_compute',
        design='6 C19'),
    'C15': dict(
        text='Theorem (Coq, closed): for EVERY registration history - any number of add / add-with-name / add_methods(Method) / add_methods(function) / '
             'view / merge operations, registries merged into registries to any depth, any prefixes incl. empty ones - and every name n, the '
             'dict the model builds answers n exactly as the declarative reading does (explicit or own name preceded by the dot-joined non-empty '
             'prefixes of the registries and view it was added through; the last registration wins; anything else is absent), the registry is a '
             'dict (one method per name), views contribute exactly their public callables, and an unregistered name is answered -32601 without '
             'running anything. Correspondence: real registries / dispatchers built from generated histories, probed by dispatching requests.',
        note='trusted: Coq kernel + vm_compute; hand-written model of MethodRegistry validated on generated histories only; dir() ordering of class members.',
        technique='Coq proof (strong induction on the nesting of merged registries; dict/last-match lemmas) + correspondence by vm_compute',
        design='6 C15'),
    'C20': dict(
        text='Theorems about the model of PjRpcMocker as a state machine, for operation/call histories of ANY length: every reachable state '
             'satisfies "a patched endpoint has a patched method, a patched method has a patch, the tables are dicts" (failed replace/remove '
             'change nothing); a call is answered by the patch at the front of its queue, which goes to the back unless it is a once-patch, '
             'other methods untouched, the call recorded with its arguments; round robin in order of addition (after |a| calls the queue '
             'a++b has become b++a and the answers were a\'s in order); the reply carries the request id; unpatched method -> -32601, '
             'unpatched endpoint -> refused / passed through; batches are answered element-wise with the state threaded through. '
             'Correspondence: the real mocker patched onto minimal sync/async backends, judged by an independent FIFO bookkeeping.',
        note='trusted: Coq kernel + vm_compute; hand-written model of integrations/pytest.py validated on generated histories only; '
             'unittest.mock (patch/autospec, MagicMock call records).',
        technique='Coq proof (invariant preservation over operation histories; queue-rotation induction) + correspondence by vm_compute',
        design='6 C20'),
    'C13': dict(
        text='The dispatcher model has no state argument at all (dispatch is a function of configuration, request text and context); the library '
             'state that survives a dispatch is the memo tables, modelled as transparent unbounded memoisation. Theorems, for histories of ANY '
             'length: a lookup after any history returns the recomputed value, so parameter binding through the signature cache equals binding '
             'without it (every C01-C04 theorem holds after any history); the table holds at most one entry per distinct key ever asked for, '
             'hence at most one per registered (validator, function, exclusion) combination; the key is a function of the registration alone '
             '(no request, context or per-request view instance). Correspondence: probe-after-history vs probe-on-fresh-dispatcher (standard '
             'corpus also vs the stateless model; a rich configuration with twin registrations, parameterless methods, same-named pydantic '
             'functions, views), memo-table growth and weak references to contexts after N dispatches, thread pools.',
        note='PARTIAL by nature: garbage-collector reachability and OS-thread interleavings cannot be exhibited by a Gallina model; they are '
             'observed (weakrefs after gc.collect(), 2..16 threads) and reported as tests. trusted: Coq kernel + vm_compute; lru_cache as transparent '
             'memoisation; the set of memo tables was found by reading the source (a new cache elsewhere is only caught by the history/memory runs).',
        technique='Coq proof (memo-table transparency and boundedness by induction over histories) + history/memory/thread correspondence',
        design='6 C13'),
    'C17': dict(
        text='Theorems (Coq, closed) over signatures of positional-or-keyword / keyword-only parameters of ANY length: the parameters the schema '
             'extractor documents are exactly the signature minus the injected (context) parameter, i.e. exactly what the binder binds; required '
             '= without default; and a params object is accepted by binding IFF it names only documented parameters and all required ones - so '
             'a request following the published schema is never refused with -32602 by binding and one that omits a required or adds an unlisted '
             'name (the context parameter included) always is. Correspondence: OpenAPI 3.0/3.1 and OpenRPC documents are REALLY generated for every '
             'signature / context position / function, coroutine, view method, their properties and required lists read out, and every params '
             'object over subsets of (names + undocumented + context) dispatched. The same holds (theorems C17_names_general / '
             'C17_sound_and_complete_general) for ANY set of injected or excluded names, and the correspondence includes an exclusion predicate shared '
             'by validator and schema extractor over every non-empty subset of the defaulted parameters.',
        note='trusted: Coq kernel + vm_compute; the extractor filter and inspect.Signature.bind as transcribed (validated on the enumerated signatures); '
             'pydantic lists exactly the declared fields with required = no default (oracle, checked on every case); parameters are unannotated.',
        technique='Coq proof (bind succeeds iff keys within documented names and covering the required ones, induction over signatures) + correspondence on generated documents',
        design='6 C17'),
    'C18': dict(
        text='Theorems about the model of the three request gates and replies: with an accepted media type the reply is exactly the dispatcher\'s '
             'document, the JSON content type and the status chosen by the status-by-error function (200 and an empty body when the dispatcher '
             'returns nothing); any other media type (or none) is answered 415 without invoking the dispatcher, whatever the body; every '
             'documented request content type is accepted (against the regenerated constants), parameters after ";" and letter case do not '
             'matter (proved for ALL header strings); 200 by default; the same request gets the same reply from every integration. '
             'Correspondence: requests posted through the aiohttp / flask / werkzeug test clients, with the dispatcher verdict obtained '
             'independently from a plain Dispatcher.',
        note='PARTIAL: header parsing, body decoding and response construction are the frameworks\' (oracles whose contract is the media_type '
             'specification; exercised on structured header values only). trusted: Coq kernel + vm_compute; hand-written model of the three _rpc_handle '
             'functions validated on the generated requests only.',
        technique='Coq proof (string lemmas for the media-type specification; relay/refuse/uniformity of the gate model) + correspondence through framework test clients',
        design='6 C18'),
    'C14': dict(
        text='Theorems about the model of the two validators on top of the binding model: with the schema validator the body runs IFF the '
             'arguments bind and the bound-argument mapping satisfies the schema, with exactly the arguments an unvalidated call gets, '
             'otherwise "invalid params" without running; js_valid (the executable semantics of the type / enum / minimum / maximum / '
             'properties / required / additionalProperties / items fragment) means what the keywords say; the excluded (context) '
             'parameter is never part of what is validated and cannot be supplied; with the type validator every bound argument must be '
             'accepted, without coercion the arguments are unchanged, with coercion the body receives exactly the converted values. '
             'Exclusion predicate (exclude_param): under every validator the selected parameters are removed from what is bound and validated, '
             'naming one is -32602 without running, and (no context) the call is a direct call of the function the client sees with the excluded '
             'parameters at their own defaults (C14_predicate_*). '
             'Correspondence: end-to-end dispatch through validated methods; js_valid cross-checked against the jsonschema package and the '
             'pydantic verdicts taken from pydantic.TypeAdapter independently of pjrpc on every case.',
        note='PARTIAL: jsonschema\'s and pydantic\'s own semantics are oracles (jsonschema cross-checked on the fragment; pydantic conversions '
             'supplied per argument). trusted: Coq kernel + vm_compute; hand-written model validated on generated inputs only.',
        technique='Coq proof (validator = binding + conformance predicate; evaluator characterisation lemmas) + end-to-end correspondence with both oracles cross-checked',
        design='6 C14'),
    'C16': dict(
        text='Theorems about the model of the two document assemblers (relative to prefix-abstract oracle data for what the schema extractors '
             'return): with pairwise distinct keys every registered method is described exactly once, under its key, in registration order; '
             'the entry of a method is a function of its own annotations, the extractor output for it and the global configuration (errors, '
             'prefix, references of another method never occur in it); if the extractors only refer to components they return, every reference '
             'resolves; the lists a user passed to annotate() are returned untouched and repeating the generation yields the identical document. '
             'Correspondence: OpenAPI 3.0.3 / 3.1.0 and OpenRPC documents are really generated for random method sets, annotation combinations '
             '(incl. one errors list shared between methods), extractor stacks, endpoint prefixes and 1..3 repeated generations; keys, documented '
             'error codes per method, documented method names, documented parameter names against the function\'s own signature (pydantic-first stacks), reference closure, own-prefix of references, user-list snapshots and document '
             'digests are judged in Coq; JSON-encodability and meta-schema validity are tests run on every document.',
        note='PARTIAL, said plainly: pydantic\'s schema generator, docstring_parser and the three official meta-schemas are not modelled; validity and '
             'encodability are tests. Known finding F18 (OpenAPI 3.0.x documents use `const`) suppresses exactly the cases whose only failure is the '
             '3.0 meta-schema test; known finding F20 (two different functions exposed under one method name at two endpoints with the same '
             'component prefix overwrite each other\'s components) suppresses exactly the cases whose only failure is the parameter list of such colliding entries. OpenRPC documents describe the main endpoint only (interpretation recorded in DESIGN.md). trusted: Coq kernel + vm_compute.',
        technique='Coq proof (fold/dict lemmas over the assembler loop: completeness, isolation, closure, purity) + correspondence on really generated documents',
        design='6 C16'),
}

PENDING_REASON = 'not claimed yet: model, theorems and correspondence for this property are not all in place in this commit (see DESIGN.md section 10)'


def main():
    checks = []
    for pid in ALL:
        if pid not in CLAIMED:
            continue
        c = CLAIMED[pid]
        checks.append({
            'property_id': pid,
            'quick_cmd': './check %s --tier quick' % pid,
            'thorough_cmd': './check %s --tier thorough' % pid,
            'evidence_file': '/verif/evidence/%s.json' % pid,
            'replay_cmd_template': './check %s --replay {path}' % pid,
            'engine': 'coq-model-correspondence',
            'level_claimed': {'category': 'proof', 'text': c['text'], 'design_ref': 'DESIGN.md section ' + c['design']},
            'level_note': c['note'],
            'technique': c['technique'],
        })
    m = {
        'version': 1,
        'setup_cmd': './check build',
        'hooks': {
            'guard': 'none',
            'enable': 'no hooks: every observation point is reachable from outside (instrumented user code, loop-back transports, framework test clients)',
            'baseline_off_cmd': '/verif/harness/baseline.sh',
            'source_commits': [],
            'add_only': True,
        },
        'engines': [{
            'name': 'coq-model-correspondence', 'path': '/verif/check',
            'serves_properties': sorted(CLAIMED),
            'kind_free_text': 'Rocq/Coq 8.16.1 development under coq/theories (model, lemmas, property theorems) + Python harness that runs '
                              'pjrpc from /repo and evaluates the executable model on the same inputs with vm_compute',
        }],
        'checks': checks,
        'notes': 'exit codes: 0 pass, 1 VIOLATION, 2 machinery error. Fix commits in /repo are listed in known_findings.json as fixed entries.',
        'not_applicable': [{'property_id': p, 'reason': PENDING_REASON} for p in ALL if p not in CLAIMED],
    }
    with open(os.path.join(VERIF, 'MANIFEST.json'), 'w') as f:
        json.dump(m, f, indent=1)
    import jsonschema
    jsonschema.validate(m, json.load(open('/root/.vp/MANIFEST.schema.json')))
    print('MANIFEST.json written: %d checks' % len(checks))


if __name__ == '__main__':
    main()
