"""Writes /verif/MANIFEST.json from the table below (kept valid at all times)."""
import json
import os

VERIF = os.path.dirname(os.path.dirname(os.path.abspath(__file__)))
ALL = ['C%02d' % i for i in range(1, 21)]

CLAIMED = {
    'C05': dict(
        text='Theorems about the Gallina model of to_json/from_json for requests, responses, errors and batches of ANY length and '
             'payload: from_json(to_json m) returns m up to the normalisation the wire form forces (the spellings of "no parameters"; '
             'the error class recomputed from the code), serialising again gives the identical document, and the wire form is '
             'characterised member by member (jsonrpc "2.0", id iff call, params iff non-empty, exactly one of result/error, null vs '
             'absent). Correspondence: constructor-built messages pushed through the real json codec and the library encoder.',
        note='trusted: Coq kernel + vm_compute; hand-written model (validated on generated inputs only); json.dumps/json.loads as an '
             'oracle exercised on every case; floats as opaque repr tokens; the empty BatchRequest is excluded (C06 refuses it).',
        technique='Coq proof (round-trip and wire-exactness lemmas, induction over batch lists) + correspondence by vm_compute',
        design='6 C05'),
    'C06': dict(
        text='Theorems (Coq 8.16.1, closed under the global context) about a Gallina model of the five deserialisers and the '
             'batch mutators: for EVERY JSON value only DeserializationError (IdentityError for duplicate batch ids) escapes, '
             'acceptance is equivalent to an independently written grammar, and every append/extend history keeps the id-set '
             'invariant with failed operations leaving the batch unchanged. The model is tied to the code by a correspondence '
             'run over the full member-alphabet products (19k cases in the thorough tier) evaluated inside Coq.',
        note='trusted: Coq kernel + vm_compute; the hand-written model of v20.py/exceptions.py (validated only on the generated '
             'inputs); term printer; JSON values typed as json.loads produces them.',
        technique='Coq proof (structural induction over json / operation histories) + model-vs-implementation correspondence by vm_compute',
        design='6 C06'),
}

PENDING_REASON = 'not claimed yet: model, theorems and correspondence for this property are not all in place in this commit (see DESIGN.md section 10)'


def main():
    checks = []
    for pid in ALL:
        if pid not in CLAIMED:
            continue
        c = CLAIMED[pid]
        checks.append({
            'property_id': pid,
            'quick_cmd': './check %s --tier quick' % pid,
            'thorough_cmd': './check %s --tier thorough' % pid,
            'evidence_file': '/verif/evidence/%s.json' % pid,
            'replay_cmd_template': './check %s --replay {path}' % pid,
            'engine': 'coq-model-correspondence',
            'level_claimed': {'category': 'proof', 'text': c['text'], 'design_ref': 'DESIGN.md section ' + c['design']},
            'level_note': c['note'],
            'technique': c['technique'],
        })
    m = {
        'version': 1,
        'setup_cmd': './check build',
        'hooks': {
            'guard': 'none',
            'enable': 'no hooks: every observation point is reachable from outside (instrumented user code, loop-back transports, framework test clients)',
            'baseline_off_cmd': '/verif/harness/baseline.sh',
            'source_commits': [],
            'add_only': True,
        },
        'engines': [{
            'name': 'coq-model-correspondence', 'path': '/verif/check',
            'serves_properties': sorted(CLAIMED),
            'kind_free_text': 'Rocq/Coq 8.16.1 development under coq/theories (model, lemmas, property theorems) + Python harness that runs '
                              'pjrpc from /repo and evaluates the executable model on the same inputs with vm_compute',
        }],
        'checks': checks,
        'notes': 'exit codes: 0 pass, 1 VIOLATION, 2 machinery error. Fix commits in /repo are listed in known_findings.json as fixed entries.',
        'not_applicable': [{'property_id': p, 'reason': PENDING_REASON} for p in ALL if p not in CLAIMED],
    }
    with open(os.path.join(VERIF, 'MANIFEST.json'), 'w') as f:
        json.dump(m, f, indent=1)
    import jsonschema
    jsonschema.validate(m, json.load(open('/root/.vp/MANIFEST.schema.json')))
    print('MANIFEST.json written: %d checks' % len(checks))


if __name__ == '__main__':
    main()
