"""Scripted runs of a retrying / traced client (C09, C19, C11): outcome scripts, patched sleeps, instrumented
tracers; Gallina printers for Corr/RetryCommon.v."""
import asyncio
import json
import time
from fractions import Fraction
from types import SimpleNamespace
from unittest import mock

import pjrpc
from pjrpc.client import retry as retry_mod
from pjrpc.client.tracer import Tracer

from . import clientenv as ce
from .coqterm import clist, cZ, cbool, copt
from .dispenv import loop

RETRY_IMPORTS = 'From Coq Require Import QArith.\nFrom PJ Require Import Model.Retry Corr.RetryCommon.\n'


class SubConn(ConnectionError):
    pass


# class table shared with Model/Retry.v `subclass`
CLASSES = {0: ConnectionError, 1: SubConn, 2: TimeoutError, 3: ValueError, 4: KeyboardInterrupt, 5: asyncio.CancelledError,
           6: pjrpc.exceptions.DeserializationError, 7: pjrpc.exceptions.IdentityError, 8: json.JSONDecodeError,
           9: Exception, 10: OSError, 11: BaseException}


def class_id(e):
    for k in (1, 0, 2, 8, 6, 7, 3, 4, 5):
        if type(e) is CLASSES[k]:
            return k
    return 12      # an exception no scripted attempt can produce (AttributeError, exhausted transport script, ...)


JSTATES = []      # the scripted jitter sources of the strategy objects of the current observation


def backoff_obj(b, jitter_vals):
    state = {'k': 0}
    JSTATES.append(state)

    def jitter():
        k = state['k']
        state['k'] += 1
        return float(Fraction(jitter_vals[k])) if k < len(jitter_vals) else 0.0
    kind = b[0]
    if kind == 'periodic':
        return retry_mod.PeriodicBackoff(attempts=b[1], interval=float(Fraction(b[2])), jitter=jitter)
    if kind == 'exp':
        return retry_mod.ExponentialBackoff(attempts=b[1], base=float(Fraction(b[2])), factor=float(Fraction(b[3])),
                                            max_value=None if b[4] is None else float(Fraction(b[4])), jitter=jitter)
    return retry_mod.FibonacciBackoff(attempts=b[1], multiplier=float(Fraction(b[2])), max_value=None if b[3] is None else float(Fraction(b[3])), jitter=jitter)


def strategy_obj(s, jitter_vals):
    if s is None:
        return None
    return retry_mod.RetryStrategy(backoff=backoff_obj(s['backoff'], jitter_vals),
                                   codes=None if s['codes'] is None else set(s['codes']),
                                   exceptions=None if s['excs'] is None else {CLASSES[c] for c in s['excs']})


class RecTracer(Tracer):
    def __init__(self, idx, log):
        self.idx, self.log = idx, log

    def __len__(self):
        # a tracer that also is a (still empty) collection of what it recorded: falsy, and a tracer all the same
        if self.idx % 2:
            return 0
        raise TypeError('not sized')

    def __bool__(self):
        return self.idx % 2 == 0

    # tracers configured alike compare equal (value semantics, as a frozen dataclass would give them); they are distinct tracers
    def __eq__(self, other):
        return isinstance(other, RecTracer) and other.log is self.log

    def __hash__(self):
        return 19

    def on_request_begin(self, trace_context, request):
        self.log.append(('begin', self.idx, trace_context))

    def on_request_end(self, trace_context, request, response):
        self.log.append(('end', self.idx, trace_context, response))

    def on_error(self, trace_context, request, error):
        self.log.append(('error', self.idx, trace_context, error))


def step_of(att, req_kind, k):
    """att = [kind, arg]; returns the transport script step for attempt number k."""
    kind = att[0]
    if kind == 'ok':
        if req_kind == 'notification':
            return ('text', None)
        if req_kind == 'batch':
            return ('text', json.dumps([{'jsonrpc': '2.0', 'id': 1, 'result': k}]))
        return ('text', json.dumps({'jsonrpc': '2.0', 'id': 1, 'result': k}))
    if kind == 'code':
        err = {'code': att[1], 'message': 'm', 'data': k}
        if req_kind == 'batch':      # a batch-level error object
            return ('text', json.dumps({'jsonrpc': '2.0', 'id': None, 'error': err}))
        return ('text', json.dumps({'jsonrpc': '2.0', 'id': 1, 'error': err}))
    if kind == 'elemerr':            # a batch whose ELEMENT failed: the batch itself is not in error
        return ('text', json.dumps([{'jsonrpc': '2.0', 'id': 1, 'error': {'code': att[1], 'message': 'm', 'data': k}}]))
    if kind == 'exc':
        cls = CLASSES[att[1]]
        return ('raise', cls('T%d' % k) if cls is not json.JSONDecodeError else cls('T%d' % k, 'x', 0))
    if kind == 'nbody':
        # the server answers a NOTIFICATION with a body (an error with a listed code): a lenient client discards it
        return ('text', json.dumps({'jsonrpc': '2.0', 'id': None, 'error': {'code': att[1], 'message': 'm', 'data': k}}))
    if kind == 'garbage':
        return ('text', '{nope')
    if kind == 'badid':
        if req_kind == 'batch':          # an array answering an id nobody asked for: the strict client refuses it (IdentityError)
            return ('text', json.dumps([{'jsonrpc': '2.0', 'id': 999, 'result': k}]))
        return ('text', json.dumps({'jsonrpc': '2.0', 'id': 999, 'result': k}))
    if kind == 'invalid':
        return ('text', json.dumps({'jsonrpc': '2.0', 'id': 1}))
    raise ValueError(att)


def model_attempt(att, req_kind):
    """The akind the model is given for a scripted attempt."""
    kind = att[0]
    if kind == 'nbody':
        return ('none',)
    if kind == 'ok':
        return ('none',) if req_kind == 'notification' else ('resp', None)
    if kind == 'code':
        return ('resp', att[1])
    if kind == 'elemerr':
        return ('resp', None)
    if kind == 'exc':
        return ('exc', att[1])
    if kind == 'garbage':
        return ('exc', 8)
    if kind == 'badid':
        return ('exc', 7)
    return ('exc', 6)


def warm_attempts(case):
    """(how many failing attempts the warm-up request goes through, the listed outcome it fails with)."""
    st = case['per'] if isinstance(case['per'], dict) else (case['client'] if case['per'] == 'unset' else None)
    if not isinstance(st, dict):
        return 0, None
    if st.get('codes'):
        fail = ['code', sorted(st['codes'])[0]]
    elif st.get('excs'):
        fail = ['exc', sorted(st['excs'])[0]]
    else:
        return 0, None
    if case['req'] == 'notification':
        return 0, None
    return min(int(st['backoff'][1]), 4), fail


def observe(case):
    is_async = case['async']
    req_kind = case['req']
    del JSTATES[:]
    script = ce.Script([step_of(a, req_kind, k) for k, a in enumerate(case['script'])])
    tlog = []
    tracers = [RecTracer(i, tlog) for i in range(case['tracers'])]
    # the `tracers` parameter is typed Iterable: a list, a tuple or a one-shot iterator / generator
    tracers = {'list': lambda: tracers, 'tuple': lambda: tuple(tracers), 'iter': lambda: iter(tracers),
               'gen': lambda: (t for t in list(tracers))}[case.get('tr_as', 'list')]()
    cl = ce.make_client(is_async, script, tracers=tracers, retry_strategy=strategy_obj(case['client'], case['jitter']),
                        **({'strict': False} if case.get('lenient') else {}))
    kwargs = {}
    if case['per'] != 'unset':
        kwargs['_retry_strategy'] = None if case['per'] == 'none' else strategy_obj(case['per'], case['jitter'])
    caller_ctx = SimpleNamespace(caller=True)
    if case['supplied']:
        kwargs['_trace_ctx'] = caller_ctx
    sleeps = []

    def rec_sleep(d):
        sleeps.append(d)

    async def rec_asleep(d):
        sleeps.append(d)

    def go():
        if case.get('in_except'):
            # the request is made while the caller is handling an unrelated exception (inside an `except` block)
            if is_async:
                async def inner():
                    try:
                        raise LookupError('unrelated, being handled by the caller')
                    except LookupError:
                        return await go_plain()
                return inner()
            try:
                raise LookupError('unrelated, being handled by the caller')
            except LookupError:
                return go_plain()
        return go_plain()

    def go_plain():
        if req_kind == 'batch':
            breq = pjrpc.BatchRequest(pjrpc.Request('m', [1], id=1), strict=case.get('bstrict', True))
            if kwargs.get('_retry_strategy', 'x') == 'x' and '_retry_strategy' not in kwargs:
                return cl.batch.send(breq, **kwargs)
            return cl.batch.send(breq, **kwargs)
        req = pjrpc.Request('m', [1], id=None if req_kind == 'notification' else 1)
        return cl.send(req, **kwargs)
    with mock.patch.object(time, 'sleep', rec_sleep), mock.patch.object(asyncio, 'sleep', rec_asleep):
        if case.get('warm'):
            # an earlier request on the SAME client and strategy objects that used up its retries: what the observed request does
            # must not depend on it (strategies and backoffs carry no state from one request to the next)
            real_steps = script.steps
            n, fail = warm_attempts(case)
            script.steps = [step_of(fail, req_kind, 900 + k) for k in range(n)] + [step_of(['ok'], req_kind, 999)]
            ce.run(is_async, go)
            script.steps, script.sent = real_steps, []
            del tlog[:], sleeps[:]
            for st in JSTATES:
                st['k'] = 0
        o = ce.run(is_async, go)
    # final outcome -> (akind, tag)
    if o[0] == 'ok':
        r = o[1]
        if r is None:
            final = (('none',), len(script.sent) - 1)
        elif isinstance(r, pjrpc.BatchResponse):
            if r.is_error:
                final = (('resp', r.error.code), r.error.data)
            else:
                first = list(r)[0]
                final = (('resp', None), first.error.data if first.is_error else first._result)
        else:
            final = (('resp', r.error.code), r.error.data) if r.is_error else (('resp', None), r._result)
    else:
        e = o[1]
        cid = class_id(e)
        tag = int(str(e.args[0])[1:]) if e.args and isinstance(e.args[0], str) and str(e.args[0]).startswith('T') and str(e.args[0])[1:].isdigit() else len(script.sent) - 1
        final = (('exc', cid), tag)
    # events
    ctx_ids = {}
    events = []
    attempt_no = [0]

    def cid_of(c):
        if c is caller_ctx:
            return 'caller'
        if id(c) not in ctx_ids:
            ctx_ids[id(c)] = len(ctx_ids)
        return ctx_ids[id(c)]
    n_done = 0
    for ev in tlog:
        if ev[0] == 'begin':
            events.append(('begin', ev[1], cid_of(ev[2])))
        elif ev[0] == 'end':
            r = ev[3]
            if r is None:
                tag = None
            elif isinstance(r, pjrpc.BatchResponse):
                tag = r.error.data if r.is_error else (list(r)[0].error.data if list(r)[0].is_error else list(r)[0]._result)
            else:
                tag = r.error.data if r.is_error else r._result
            events.append(('end', ev[1], cid_of(ev[2]), tag))
        else:
            e = ev[3]
            a0 = e.args[0] if e.args else None
            tag = int(a0[1:]) if isinstance(a0, str) and a0.startswith('T') and a0[1:].isdigit() else None
            events.append(('error', ev[1], cid_of(ev[2]), tag))
    # library-raised exceptions carry no tag: they belong to the attempt in which they appear
    fixed = []
    att = -1
    for ev in events:
        if ev[0] == 'begin' and ev[1] == 0:
            att += 1
        if ev[0] == 'error' and ev[3] is None:
            ev = (ev[0], ev[1], ev[2], att if case['tracers'] else 0)
        fixed.append(ev)
    return {'sends': len(script.sent), 'sleeps': [str(Fraction(d)) for d in sleeps], 'final': final, 'events': fixed,
            'ctx_kept_alive': [c for c in ()]}


def cq(x):
    f = Fraction(x)
    return '(%d # %d)' % (f.numerator, f.denominator)


def cbackoff(b):
    if b[0] == 'periodic':
        return '(Periodic %d %s)' % (b[1], cq(b[2]))
    if b[0] == 'exp':
        return '(Exponential %d %s %s %s)' % (b[1], cq(b[2]), cq(b[3]), copt(b[4], cq))
    return '(Fibonacci %d %s %s)' % (b[1], cq(b[2]), copt(b[3], cq))


def cstrategy(s):
    return ('{| s_backoff := %s; s_codes := %s; s_excs := %s |}'
            % (cbackoff(s['backoff']), copt(s['codes'], lambda l: clist(cZ(c) for c in l)),
               copt(s['excs'], lambda l: clist('%d%%nat' % c for c in l))))


def cakind(k):
    if k[0] == 'none':
        return 'KNone'
    if k[0] == 'resp':
        return '(KResp %s)' % copt(k[1], cZ)
    return '(KExc %d%%nat)' % k[1]


def cattempt(k, tag):
    return '{| a_kind := %s; a_tag := %d%%nat |}' % (cakind(k), tag)


def cctx(c):
    return 'CtxCaller' if c == 'caller' else '(CtxFresh %d%%nat)' % c


def cev(e):
    if e[0] == 'begin':
        return '(TBegin %d%%nat %s)' % (e[1], cctx(e[2]))
    if e[0] == 'end':
        return '(TEnd %d%%nat %s %s)' % (e[1], cctx(e[2]), copt(e[3], lambda t: '%d%%nat' % t))
    return '(TError %d%%nat %s %d%%nat)' % (e[1], cctx(e[2]), e[3])


def cobs(obs):
    fin = obs['final']
    return ('{| o_sends := %d%%nat; o_sleeps := %s; o_final := Some %s; o_events := %s |}'
            % (obs['sends'], clist(cq(Fraction(s)) for s in obs['sleeps']), cattempt(fin[0], fin[1]), clist(cev(e) for e in obs['events'])))


def encode(case, obs):
    per = {'unset': 'RUnset', 'none': 'RNone'}.get(case['per']) if isinstance(case['per'], str) else '(RSome %s)' % cstrategy(case['per'])
    script = clist(cattempt(model_attempt(a, case['req']), k) for k, a in enumerate(case['script']))
    o = cobs(obs)
    return ('{| c_client := %s; c_per := %s; c_jitter := %s; c_tracers := %d%%nat; c_supplied := %s; c_script := %s; c_obs := %s |}'
            % (copt(case['client'], cstrategy), per, clist(cq(j) for j in case['jitter']), case['tracers'], cbool(case['supplied']), script, o))
