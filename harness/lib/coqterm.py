"""Python value -> Gallina term printer (the 'translator' half of the correspondence check).

Everything emitted is plain constructor syntax of theories/Base/Json.v and friends.  Strings that
are not plain printable ASCII are emitted as explicit UTF-8 byte lists through ``bs`` so that no
escaping rule of Coq's lexer is relied upon (Coq comments nest on "(*", string literals double the
quote character; both are avoided)."""
import json
import math


def cstr(s):
    if isinstance(s, bytes):
        b = s
    else:
        b = s.encode('utf-8', 'surrogatepass')
    if all(32 <= c < 127 and c != 34 for c in b):
        return '"%s"' % b.decode('ascii')
    return '(bs [%s]%%nat)' % ';'.join(map(str, b))


_CHUNK = 10 ** 200


def cZ(n):
    assert isinstance(n, int) and not isinstance(n, bool), n
    if abs(n) < _CHUNK:
        return '(%d)%%Z' % n
    # long literals are slow to parse in Coq: emit Horner form over 200-digit chunks (evaluated by vm_compute)
    import sys
    if hasattr(sys, 'set_int_max_str_digits'):
        sys.set_int_max_str_digits(0)
    a, chunks = abs(n), []
    while a:
        a, r = divmod(a, _CHUNK)
        chunks.append(r)
    t = '%d' % chunks[-1]
    for c in reversed(chunks[:-1]):
        t = '(%s * pow10_200 + %d)' % (t, c)
    return '(%s%s)%%Z' % ('- ' if n < 0 else '', t)


def cnat(n):
    assert isinstance(n, int) and 0 <= n < 5000, n
    return '%d%%nat' % n


def cbool(b):
    return 'true' if b else 'false'


def clist(items):
    return '[' + '; '.join(items) + ']'


def copt(x, f=lambda t: t):
    return 'None' if x is None else '(Some %s)' % f(x)


def cpair(a, b):
    return '(%s, %s)' % (a, b)


def cjson(v):
    if v is None:
        return 'JNull'
    if v is True:
        return '(JBool true)'
    if v is False:
        return '(JBool false)'
    if isinstance(v, int):
        return '(JInt %s)' % cZ(v)
    if isinstance(v, float):
        return '(JFloat %s)' % cstr(repr(v))
    if isinstance(v, str):
        return '(JStr %s)' % cstr(v)
    if isinstance(v, (list, tuple)):
        return '(JArr %s)' % clist([cjson(x) for x in v])
    if isinstance(v, dict):
        for k in v:
            if not isinstance(k, str):
                raise TypeError('non-string key %r' % (k,))
        return '(JObj %s)' % clist(['(%s, %s)' % (cstr(k), cjson(x)) for k, x in v.items()])
    raise TypeError('not a JSON value: %r' % (v,))


def is_json_value(v, depth=0):
    if v is None or isinstance(v, (bool, int, str)):
        return True
    if isinstance(v, float):
        return True
    if isinstance(v, (list, tuple)):
        return all(is_json_value(x, depth + 1) for x in v)
    if isinstance(v, dict):
        return all(isinstance(k, str) and is_json_value(x, depth + 1) for k, x in v.items())
    return False


# Python exception -> constructor of Base/Res.v exn.  Order matters (subclasses first).
def cexn(e):
    import pjrpc
    from pjrpc.server import validators
    if isinstance(e, pjrpc.exceptions.DeserializationError):
        return 'XDeser'
    if isinstance(e, pjrpc.exceptions.IdentityError):
        return 'XIdentity'
    if isinstance(e, validators.ValidationError):
        return 'XValidation'
    if isinstance(e, pjrpc.exceptions.JsonRpcError):
        return '(XOther 1)'
    if isinstance(e, pjrpc.exceptions.BaseError):
        return 'XBaseErr'
    if isinstance(e, AssertionError):
        return 'XAssert'
    if isinstance(e, AttributeError):
        return 'XAttr'
    if isinstance(e, TypeError):
        return 'XType'
    if isinstance(e, KeyError):
        return 'XKey'
    if isinstance(e, ValueError):
        return 'XValue'
    return '(XOther 0)'


def cres(ok, val_or_exn, f=lambda t: t):
    return '(Ok %s)' % f(val_or_exn) if ok else '(Raise %s)' % cexn(val_or_exn)
