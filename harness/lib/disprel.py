"""Relational dispatcher cases (C02, C12): a request text is dispatched once whole and, when it is a non-empty
array, once per element on identical fresh dispatchers; Corr/DispOk.v c02case = (dcase * list dobs)."""
import json

from . import dispenv
from .coqterm import clist

CTX = {'ctx': 7}


def observe(cfg, is_async, text):
    out, events = dispenv.run(cfg, is_async, text, CTX)
    load = dispenv.load_result(text)
    elems = []
    if load[0] == 'ok' and isinstance(load[1], list):
        for e in load[1]:
            o, ev = dispenv.run(cfg, is_async, json.dumps(e), CTX)
            elems.append((o, ev))
    return {'load': load, 'out': out, 'events': events, 'elems': elems}


def encode(cfg, obs):
    t, defs = dispenv.cdcase_shared(cfg, obs['load'], CTX, obs['out'], obs['events'])
    return ('(%s, %s)' % (t, clist(dispenv.cdobs(o, ev) for o, ev in obs['elems'])), defs)


def out_kind(out):
    if out[0] == 'some':
        codes = out[2]
        return 'batch[%d]' % len(codes) if isinstance(out[1], list) else 'single:%d' % codes[0]
    if out[0] == 'none':
        return 'nothing'
    return 'raised:%s' % type(out[1]).__name__
