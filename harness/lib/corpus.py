"""Request-text corpora shared by the dispatcher properties (C01 C02 C03 C11 C13 C18)."""
import itertools
import json

A = '<absent>'

STD_METHODS = [
    {'name': 'one', 'sig': [('a', 'PK', False)], 'ctx': ('none',), 'body': ('env',)},
    {'name': 'two', 'sig': [('a', 'PK', False), ('b', 'PK', True)], 'ctx': ('none',), 'body': ('env',)},
    {'name': 'boom', 'sig': [], 'ctx': ('none',), 'body': ('exc', 1)},
    {'name': 'perr', 'sig': [], 'ctx': ('none',), 'body': ('rpc', 5, 'm', None)},
    {'name': 'perr2', 'sig': [], 'ctx': ('none',), 'body': ('rpc', -32001, 'x', '<unset>')},
    {'name': 'nul', 'sig': [], 'ctx': ('none',), 'body': ('ret', None)},
    {'name': 'slow', 'sig': [('a', 'PK', True)], 'ctx': ('none',), 'body': ('ret', 'slow'), 'yields': 3},
    {'name': 'ctxm', 'sig': [('c', 'PK', False), ('a', 'PK', True)], 'ctx': ('name', 'c'), 'body': ('env',), 'share': 'CTXM'},
    # the SAME function object exposed a second time without the context designation
    {'name': 'ctxplain', 'sig': [('c', 'PK', False), ('a', 'PK', True)], 'ctx': ('none',), 'body': ('env',), 'share': 'CTXM'},
    # a typed library class raised with its code and message overridden on the instance (ServerError documents -32000..-32099)
    {'name': 'stor', 'sig': [], 'ctx': ('none',), 'body': ('rpc', -32050, 'storage offline', '<unset>', 'ServerError')},
    # a class-based view whose constructor raises: the request fails before the method is bound (-32603)
    {'name': 'vbad', 'sig': [('a', 'PK', True)], 'ctx': ('view', False, 'raise'), 'body': ('bindfail',)},
    # ... with exceptions of the types the dispatcher itself catches elsewhere (TypeError: binding; KeyError: lookup)
    {'name': 'vbadt', 'sig': [('a', 'PK', True)], 'ctx': ('view', False, 'raise'), 'body': ('bindfail', 'type')},
    {'name': 'vbadk', 'sig': [], 'ctx': ('view', False, 'raise'), 'body': ('bindfail', 'key')},
    # a view WITH a context whose handler has a parameter of its own named like the context (the context goes to the constructor)
    {'name': 'vself', 'sig': [('ctx', 'PK', False), ('a', 'PK', True)], 'ctx': ('view', True), 'body': ('env',)},
]
STD_CFG = {'methods': STD_METHODS, 'mws': [], 'ehs': [], 'max_batch': None}

J = [A, '2.0', '1.0', 2.0, None]
I = [A, None, 0, 1, -1, 2 ** 64, '', 'a', '1', True, 1.5, [], {}]
M = [A, 'one', 'two', 'boom', 'perr', 'perr2', 'nul', 'ctxm', 'ctxplain', 'vbad', 'vbadt', 'vbadk', 'vself', 'stor', 'nosuch', '', 1, None]
P = [A, [], [1], [1, 2], {}, {'a': 1}, {'a': 1, 'b': 2}, {'b': 1}, None, 1, 'x', [None], [[1, {'k': 'v'}]], [1, 2, 3], {'c': 9}, {'ctx': 4}]


def obj(j, i, m, p):
    d = {}
    for k, v in (('jsonrpc', j), ('id', i), ('method', m), ('params', p)):
        if v is not A:
            d[k] = v
    return d


def member_product():
    return [obj(*t) for t in itertools.product(J, I, M, P)]


def valid_element(rnd, notif_p=0.25, bad_p=0.08):
    r = rnd.random()
    if r < bad_p:
        return rnd.choice([1, None, 'x', [], {}, True, obj(*[rnd.choice(X) for X in (J, I, M, P)])])
    i = A if rnd.random() < notif_p else rnd.choice([None, 0, 1, 2, 3, -1, '1', 'a', '', 2 ** 64])
    return obj('2.0', i, rnd.choice(['one', 'one', 'two', 'boom', 'perr', 'perr2', 'nul', 'ctxm', 'ctxplain', 'ctxm', 'nosuch', 'vbad', 'vbadt', 'vbadk', 'vself', 'vself', 'stor', 'boom']),
               rnd.choice([A, [], [1], {'a': 2}, [1, 2], {'b': 1}, {'a': 1, 'b': None}, {'ctx': 3}, {'ctx': 3, 'a': 1}]))


def nested(depth, leaf=1):
    v = leaf
    for k in range(depth):
        v = [v] if k % 2 == 0 else {'k': v}
    return v


def malformed_texts():
    base = '{"jsonrpc": "2.0", "method": "one", "params": [1], "id": 1}'
    out = ['', ' ', 'nope', '{', '[', '[1,', '{"a":', '﻿{}', base + ' x', base + base, "{'jsonrpc': '2.0'}", '{"jsonrpc": "2.0", "method": "one", "id": 1,}',
           'NaN', '[NaN]', 'Infinity', '-Infinity', '"\\ud800"', '"unterminated', '\x00', '{"id": 01}', '1e999', '-', '0x10', 'true false', '[] []', 'é', '\U0001f600']
    toks = ['{', '"jsonrpc"', ':', '"2.0"', ',', '"method"', ':', '"one"', ',', '"params"', ':', '[', '1', ']', ',', '"id"', ':', '1', '}']
    for k in range(len(toks)):
        out.append(' '.join(toks[:k]))
    return out


def scalar_texts():
    return ['null', 'true', 'false', '0', '1', '-1', '1.5', '"x"', '""', '[]', '{}', '[[]]', '[{}]', ' [ ] ', '[1]', '[null]', '"2.0"']


def huge_int_texts():
    out = []
    for n in (1, 19, 4300, 4301, 5000, 20000):
        lit = '1' + '0' * (n - 1)
        out.append(lit)
        out.append('-' + lit)
        out.append('{"jsonrpc": "2.0", "method": "one", "params": [%s], "id": 1}' % lit)
        out.append('{"jsonrpc": "2.0", "method": "one", "params": [1], "id": %s}' % lit)
        out.append('[{"jsonrpc": "2.0", "method": "nul", "id": %s}]' % lit)
    return out


def special_batches():
    """Batches exercising duplicate-id reporting and error serialisation across elements."""
    def el(m, i=A, p=A):
        return obj('2.0', i, m, p)
    out = []
    for ids in ([7, 'x', 7, 'x'], ['7', 7, '7', 7], [0, '', 0, ''], [1, 'a', 'a', 1], [1, 1, 2, 2], ['a', 'b', 'a', 'b']):
        out.append([el('one', i, [1]) for i in ids])
    out.append([el('stor', 1), el('boom', 2)])
    # one function under two registrations (with / without the context designation), in both orders
    out.append([el('ctxplain', 1, [5, 6]), el('ctxm', 2, [7]), el('ctxplain', 3, {'c': 1})])
    out.append([el('ctxm', 1, [7]), el('ctxplain', 2, [5, 6]), el('ctxm', 3, {'a': 1}), el('ctxm', 4, {'c': 9})])
    out.append([el('boom', 1), el('stor', 2), el('stor'), el('perr', 3), el('perr2', 4)])
    out.append([el('stor', 1), el('nul', 2), el('boom', 3), el('vbad', 4)])
    out.append([el('vbadt', 1, [1]), el('vbadk', 2), el('vbadt'), el('vself', 3, {'a': 1}), el('vself', 4, [7]), el('vself', 5, {'ctx': 1, 'a': 2})])
    return [json.dumps(b) for b in out]


def oversize_malformed():
    """(text, max_batch_size) pairs: batches that are BOTH longer than the limit and malformed (an entry that is no request, a
    repeated id), next to well-formed ones of the same length at, under and over the limit."""
    ok1, ok2, ok3 = (obj('2.0', i, 'one', [i]) for i in (1, 2, 3))
    bad = [5, 'x', None, [], {'jsonrpc': '2.0'}, {'jsonrpc': '1.0', 'method': 'one', 'id': 9}, {'jsonrpc': '2.0', 'method': 'one', 'params': 5, 'id': 9},
           {'jsonrpc': '2.0', 'method': 'one', 'id': True}, {'jsonrpc': '2.0', 'method': 5, 'id': 9}]
    out = []
    for b in bad:
        for batch in ([ok1, b], [b, ok1], [ok1, ok2, b], [b, ok1, ok2]):
            for mb in (1, len(batch) - 1, len(batch)):
                out.append((json.dumps(batch), mb))
    for batch in ([ok1, dict(ok2, id=1)], [ok1, ok2, dict(ok3, id=1)], [ok1, ok2], [ok1, ok2, ok3]):
        for mb in (1, len(batch) - 1, len(batch)):
            out.append((json.dumps(batch), mb))
    return sorted(set(out))


def nested_texts():
    out = []
    for d in (1, 2, 8, 32, 64):
        out.append(json.dumps(nested(d)))
        out.append(json.dumps({'jsonrpc': '2.0', 'method': 'one', 'params': [nested(d)], 'id': d}))
        out.append(json.dumps({'jsonrpc': '2.0', 'method': 'one', 'params': {'a': nested(d)}, 'id': 's%d' % d}))
    return out
