"""Realises a dispatcher configuration descriptor (Corr/DispCommon.v dconfig) as real pjrpc objects with
instrumented user code, runs request texts through it and canonicalises what was observed."""
import asyncio
import json

import pjrpc
from pjrpc.common import UNSET, Request, Response
from pjrpc.server import AsyncDispatcher, Dispatcher
from pjrpc.server import dispatcher as _disp
from pjrpc.server import validators as _validators

from .coqterm import cjson, cstr, cexn, clist, copt, cZ, cbool

DEFAULT = '<default>'


class MyCustomError(Exception):
    pass


class BadReprError(Exception):
    """A hand-written exception class whose rendering itself fails."""

    def __repr__(self):
        raise RuntimeError('S3CR3T9r')

    def __str__(self):
        raise RuntimeError('S3CR3T9s')


EXC_TABLE = {
    0: lambda: ValueError('S3CR3T0'),
    1: lambda: KeyError('S3CR3T1'),
    2: lambda: TypeError('S3CR3T2'),
    3: lambda: AssertionError('S3CR3T3'),
    4: lambda: RuntimeError('S3CR3T4'),
    5: lambda: MyCustomError('S3CR3T5'),
    # library exception types that are NOT protocol errors: raised inside a body they are foreign exceptions too
    6: lambda: _validators.ValidationError('S3CR3T6'),
    7: lambda: pjrpc.exceptions.DeserializationError('S3CR3T7'),
    8: lambda: pjrpc.exceptions.IdentityError('S3CR3T8'),
    9: lambda: BadReprError('S3CR3T9'),
    # a TypeError from INSIDE the body that reads like the interpreter's argument-mismatch message (the body called a helper wrongly)
    10: lambda: TypeError("S3CR3T10_helper() missing 1 required positional argument: 'x'"),
}
EXC_NAMES = ['ValueError', 'KeyError', 'TypeError', 'AssertionError', 'RuntimeError', 'MyCustomError', 'Traceback', 'S3CR3T']

_loop = None


def loop():
    global _loop
    if _loop is None or _loop.is_closed():
        _loop = asyncio.new_event_loop()
    return _loop


def sig_source(sig):
    """sig: list of (name, kind, has_default) -> python parameter list source."""
    parts, po_done, star_done = [], False, False
    for i, (n, k, d) in enumerate(sig):
        if k != 'PO' and not po_done and any(kk == 'PO' for _, kk, _ in sig[:i]):
            parts.append('/')
            po_done = True
        if k == 'KO' and not star_done and not any(kk == 'VP' for _, kk, _ in sig):
            parts.append('*')
            star_done = True
        if k == 'VP':
            parts.append('*' + n)
            star_done = True
        elif k == 'VK':
            parts.append('**' + n)
        else:
            parts.append(n + ('=%r' % DEFAULT if d else ''))
    if any(kk == 'PO' for _, kk, _ in sig) and not po_done:
        parts.append('/')
    return ', '.join(parts)


def env_expr(sig):
    items = []
    for n, k, d in sig:
        if k == 'VP':
            items.append('[%r, list(%s)]' % (n, n))
        elif k == 'VK':
            items.append('[%r, dict(%s)]' % (n, n))
        else:
            items.append('[%r, %s]' % (n, n))
    return '[' + ', '.join(items) + ']'


def shared_decorator(fn, coro):
    """Every decorated handler gets a wrapper made from the SAME source (one code object for all of them), as handlers
    behind a common functools.wraps decorator do."""
    import functools
    if coro:
        @functools.wraps(fn)
        async def wrapper(*a, **k):
            return await fn(*a, **k)
    else:
        @functools.wraps(fn)
        def wrapper(*a, **k):
            return fn(*a, **k)
    return wrapper


def log_name(m):
    """The name the instrumented body logs: a function object registered under several names can only log one."""
    return 'shared:%s' % m['share'] if m.get('share') else m['name']


def make_callable(m, is_async, log):
    """Returns (callable_or_viewclass, is_view)."""
    sig = m['sig']
    body = m['body']
    # is_async: False | True | 'plain' (the asynchronous dispatcher serving plain, non-coroutine functions)
    #           | 'wrapped' (coroutine functions behind an ordinary, non-async functools.wraps decorator: a sync callable that
    #             returns a coroutine)
    coro = bool(is_async) and m.get('coro', True) and (is_async != 'plain' or bool(m.get('yields')))
    wrapped = is_async == 'wrapped' and coro
    ns = {'HLOG_': log, 'HEXC_': EXC_TABLE, 'pjrpc': pjrpc, 'UNSET': UNSET, 'HBODY_': body, 'HNAME_': log_name(m)}
    view = m['ctx'][0] == 'view'
    static = view and len(m['ctx']) > 2 and m['ctx'][2] == 'static'      # a @staticmethod exposed by the view
    env = env_expr(sig)
    if view and m['ctx'][1]:
        env = ('[["<ctx>", HLAST_[0]]] + ' if static else '[["<ctx>", self._ctx]] + ') + env
    lines = []
    lines.append('    HENV_ = %s' % env)
    lines.append('    HLOG_.append(["call", HNAME_, HENV_])')
    if coro and m.get('yields'):
        # suspension points AFTER the call was logged: under a concurrent batch a later element finishes first
        lines.append('    import asyncio as HA_')
        lines.append('    for HK_ in range(%d): await HA_.sleep(0)' % m['yields'])
    if body[0] == 'env':
        lines.append('    return HENV_')
    elif body[0] == 'ret':
        lines.append('    return HBODY_[1]')
    elif body[0] == 'rpc':
        # optional 5th component: the library's typed class the error is raised as, with the code / message overridden per instance
        lines.append('    raise getattr(pjrpc.exceptions, HBODY_[4] if len(HBODY_) > 4 else "JsonRpcError")(code=HBODY_[1], message=HBODY_[2], data=(UNSET if HBODY_[3] == "<unset>" else HBODY_[3]))')
    elif body[0] == 'rpcargs':
        # ONE long-lived error object per method (a module-level constant in user code): its fields are set from the
        # arguments of the call and it is raised again
        ns['HERR_'] = pjrpc.exceptions.JsonRpcError(code=1, message='initial')
        lines.append('    HERR_.code, HERR_.message = code, message')
        lines.append('    HERR_.data = UNSET if data == %r else data' % DEFAULT)
        lines.append('    raise HERR_')
    elif body[0] == 'bindfail':
        lines.append('    raise AssertionError("unreachable: the view cannot be constructed")')
    else:
        lines.append('    raise HEXC_[HBODY_[1]]()')
    kw = 'async def' if coro else 'def'
    fname = m.get('pyname', m['name'].split('.')[-1]) or 'f'
    if not fname.isidentifier():
        fname = 'f'
    params = sig_source(sig)
    if view:
        ns['HLAST_'] = [None]
        src = 'class V(HMIXIN_):\n    def __init__(self, ctx=None):\n        self._ctx = ctx\n        HLAST_[0] = ctx\n'
        if body[0] == 'bindfail':
            # the view cannot be constructed: an unexpected exception before the method is even bound
            src += '        raise %s("S3CR3T9")\n' % {'type': 'TypeError', 'key': 'KeyError', 'value': 'ValueError'}.get(body[1] if len(body) > 1 else None, 'RuntimeError')
        if static:
            src += '    @staticmethod\n    %s %s(%s):\n' % (kw, fname, params)
        else:
            src += '    %s %s(self%s):\n' % (kw, fname, (', ' + params) if params else '')
        src += '\n'.join('    ' + l for l in lines) + '\n'
        ns['HMIXIN_'] = _disp.ViewMixin
        exec(src, ns)
        return ns['V'], True, fname
    src = '%s %s(%s):\n' % (kw, fname, params) + '\n'.join(lines) + '\n'
    exec(src, ns)
    f = ns[fname]
    if m.get('deco') and not wrapped:
        f = shared_decorator(f, coro)
    if wrapped:
        import functools

        def deco(fn):
            @functools.wraps(fn)
            def wrapper(*a, **k):
                return fn(*a, **k)
            return wrapper
        f = deco(f)
    return f, False, fname


class TracedResponse(Response):
    """A user-defined response class: same message, one extra member on the wire."""

    def to_json(self):
        d = super().to_json()
        d['x-trace'] = 'T'
        return d


def make_mw(i, d, is_async, log):
    kind = d[0]

    def pre(request):
        if kind == 'short':
            return ('answer', Response(id=request.id, result=d[1]) if request.id is not None else UNSET)
        if kind == 'const':
            return ('answer', UNSET if d[1] is None else resp_from_desc(d[1]))
        if kind == 'rename':
            return ('go', Request(d[2], request.params, request.id) if request.method == d[1] else request)
        if kind == 'setparams':
            return ('go', Request(request.method, d[1], request.id))
        return ('go', request)

    def post(resp):
        if kind == 'wrap' and resp is not UNSET and resp.is_success:
            return Response(id=resp.id, result=[d[1], resp._result])
        return resp

    def enter(request):
        log.append(['enter', i, {'method': request.method, 'params': request.params, 'id': request.id}])

    def exit_(resp):
        log.append(['exit', i, None if resp is UNSET else resp.to_json()])

    if is_async:
        async def mw(request, context, handler):
            enter(request)
            what, x = pre(request)
            resp = x if what == 'answer' else post(await handler(x, context))
            exit_(resp)
            return resp
    else:
        def mw(request, context, handler):
            enter(request)
            what, x = pre(request)
            resp = x if what == 'answer' else post(handler(x, context))
            exit_(resp)
            return resp
    return mw


def resp_from_desc(r):
    i, k, v = r
    if k == 'result':
        return Response(id=i, result=v)
    code, msg, data = v
    return Response(id=i, error=pjrpc.exceptions.JsonRpcError(code=code, message=msg, data=UNSET if data == '<unset>' else data))


def make_eh(key, i, d, is_async, log):
    def run(error):
        log.append(['eh', key, i, error.to_json()])
        if d[0] == 'setdata':
            return type(error)(code=error.code, message=error.message, data=d[1])
        if d[0] == 'replace':
            return pjrpc.exceptions.JsonRpcError(code=d[1], message=d[2])
        return error
    if is_async:
        async def eh(request, context, error):
            return run(error)
    else:
        def eh(request, context, error):
            return run(error)
    return eh


# non-default configurations every dispatcher corpus is also run under (the model is the same: none of them changes behaviour)
VARIANTS = [{'encoder': 'sub'}, {'resp_cls': 'sub'}, {'eh_late': True}, {'deco': True}, {'seq': True}]


def with_variants(cases, every, key=None):
    """Adds, for every `every`-th case, a copy under one of the VARIANTS (round robin).  key(case, variant) -> new case."""
    out = list(cases)
    k = 0
    for i, c in enumerate(cases):
        if i % every == 0:
            v = VARIANTS[k % len(VARIANTS)]
            k += 1
            if v.get('seq') and not c.get('async'):
                continue
            out.append(key(c, v) if key else dict(c, variant=v))
    return out


def build(cfg, is_async, log, **extra):
    cls = AsyncDispatcher if is_async else Dispatcher
    mws = [make_mw(i, d, is_async, log) for i, d in enumerate(cfg.get('mws', []))]
    ehs = {}
    for key, hs in cfg.get('ehs', []):
        if key not in ehs:   # first entry wins in the model's association list; keys are distinct in generated configs
            ehs[key] = [make_eh(key, i, d, is_async, log) for i, d in enumerate(hs)]
    # the `middlewares` parameter is typed Iterable: a list, a tuple or a one-shot iterator / generator
    how = cfg.get('mw_as', 'list')
    mw_arg = {'list': lambda: mws, 'tuple': lambda: tuple(mws), 'iter': lambda: iter(mws), 'gen': lambda: (m for m in mws)}[how]()
    if is_async and cfg.get('seq'):
        extra = dict(extra, concurrent_batch=False)       # batch elements one after the other
    if cfg.get('encoder') == 'sub':
        # the documented way to write a custom encoder: derive from pjrpc.server.JSONEncoder
        import pjrpc.server as _srv
        extra = dict(extra, json_encoder=type('HarnessEncoder', (_srv.JSONEncoder,), {}))
    if cfg.get('resp_cls') == 'sub':
        # a custom response class whose wire form carries one more member (removed again by canon_doc)
        extra = dict(extra, response_class=TracedResponse)
    late = None
    if cfg.get('eh_late'):
        # the application keeps the (still empty) table it handed over and registers the handlers afterwards
        late, ehs = ehs, {}
    disp = cls(middlewares=mw_arg, error_handlers=ehs, max_batch_size=cfg.get('max_batch'), **extra)
    if late is not None:
        ehs.update(late)
    shared = {}
    for m in cfg['methods']:
        if m.get('share') and m['share'] in shared:
            # the SAME function object registered a second time (under another name / context designation)
            f, is_view, fname = shared[m['share']]
        else:
            f, is_view, fname = make_callable(dict(m, deco=True) if cfg.get('deco') else m, is_async, log)
            if m.get('share'):
                shared[m['share']] = (f, is_view, fname)
        c = m['ctx']
        via = m.get('via', 'direct')
        if via != 'direct' and not is_view:
            # the method reaches the dispatcher through a registry (Method objects are re-created by copy()) or through a
            # registry merged into another one
            reg = _disp.MethodRegistry()
            kw = {}
            if c[0] in ('name', 'pos'):
                kw['context'] = c[1]
            if c[0] == 'pos':
                kw['positional'] = True
            reg.add(f, name=m['name'], **kw)
            if via == 'merge':
                outer = _disp.MethodRegistry()
                outer.merge(reg)
                reg = outer
            disp.add_methods(reg)
            continue
        if is_view:
            # the view exposes exactly one public method; register it under the descriptor's name
            disp.registry._add_method(_disp.ViewMethod(f, fname, m['name'], 'ctx' if c[1] else None))
        elif c[0] == 'name':
            disp.add(f, name=m['name'], context=c[1])
        elif c[0] == 'pos':
            disp.add(f, name=m['name'], context=c[1], positional=True)
        else:
            disp.add(f, name=m['name'])
    return disp


def user_data_values(cfg):
    vals = []
    for m in cfg.get('methods', []):
        if m['body'][0] == 'rpc':
            vals.append(m['body'][3])
    for _, hs in cfg.get('ehs', []):
        for h in hs:
            if h[0] == 'setdata':
                vals.append(h[1])
    for d in cfg.get('mws', []):
        if d[0] == 'const' and d[1] is not None and d[1][1] == 'error':
            vals.append(d[1][2][2])
    return vals


def canon_doc(doc, cfg=None):
    """Replace library-generated human-readable texts by the placeholder; data values the configuration itself
    supplies (method bodies, error handlers, middlewares) are user data and are kept."""
    user = user_data_values(cfg) if cfg else []

    def is_user(d):
        return any(type(d) is type(u) and d == u for u in user)

    def fix(r):
        if isinstance(r, dict) and r.get('x-trace') == 'T':
            r = {k: v for k, v in r.items() if k != 'x-trace'}
        if isinstance(r, dict) and isinstance(r.get('error'), dict):
            e = r['error']
            d = e.get('data')
            if is_user(d):
                return r
            if isinstance(d, str) and not d.startswith('U:') and e.get('code') in (-32700, -32600, -32601):
                e['data'] = '<text>'
            if e.get('code') == -32602 and isinstance(d, list) and d and all(isinstance(x, str) and not x.startswith('U:') for x in d):
                e['data'] = ['<text>'] * len(d)
        return r
    if isinstance(doc, list):
        return [fix(r) for r in doc]
    return fix(doc)


def canon_events(log, cfg):
    """Events carry message renderings made while the request was in flight; bring them to the wire form (server JSON
    encoder) and apply the same text canonicalisation as to response documents."""
    out = []
    for ev in log:
        if ev[0] == 'eh':
            e = json.loads(json.dumps(ev[3], cls=_disp.JSONEncoder))
            out.append([ev[0], ev[1], ev[2], canon_doc({'error': e}, cfg)['error']])
        elif ev[0] == 'exit' and ev[2] is not None:
            out.append([ev[0], ev[1], canon_doc(json.loads(json.dumps(ev[2], cls=_disp.JSONEncoder)), cfg)])
        else:
            out.append(ev)
    return out


def strict_loads(text):
    def bad(c):
        raise ValueError('non-RFC constant %s' % c)
    return json.loads(text, parse_constant=bad)


def run(cfg, is_async, text, ctx, pre=(), **extra):
    """Returns (out, events): out = ('none',) | ('some', doc, codes, rfc_ok) | ('raise', exc).
    pre: request texts dispatched (and forgotten) on the same dispatcher before the observed one."""
    log = []
    disp = build(cfg, is_async, log, **extra)
    for t in pre:
        try:
            if is_async:
                loop().run_until_complete(disp.dispatch(t, context=ctx))
            else:
                disp.dispatch(t, context=ctx)
        except Exception:
            pass
    del log[:]
    try:
        if is_async:
            r = loop().run_until_complete(disp.dispatch(text, context=ctx))
        else:
            r = disp.dispatch(text, context=ctx)
    except Exception as e:
        return ('raise', e), canon_events(log, cfg)
    if r is None:
        return ('none',), canon_events(log, cfg)
    rtext, codes = r
    log[:] = canon_events(log, cfg)
    try:
        strict_loads(rtext)
        rfc = True
    except ValueError:
        rfc = False
    # 5th component: the document as sent (library texts included), for comparisons between runs of the same library
    return ('some', canon_doc(json.loads(rtext), cfg), list(codes), rfc, json.loads(rtext) if rfc else rtext), log


def load_result(text, loader=json.loads):
    try:
        return ('ok', loader(text))
    except json.JSONDecodeError:
        return ('decode',)
    except ValueError:
        return ('value',)
    except BaseException as e:
        return ('raise', e)


# ---------------------------------------------------------------- Gallina printers
def cparams(p):
    if p is None:
        return 'PNone'
    if isinstance(p, (list, tuple)):
        return '(PList %s)' % clist(cjson(x) for x in p)
    return '(PDict %s)' % clist('(%s, %s)' % (cstr(k), cjson(v)) for k, v in p.items())


def cid(i):
    if i is None:
        return 'None'
    if isinstance(i, bool):
        raise TypeError('bool id')
    if isinstance(i, int):
        return '(Some (IInt %s))' % cZ(i)
    return '(Some (IStr %s))' % cstr(i)


def csig(sig):
    return clist('{| pname := %s; pk := %s; pdef := %s |}' % (cstr(n), k, cbool(d)) for n, k, d in sig)


def cctx(c):
    if c[0] == 'none':
        return 'CtxNone'
    if c[0] == 'name':
        return '(CtxByName %s)' % cstr(c[1])
    if c[0] == 'pos':
        return '(CtxPositional %s)' % cstr(c[1])
    return '(CtxView %s)' % cbool(c[1])


def cbody(b):
    if b[0] == 'env':
        return 'BEnv'
    if b[0] == 'ret':
        return '(BRet %s)' % cjson(b[1])
    if b[0] == 'rpc':
        return '(BRpc %s %s %s)' % (cZ(b[1]), cstr(b[2]), 'None' if b[3] == '<unset>' else '(Some %s)' % cjson(b[3]))
    if b[0] == 'rpcargs':
        return 'BRpcArgs'
    if b[0] == 'bindfail':
        return 'BBindFail'
    return '(BExc %d)' % b[1]


def cresp_desc(r):
    i, k, v = r
    if k == 'result':
        return '(RResult %s %s)' % (cid(i), cjson(v))
    code, msg, data = v
    return ('(RError %s {| e_code := %s; e_msg := %s; e_data := %s; e_class := "JsonRpcError" |})'
            % (cid(i), cZ(code), cstr(msg), 'None' if data == '<unset>' else '(Some %s)' % cjson(data)))


def cmw(d):
    k = d[0]
    if k == 'pass':
        return 'MwPass'
    if k == 'short':
        return '(MwShort %s)' % cjson(d[1])
    if k == 'const':
        return '(MwConst %s)' % ('None' if d[1] is None else '(Some %s)' % cresp_desc(d[1]))
    if k == 'rename':
        return '(MwRename %s %s)' % (cstr(d[1]), cstr(d[2]))
    if k == 'setparams':
        return '(MwSetParams %s)' % cparams(d[1])
    if k == 'wrap':
        return '(MwWrap %s)' % cjson(d[1])
    raise ValueError(d)


def ceh(d):
    if d[0] == 'id':
        return 'EhId'
    if d[0] == 'setdata':
        return '(EhSetData %s)' % cjson(d[1])
    return '(EhReplace %s %s)' % (cZ(d[1]), cstr(d[2]))


_cfg_cache = {}


def cdconfig(cfg):
    key = json.dumps(cfg, sort_keys=True, default=repr)
    if key in _cfg_cache:
        return _cfg_cache[key]
    ms = clist('{| md_name := %s; md_sig := %s; md_ctx := %s; md_body := %s; md_log := %s |}'
               % (cstr(m['name']), csig(m['sig']), cctx(m['ctx']), cbody(m['body']), cstr(log_name(m))) for m in cfg['methods'])
    mws = clist(cmw(d) for d in cfg.get('mws', []))
    ehs = clist('(%s, %s)' % (copt(k, cZ), clist(ceh(d) for d in hs)) for k, hs in cfg.get('ehs', []))
    t = '{| dc_methods := %s; dc_mws := %s; dc_ehs := %s; dc_max_batch := %s |}' % (ms, mws, ehs, copt(cfg.get('max_batch'), cZ))
    _cfg_cache[key] = t
    return t


def cload(l):
    if l[0] == 'ok':
        return '(LOk %s)' % cjson(l[1])
    if l[0] == 'decode':
        return 'LDecodeError'
    if l[0] == 'value':
        return 'LValueError'
    return '(LRaise %s)' % cexn(l[1])


def cdout(out):
    if out[0] == 'none':
        return '(Ok None)'
    if out[0] == 'raise':
        return '(Raise %s)' % cexn(out[1])
    return '(Ok (Some (%s, %s)))' % (cjson(out[1]), clist(cZ(c) for c in out[2]))


def cdobs(out, events):
    return '(%s, %s)' % (cdout(out), clist(cjson(e) for e in events))


def cdcase(cfg, l, ctx, out, events):
    return '(%s, %s, %s, %s)' % (cdconfig(cfg), cload(l), cjson(ctx), cdobs(out, events))


DISP_IMPORTS = 'From PJ Require Import Model.Msg Model.Bind Model.Dispatch Corr.DispCommon.\n'


def cdcase_shared(cfg, l, ctx, out, events):
    """Like cdcase, but the configuration is a named definition shared by all cases of a shard."""
    import hashlib
    t = cdconfig(cfg)
    name = 'cfg_' + hashlib.md5(t.encode()).hexdigest()[:12]
    return ('(%s, %s, %s, %s)' % (name, cload(l), cjson(ctx), cdobs(out, events)),
            {name: 'Definition %s : dconfig := %s.' % (name, t)})
