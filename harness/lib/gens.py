"""Shared generators of JSON values (edge-case rich, seeded)."""
import itertools

EDGE_SCALARS = [None, True, False, 0, 1, -1, 2 ** 63, -2 ** 64, 2 ** 200, 0.0, -0.0, 1.5, 1e300, float('inf'), float('nan'),
                '', 'a', '1', 'null', 'é中', '\U0001f600', 'q"uo\\te', '\x00\x1f\n\t', '\ud800', ' ', 'jsonrpc']
EDGE_CONTAINERS = [[], {}, [[]], [{}], {'': None}, {'a': []}, [None], {'k': {'k': {'k': 1}}}, [1, [2, [3, []]]],
                   {'id': 1, 'jsonrpc': '2.0'}, {'result': None, 'error': None}, [0, '', False, None, {}, []]]
EDGE_VALUES = EDGE_SCALARS + EDGE_CONTAINERS
IDS = [None, 0, 1, -1, 2 ** 64, '', 'a', '1', 'id-é']


def rand_value(rnd, depth=3):
    r = rnd.random()
    if depth <= 0 or r < 0.45:
        return rnd.choice(EDGE_SCALARS)
    if r < 0.55:
        return rnd.choice(EDGE_CONTAINERS)
    n = rnd.choice([0, 1, 1, 2, 3])
    if r < 0.78:
        return [rand_value(rnd, depth - 1) for _ in range(n)]
    keys = rnd.sample(['a', 'b', '', 'k', 'id', 'code', 'x y', 'é'], n)
    return {k: rand_value(rnd, depth - 1) for k in keys}


def canon_float_free(v):
    """True when the value contains no float (floats are opaque repr tokens in the model)."""
    if isinstance(v, float):
        return False
    if isinstance(v, (list, tuple)):
        return all(canon_float_free(x) for x in v)
    if isinstance(v, dict):
        return all(canon_float_free(x) for x in v.values())
    return True
