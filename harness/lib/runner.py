"""Generic run protocol (DESIGN.md section 2): regenerate constants, audit, build the Coq cone, run the
implementation on generated inputs, evaluate the Coq model on the same inputs (vm_compute), decide."""
import concurrent.futures as cf
import fcntl
import hashlib
import json
import os
import re
import shutil
import subprocess
import sys
import time

VERIF = os.path.dirname(os.path.dirname(os.path.dirname(os.path.abspath(__file__))))
COQ = os.path.join(VERIF, 'coq')
THEORIES = os.path.join(COQ, 'theories')
WORK = os.path.join(VERIF, '.work')
SHARD = 400
JOBS = int(os.environ.get('VERIF_JOBS', '16'))
COQC_TIMEOUT = int(os.environ.get('VERIF_COQC_TIMEOUT', '900'))

AUDIT_RE = re.compile(
    r'\b(Admitted|admit|Axiom|Axioms|Parameter|Parameters|Conjecture|Conjectures|Admit Obligations|'
    r'Unset Guard Checking|Unset Positivity Checking|Unset Universe Checking|bypass_check|'
    r'type-in-type|impredicative-set|native_compute)\b')
THM_RE = re.compile(r'^\s*(Theorem|Lemma|Corollary|Example|Fact|Remark|Proposition)\s+([A-Za-z0-9_\']+)', re.M)


class MachineryError(Exception):
    pass


def sh(cmd, timeout=None, cwd=None, env=None):
    p = subprocess.run(cmd, shell=isinstance(cmd, str), cwd=cwd, env=env, timeout=timeout,
                       stdout=subprocess.PIPE, stderr=subprocess.STDOUT, text=True, errors='replace')
    return p.returncode, p.stdout


def strip_comments(src):
    """Remove (nested) Coq comments and string literals, for the audit grep."""
    out = []
    i, n, depth = 0, len(src), 0
    while i < n:
        if src.startswith('(*', i):
            depth += 1
            i += 2
        elif depth and src.startswith('*)', i):
            depth -= 1
            i += 2
        elif depth:
            i += 1
        elif src[i] == '"':
            j = i + 1
            while j < n:
                if src[j] == '"':
                    if j + 1 < n and src[j + 1] == '"':
                        j += 2
                        continue
                    break
                j += 1
            i = j + 1
        else:
            out.append(src[i])
            i += 1
    return ''.join(out)


def all_v_files():
    res = []
    for root, _, files in os.walk(THEORIES):
        for f in sorted(files):
            if f.endswith('.v'):
                res.append(os.path.join(root, f))
    return sorted(res)


def audit():
    """No Admitted / Axiom / Parameter / disabled checks anywhere in the development."""
    hits = []
    for path in all_v_files():
        with open(path) as f:
            src = strip_comments(f.read())
        for m in AUDIT_RE.finditer(src):
            line = src.count('\n', 0, m.start()) + 1
            hits.append('%s:%d: %s' % (os.path.relpath(path, VERIF), line, m.group(0)))
        # Variable/Hypothesis outside a Section
        depth = 0
        for ln, line in enumerate(src.split('\n'), 1):
            s = line.strip()
            if re.match(r'^Section\b', s):
                depth += 1
            elif re.match(r'^End\b', s) and depth > 0:
                depth -= 1
            elif depth == 0 and re.match(r'^(Variable|Variables|Hypothesis|Hypotheses|Context)\b', s):
                hits.append('%s:%d: %s outside a Section' % (os.path.relpath(path, VERIF), ln, s.split()[0]))
    return hits


def module_of(path):
    rel = os.path.relpath(path, THEORIES)[:-2]
    return 'PJ.' + rel.replace(os.sep, '.')


def path_of(module):
    assert module.startswith('PJ.')
    return os.path.join(THEORIES, *module[3:].split('.')) + '.v'


REQ_RE = re.compile(r'(?:From\s+PJ\s+)?Require\s+(?:Import\s+|Export\s+)?([^.]*(?:\.[A-Za-z_][^.\s]*)*)\s*\.\s', re.S)


def deps_of(path):
    with open(path) as f:
        src = strip_comments(f.read())
    deps = []
    for m in re.finditer(r'From\s+PJ\s+Require\s+(?:Import\s+|Export\s+)?((?:[A-Za-z0-9_]+(?:\.[A-Za-z0-9_]+)*\s*)+)\.(?=\s)', src):
        for name in m.group(1).split():
            deps.append('PJ.' + name)
    for m in re.finditer(r'(?<!From PJ )Require\s+(?:Import\s+|Export\s+)?((?:PJ(?:\.[A-Za-z0-9_]+)+\s*)+)\.(?=\s)', src):
        for name in m.group(1).split():
            deps.append(name)
    return [d for d in deps if os.path.exists(path_of(d))]


def cone(modules):
    seen, order = set(), []

    def go(m):
        if m in seen:
            return
        seen.add(m)
        for d in deps_of(path_of(m)):
            go(d)
        order.append(m)
    for m in modules:
        go(m)
    return order


class Lock:
    def __init__(self, path):
        self.path = path

    def __enter__(self):
        os.makedirs(os.path.dirname(self.path), exist_ok=True)
        self.f = open(self.path, 'w')
        fcntl.flock(self.f, fcntl.LOCK_EX)
        return self

    def __exit__(self, *a):
        fcntl.flock(self.f, fcntl.LOCK_UN)
        self.f.close()


def write_coqproject():
    files = [os.path.relpath(p, COQ) for p in all_v_files()]
    text = '-Q theories PJ\n-arg -w -arg -notation-overridden,-deprecated-hint-without-locality,-deprecated-instance-without-locality\n' + '\n'.join(files) + '\n'
    p = os.path.join(COQ, '_CoqProject')
    old = open(p).read() if os.path.exists(p) else None
    if old != text:
        with open(p, 'w') as f:
            f.write(text)
        return True
    return False


def build(modules, log):
    """Full .vo build of the dependency cone of the given modules. Returns (ok, output, cmd)."""
    from . import gen_consts
    with Lock(os.path.join(COQ, '.lock')):
        try:
            gen_consts.write(os.path.join(THEORIES, 'Generated', 'Consts.v'))
        except Exception as e:  # broken tie: constants no longer have the expected shape
            return False, 'gen_consts: %s: %s' % (type(e).__name__, e), 'gen_consts'
        changed = write_coqproject()
        if changed or not os.path.exists(os.path.join(COQ, 'Makefile')):
            rc, out = sh('coq_makefile -f _CoqProject -o Makefile', cwd=COQ, timeout=120)
            if rc != 0:
                raise MachineryError('coq_makefile failed:\n' + out)
        targets = ' '.join(os.path.relpath(path_of(m), COQ) + 'o' for m in modules)
        cmd = 'timeout %d make -j%d %s' % (COQC_TIMEOUT, JOBS, targets)
        rc, out = sh(cmd, cwd=COQ, timeout=COQC_TIMEOUT + 30)
        log.append(out[-4000:])
        return rc == 0, out, 'cd coq && coq_makefile -f _CoqProject -o Makefile && ' + cmd


def coqc(path, timeout=COQC_TIMEOUT):
    cmd = ['timeout', str(timeout), 'coqc', '-Q', THEORIES, 'PJ', '-w', '-all', path]
    env = dict(os.environ)
    rc, out = sh(cmd, cwd=os.path.dirname(path), env=env, timeout=timeout + 30)
    return rc, out


def print_assumptions(prop_module, workdir):
    """Fresh `Print Assumptions` for every theorem stated in Props/<id>.v."""
    src = strip_comments(open(path_of(prop_module)).read())
    names = [m.group(2) for m in THM_RE.finditer(src)]
    path = os.path.join(workdir, 'Assum.v')
    with open(path, 'w') as f:
        f.write('Require Import %s.\n' % prop_module)
        for n in names:
            f.write('Print Assumptions %s.\n' % n)
    rc, out = coqc(path)
    if rc != 0:
        return names, None, out
    chunks = re.split(r'(?m)^(?=Closed under the global context|Axioms:|Section Variables:)', out)
    chunks = [c.strip() for c in chunks if c.strip()]
    return names, chunks, out


def count_obligations(modules):
    n = 0
    per = {}
    for m in modules:
        src = strip_comments(open(path_of(m)).read())
        k = len(THM_RE.findall(src))
        per[m] = k
        n += k
    return n, per


HEADER = '''From Coq Require Import ZArith List String Ascii Bool QArith.
From PJ Require Import Base.Json Base.Res.
Require Import %(corr)s.
Import ListNotations.
Open Scope string_scope.
Set Printing Width 1000000. Set Printing Depth 1000000.
'''


def _split_defs(terms):
    """A term may be (text, {name: definition sentence}) ; returns (texts, merged defs in first-use order)."""
    texts, defs = [], {}
    for t in terms:
        if isinstance(t, tuple):
            texts.append(t[0])
            for k, v in t[1].items():
                defs.setdefault(k, v)
        else:
            texts.append(t)
    return texts, defs


_shard_counter = [0]


def eval_shards(corr_module, case_type, terms, workdir, run_fn='run', extra_imports=''):
    """terms: list of Gallina terms of type case_type.  Returns list of verdict codes (one per case)."""
    shards = [terms[i:i + SHARD] for i in range(0, len(terms), SHARD)]
    paths = []
    for k, sh_terms in enumerate(shards):
        _shard_counter[0] += 1
        p = os.path.join(workdir, 'cases_%d.v' % _shard_counter[0])
        sh_terms, defs = _split_defs(sh_terms)
        with open(p, 'w') as f:
            f.write(HEADER % {'corr': corr_module})
            f.write(extra_imports)
            for d in defs.values():
                f.write(d + '\n')
            f.write('Definition cases : list (%s) := [\n%s\n].\n' % (case_type, ';\n'.join(sh_terms)))
            f.write('Eval vm_compute in (%s.%s cases).\n' % (corr_module, run_fn))
        paths.append(p)
    codes = []
    with cf.ThreadPoolExecutor(max_workers=JOBS) as ex:
        results = list(ex.map(coqc, paths))
    for k, (rc, out) in enumerate(results):
        if rc != 0:
            raise MachineryError('coqc failed on shard %d:\n%s' % (k, out[-3000:]))
        m = re.search(r'=\s*\[(.*?)\]\s*:\s*list nat', out, re.S)
        if not m:
            raise MachineryError('cannot parse coqc output of shard %d:\n%s' % (k, out[-2000:]))
        body = m.group(1).strip()
        vals = [int(x) for x in re.findall(r'\d+', body)] if body else []
        if len(vals) != len(shards[k]):
            raise MachineryError('shard %d: %d verdicts for %d cases' % (k, len(vals), len(shards[k])))
        codes.extend(vals)
    return codes


def eval_show(corr_module, case_type, term, workdir, show_fn='show', extra_imports=''):
    """Second coqc call for a reported index: the model's own observation, printed by Coq, stored verbatim."""
    p = os.path.join(workdir, 'show_%s.v' % hashlib.md5(repr(term).encode()).hexdigest()[:10])
    (term,), defs = _split_defs([term])
    with open(p, 'w') as f:
        f.write(HEADER % {'corr': corr_module})
        f.write(extra_imports)
        for d in defs.values():
            f.write(d + '\n')
        f.write('Definition the_case : %s := %s.\n' % (case_type, term))
        f.write('Eval vm_compute in (%s.%s the_case).\n' % (corr_module, show_fn))
    rc, out = coqc(p)
    return out.strip()[-6000:]


def _sanitize(x):
    import math
    if isinstance(x, float) and not math.isfinite(x):
        return {'__float__': repr(x)}
    if isinstance(x, dict):
        return {(k if isinstance(k, str) else repr(k)): _sanitize(v) for k, v in x.items()}
    if isinstance(x, (list, tuple)):
        return [_sanitize(v) for v in x]
    if isinstance(x, (set, frozenset)):
        return [_sanitize(v) for v in sorted(x, key=repr)]
    if isinstance(x, bytes):
        return {'__bytes__': list(x)}
    if isinstance(x, int) and not isinstance(x, bool) and abs(x) > 2 ** 4000:
        return {'__bigint_digits__': len(str(abs(x)))}
    return x


def jdump(x):
    x = _sanitize(x)

    def default(o):
        if isinstance(o, bytes):
            return {'__bytes__': list(o)}
        if isinstance(o, (set, frozenset)):
            return sorted(o, key=repr)
        if isinstance(o, tuple):
            return list(o)
        return repr(o)
    return json.dumps(x, default=default, ensure_ascii=True, sort_keys=False)


def load_known(pid):
    p = os.path.join(VERIF, 'known_findings.json')
    if not os.path.exists(p):
        return []
    with open(p) as f:
        data = json.load(f)
    return [e for e in data.get('findings', []) if e.get('property') == pid]


def run_property(prop, tier, seed, replay=None):
    """prop: a module from harness/props with the attributes documented in harness/props/README.md."""
    t0 = time.time()
    pid = prop.ID
    workdir = os.path.join(WORK, '%s-%d' % (pid, os.getpid()))
    shutil.rmtree(workdir, ignore_errors=True)
    os.makedirs(workdir)
    os.makedirs(os.path.join(VERIF, 'evidence'), exist_ok=True)
    os.makedirs(os.path.join(VERIF, 'replays'), exist_ok=True)
    log = []
    lines = []  # stdout lines
    try:
        return _run(prop, tier, seed, replay, workdir, log, t0)
    finally:
        shutil.rmtree(workdir, ignore_errors=True)


def _shrink(prop, case, still_bad):
    """Delta-debugging over the list-shaped part of a case, if the property module supports it."""
    shr = getattr(prop, 'shrink_candidates', None)
    if shr is None:
        return case
    budget = 40
    cur = case
    progress = True
    while progress and budget > 0:
        progress = False
        for cand in shr(cur):
            budget -= 1
            if budget <= 0:
                break
            try:
                if still_bad(cand):
                    cur = cand
                    progress = True
                    break
            except Exception:
                continue
    return cur


def _run(prop, tier, seed, replay, workdir, log, t0):
    pid = prop.ID
    corr_module = 'PJ.Corr.%s' % pid
    prop_module = 'PJ.Props.%s' % pid
    known_entries = load_known(pid)
    known_classes = getattr(prop, 'KNOWN_CLASSES', {})  # class name -> index (>=1) used by Corr

    # 1-2. audit gate
    hits = audit()
    if hits:
        raise MachineryError('audit gate: forbidden constructs in the development:\n' + '\n'.join(hits))

    # 3. build: model+corr first (must succeed for any verdict), then the proofs
    ok_corr, out_corr, cmd_corr = build([corr_module], log)
    ok_props, out_props, cmd_props = build([prop_module], log)
    prop_cone = cone([prop_module])
    obligations, per_file = count_obligations(prop_cone)
    assum_names, assum_chunks, assum_raw = ([], None, '')
    discharged = 0
    proof_break = None
    if ok_props:
        assum_names, assum_chunks, assum_raw = print_assumptions(prop_module, workdir)
        if assum_chunks is None or len(assum_chunks) != len(assum_names):
            proof_break = 'Print Assumptions failed:\n' + assum_raw[-2000:]
        else:
            allowed = getattr(prop, 'ALLOWED_AXIOMS', ())
            bad = []
            for n, c in zip(assum_names, assum_chunks):
                if c.startswith('Closed under the global context'):
                    continue
                names = re.findall(r'(?m)^\s*([A-Za-z_][\w.\']*)\s*:', c)
                extra = [a for a in names if a not in allowed]
                if extra or not names:
                    bad.append('%s depends on %s' % (n, c))
            if bad:
                proof_break = 'undeclared assumptions: ' + '; '.join(bad)
            else:
                discharged = obligations
    else:
        m = re.search(r'File "([^"]+)", line (\d+)[^\n]*\n(?:.*\n){0,12}', out_props)
        proof_break = 'build of %s failed: %s' % (prop_module, (m.group(0) if m else out_props[-1500:]).strip())

    coqchk_out = None
    if tier == 'thorough' and ok_props and os.environ.get('VERIF_NO_COQCHK') != '1':
        rc, out = sh('timeout 1500 coqchk -silent -o -Q theories PJ %s' % prop_module, cwd=COQ, timeout=1600)
        coqchk_out = out[-3000:]
        if rc != 0:
            proof_break = (proof_break or '') + ' coqchk failed: ' + out[-1500:]
            discharged = 0

    # 4. generate + observe
    if replay:
        with open(replay) as f:
            rp = json.load(f)
        cases = [prop.case_from_json(rp['case'])] if hasattr(prop, 'case_from_json') else [rp['case']]
        gen_tier = tier
    else:
        gen_tier = tier
        cases = list(prop.generate(seed, tier))

    unrepresentable = {}

    class ObserveFailed:
        def __init__(self, ex):
            self.ex = ex

    def observe_all(cs):
        obs = []
        for c in cs:
            try:
                obs.append(prop.observe(c))
            except Exception as ex:
                # the library raised (or returned something unusable) at a point where the harness only reads what it did:
                # such an observation is outside the model's domain just like an unrepresentable value
                obs.append(ObserveFailed(ex))
        return obs

    def evaluate(cs):
        obs = observe_all(cs)
        if not ok_corr:
            return obs, None
        terms, idx = [], []
        codes = [None] * len(cs)
        for k, (c, o) in enumerate(zip(cs, obs)):
            if isinstance(o, ObserveFailed):
                codes[k] = 7
                unrepresentable[id(c)] = 'the implementation could not be observed: %s: %s' % (type(o.ex).__name__, o.ex)
                continue
            try:
                terms.append(prop.encode(c, o))
                idx.append(k)
            except Exception as ex:
                # what the implementation did cannot even be written down in the model's types (an error code that is
                # not an integer, a message that is not a string, a result that is not a JSON value ...): the typing every
                # property presupposes is broken on this input -> mismatch + property failure + non-trivial
                codes[k] = 7
                unrepresentable[id(c)] = '%s: %s' % (type(ex).__name__, ex)
        got = eval_shards(corr_module, prop.CASE_TYPE, terms, workdir,
                          extra_imports=getattr(prop, 'EXTRA_IMPORTS', '')) if terms else []
        for k, v in zip(idx, got):
            codes[k] = v
        return obs, codes

    obs, codes = evaluate(cases)

    searched = False
    if (not ok_corr) or proof_break or (codes is not None and any(c & 1 for c in codes) and not any((c & 2) and not (c >> 3) for c in codes)):
        # a proof obligation or the correspondence broke without an unlisted failing input in hand: search wider
        if not replay and gen_tier != 'thorough' and ok_corr:
            searched = True
            extra = list(prop.generate(seed, 'thorough'))
            limit = int(os.environ.get('VERIF_SEARCH_LIMIT', '60000'))
            extra = extra[:limit]
            obs2, codes2 = evaluate(extra)
            cases, obs, codes = cases + extra, obs + obs2, codes + codes2

    # 5. classify
    n = len(cases)
    mism = [i for i in range(n) if codes is not None and codes[i] & 1]
    fails = [i for i in range(n) if codes is not None and codes[i] & 2]
    nontriv = [i for i in range(n) if codes is not None and codes[i] & 4]
    known_hit = {}
    unlisted = []
    listed_class_names = {e['class'] for e in known_entries if e.get('status') == 'known'}
    idx_to_class = {v: k for k, v in known_classes.items()}
    for i in fails:
        k = codes[i] >> 3
        cname = idx_to_class.get(k)
        if k and cname in listed_class_names:
            known_hit.setdefault(cname, []).append(i)
        else:
            unlisted.append(i)

    keyf = getattr(prop, 'case_key', lambda c: jdump(c))
    distinct_nontrivial = len({keyf(cases[i]) for i in nontriv})

    out_lines = []
    violations = 0
    replay_paths = []

    def write_replay(tag, payload):
        p = os.path.join(VERIF, 'replays', '%s-%s-%s.json' % (pid, seed, tag))
        with open(p, 'w') as f:
            f.write(jdump(payload))
        return p

    def show(i):
        if not ok_corr:
            return None
        try:
            return eval_show(corr_module, prop.CASE_TYPE, prop.encode(cases[i], obs[i]), workdir,
                             extra_imports=getattr(prop, 'EXTRA_IMPORTS', ''))
        except Exception as ex:
            return 'observation not representable in the model: %r' % (ex,)

    if unlisted:
        i0 = unlisted[0]
        case0 = cases[i0]

        def still_bad(c):
            try:
                o = prop.observe(c)
                t = prop.encode(c, o)
            except Exception:
                return id(case0) in unrepresentable
            if id(case0) in unrepresentable:
                return False
            cs = eval_shards(corr_module, prop.CASE_TYPE, [t], workdir,
                             extra_imports=getattr(prop, 'EXTRA_IMPORTS', ''))
            return bool(cs[0] & 2) and (cs[0] >> 3) == (codes[i0] >> 3)
        small = _shrink(prop, case0, still_bad)
        o_small = None
        try:
            o_small = prop.observe(small)
            model_txt = eval_show(corr_module, prop.CASE_TYPE, prop.encode(small, o_small), workdir,
                                  extra_imports=getattr(prop, 'EXTRA_IMPORTS', ''))
            what = 'the Coq predicate ok (the property, as stated in Corr/%s.v) is false on what the implementation did' % pid
            kind = 'property-failure-on-implementation'
        except Exception as ex:
            model_txt = None
            what = ('the implementation\'s observable behaviour on this input lies outside the types of the formal model '
                    '(%s: %s): e.g. an error code that is not an integer, a message that is not a string, a value that is not '
                    'JSON - the well-typedness the property presupposes is violated' % (type(ex).__name__, ex))
            kind = 'implementation-observation-outside-model-domain'
        p = write_replay('fail', {
            'property': pid, 'kind': kind,
            'case': small, 'impl_observation': o_small,
            'model': model_txt,
            'original_case': case0, 'other_failing_cases': len(unlisted) - 1,
            'what': what,
        })
        out_lines.append('VIOLATION property=%s replay=%s' % (pid, p))
        violations = len(unlisted)
        replay_paths.append(p)
    elif mism or proof_break or not ok_corr:
        what = []
        if not ok_corr:
            what.append('model/correspondence module %s no longer builds: %s' % (corr_module, out_corr[-1500:]))
        if proof_break:
            what.append('proof obligation: ' + proof_break)
        payload = {'property': pid, 'kind': 'tie-broken-no-failing-input', 'what': what,
                   'searched_thorough': searched, 'cases_evaluated': n}
        if mism:
            i0 = mism[0]
            payload.update({'correspondence': 'Corr/%s.v: model <> implementation' % pid,
                            'case': cases[i0], 'impl_observation': obs[i0], 'model': show(i0),
                            'mismatching_cases': len(mism)})
        p = write_replay('tie', payload)
        out_lines.append('VIOLATION property=%s replay=%s no-failing-input-found' % (pid, p))
        violations = max(1, len(mism))
        replay_paths.append(p)

    # known findings: replay each stored witness on the current tree
    for e in known_entries:
        if e.get('status') != 'known':
            continue
        w = e.get('witness')
        still = None
        if w is not None and ok_corr:
            try:
                wc = prop.case_from_json(w) if hasattr(prop, 'case_from_json') else w
                o = prop.observe(wc)
                cs = eval_shards(corr_module, prop.CASE_TYPE, [prop.encode(wc, o)], workdir,
                                 extra_imports=getattr(prop, 'EXTRA_IMPORTS', ''))
                still = bool(cs[0] & 2)
            except Exception as ex:  # witness no longer runnable
                still = None
                log.append('known witness failed to run: %r' % (ex,))
        if still or (still is None and e['class'] in known_hit):
            out_lines.append('KNOWN-FINDING: property=%s %s' % (pid, e.get('what', e['class'])))

    # 6. evidence
    try:
        dist = prop.distribution(cases, obs) if hasattr(prop, 'distribution') else {}
    except Exception as ex:  # an observation of an unexpected shape must not turn a verdict into a machinery error
        dist = {'distribution unavailable': repr(ex)}
    samples = []
    step = max(1, n // 5)
    for i in list(range(0, n, step))[:5]:
        samples.append({'case': cases[i], 'impl_observation': obs[i], 'verdict_code': codes[i] if codes else None})
    ev = {
        'property_id': pid, 'tier': tier, 'seed': seed, 'level': 'proof',
        'coverage': {
            'obligations': obligations, 'discharged': discharged,
            'checker_cmd': cmd_props + ' ; coqc Assum.v (Print Assumptions of %s)' % ', '.join(assum_names)
                           + (' ; coqchk -silent -o -Q theories PJ %s' % prop_module if coqchk_out is not None else ''),
            'trusted_base': list(getattr(prop, 'TRUSTED_BASE', [])) + [
                'Coq 8.16.1 kernel + vm_compute (no native_compute)',
                'harness/lib/coqterm.py term printer, harness/lib/gen_consts.py constants generator',
                'hand-written Gallina model tied to the code only by the correspondence run below'],
            'obligations_per_file': per_file,
            'print_assumptions': dict(zip(assum_names, assum_chunks)) if assum_chunks and len(assum_chunks) == len(assum_names) else assum_raw[-1500:],
            'evaluations': n,
            'distinct_nontrivial': distinct_nontrivial,
            'rule': getattr(prop, 'RULE', ''),
            'samples': json.loads(jdump(samples)),
            'exhaustive': bool(getattr(prop, 'EXHAUSTIVE', {}).get(tier, False)) and not replay,
            'traces_validated_against_impl': n - len(mism),
            'mismatches': len(mism), 'property_failures': len(fails),
            'known_findings_seen': {k: len(v) for k, v in known_hit.items()},
            'distribution': json.loads(jdump(dist)),
            'searched_thorough_after_break': searched,
        },
        'assumptions': list(getattr(prop, 'ASSUMPTIONS', [])),
        'wall_s': round(time.time() - t0, 2),
        'violations': violations,
    }
    if coqchk_out is not None:
        ev['coverage']['coqchk'] = coqchk_out
    if not replay:
        evdir = os.environ.get('VERIF_EVIDENCE_DIR') or os.path.join(VERIF, 'evidence')   # seeded-change runs write elsewhere
        os.makedirs(evdir, exist_ok=True)
        with open(os.path.join(evdir, '%s.json' % pid), 'w') as f:
            json.dump(ev, f, indent=1)
    for l in out_lines:
        print(l)
    print('%s tier=%s seed=%s cases=%d nontrivial=%d mismatches=%d property_failures=%d known=%s obligations=%d/%d wall=%.1fs'
          % (pid, tier, seed, n, distinct_nontrivial, len(mism), len(fails),
             {k: len(v) for k, v in known_hit.items()}, discharged, obligations, time.time() - t0))
    return 1 if violations else 0
