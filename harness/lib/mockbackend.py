"""Two minimal client backends for the pytest-mocker property (C20): the mocker patches their `_request`."""
from pjrpc.client import AbstractAsyncClient, AbstractClient


class SyncBackend(AbstractClient):
    def __init__(self, endpoint, **kw):
        super().__init__(**kw)
        self._endpoint = endpoint

    def _request(self, request_text, is_notification=False, **kwargs):
        return 'PASSTHROUGH'


class AsyncBackend(AbstractAsyncClient):
    def __init__(self, endpoint, **kw):
        super().__init__(**kw)
        self._endpoint = endpoint

    async def _request(self, request_text, is_notification=False, **kwargs):
        return 'PASSTHROUGH'
