"""Scripted-transport clients (sync and async) and the Gallina printers of the client-side observations."""
import asyncio
import json

import pjrpc
from pjrpc.client import AbstractAsyncClient, AbstractClient
from pjrpc.common import UNSET

from .coqterm import cjson, cstr, cexn, clist, copt, cZ, cbool
from .dispenv import cparams, cid, loop

CLIENT_IMPORTS = 'From PJ Require Import Model.Msg Model.Client Corr.ClientCommon.\n'


class Script:
    """What the transport does on each successive _request: ('text', str|None) | ('raise', exception instance) |
    ('serve', callable(text) -> str|None)."""

    def __init__(self, steps):
        self.steps = list(steps)
        self.sent = []

    def step(self, text, is_notification):
        self.sent.append((text, is_notification))
        if not self.steps:
            raise AssertionError('transport script exhausted')
        kind, arg = self.steps.pop(0)
        if kind == 'raise':
            raise arg
        if kind == 'serve':
            return arg(text)
        return arg


class SyncClient(AbstractClient):
    def __init__(self, script, **kw):
        super().__init__(**kw)
        self.script = script

    def _request(self, request_text, is_notification=False, **kwargs):
        return self.script.step(request_text, is_notification)


class AsyncClient(AbstractAsyncClient):
    def __init__(self, script, **kw):
        super().__init__(**kw)
        self.script = script

    async def _request(self, request_text, is_notification=False, **kwargs):
        r = self.script.step(request_text, is_notification)
        if asyncio.iscoroutine(r):
            r = await r
        return r


def make_client(is_async, script, **kw):
    return (AsyncClient if is_async else SyncClient)(script, **kw)


def run(is_async, thunk, at_return=None):
    """thunk() returns a value or a coroutine; returns ('ok', value) | ('raise', exc) - BaseException included.
    at_return() is called at the very moment the client call returns or raises - for a coroutine that is INSIDE the
    event loop, before control goes back to it (so work a callee left scheduled on the loop has not run yet)."""
    try:
        r = thunk()
        if is_async and asyncio.iscoroutine(r):
            async def wrapper(co):
                try:
                    return await co
                finally:
                    if at_return:
                        at_return()
            r = loop().run_until_complete(wrapper(r))
        elif at_return:
            at_return()
        return ('ok', r)
    except BaseException as e:  # noqa
        if at_return and not (is_async):
            at_return()
        return ('raise', e)


def body_text(b):
    if b[0] == 'none':
        return None
    if b[0] == 'empty':
        return ''
    if b[0] == 'garbage':
        return b[1]
    return json.dumps(b[1])


def cbody(b):
    if b[0] in ('none', 'empty'):
        return 'BNone'
    if b[0] == 'garbage':
        return 'BGarbage'
    return '(BJson %s)' % cjson(b[1])


def show_error(e):
    d = {'code': e.code, 'message': e.message}
    if e.data is not UNSET:
        d['data'] = e.data
    d['class'] = type(e).__name__
    return d


def show_request(r):
    return None if r is None else {'method': r.method, 'params': r.params, 'id': r.id}


def show_response(r):
    if r.is_error:
        return {'id': r.id, 'error': show_error(r.error)}
    return {'id': r.id, 'result': r._result}


def show_outcome(o):
    """('ok', v) | ('raise', exc) -> the JSON rendering used by Corr (show_cres)."""
    if o[0] == 'ok':
        return {'ok': o[1]}
    e = o[1]
    if isinstance(e, pjrpc.exceptions.JsonRpcError):
        return {'raise': show_error(e)}
    if isinstance(e, json.JSONDecodeError):
        return {'raise': 'JSONDecodeError'}
    return {'raise': 'exception'}


def crpc_error(e):
    return ('{| e_code := %s; e_msg := %s; e_data := %s; e_class := %s |}'
            % (cZ(e.code), cstr(e.message), 'None' if e.data is UNSET else '(Some %s)' % cjson(e.data), cstr(type(e).__name__)))


def ccexn(e):
    if isinstance(e, pjrpc.exceptions.JsonRpcError):
        return '(CRpc %s)' % crpc_error(e)
    if isinstance(e, json.JSONDecodeError):
        return 'CDecode'
    return '(CX %s)' % cexn(e)


def ccres(o, f=cjson):
    return '(COk %s)' % f(o[1]) if o[0] == 'ok' else '(CRaise %s)' % ccexn(o[1])


def crequest(r):
    """r: dict method/params/id (params None | list | dict)."""
    return '{| r_method := %s; r_params := %s; r_id := %s |}' % (cstr(r['method']), cparams(r.get('params')), cid(r.get('id')))


def mk_request(r):
    return pjrpc.Request(r['method'], r.get('params'), id=r.get('id'))
