"""Application error classes defined by the harness the way a user of the library defines them: subclassing JsonRpcError with a
class-level code registers the class for that code (so that typed `except` clauses work on the client side).  Imported by every
check process before anything is observed; Generated/Consts.v lists them in error_registry FROM THEIR DEFINITIONS (not from
the library's live mapping), so a registration that does not happen shows up as a difference between model and implementation."""
import pjrpc


class HarnessZeroError(pjrpc.exceptions.JsonRpcError):
    code = 0
    message = 'zero error'


class HarnessAppError(pjrpc.exceptions.JsonRpcError):
    code = 3001
    message = 'app error'


CLASSES = [HarnessZeroError, HarnessAppError]
