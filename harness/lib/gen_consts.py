"""Regenerates coq/theories/Generated/Consts.v from the live pjrpc working tree (fail-closed)."""
import os
import sys

from .coqterm import cstr, cZ, clist, cbool


class BrokenTie(Exception):
    pass


def _expect(cond, what):
    if not cond:
        raise BrokenTie(what)


def generate():
    import pjrpc
    import pjrpc.common
    from pjrpc.common import exceptions as exc
    out = []
    w = out.append
    w('(* GENERATED on every run by harness/lib/gen_consts.py from the live pjrpc tree. Do not edit. *)')
    w('From Coq Require Import ZArith List String Ascii Bool.')
    w('From PJ Require Import Base.Json.')
    w('Import ListNotations.')
    w('Open Scope string_scope.')
    # error registry: the classes pjrpc itself defines, read from the live mapping, and the application classes of
    # harness/lib/usererrors.py, taken from their DEFINITIONS (defining a subclass with a code is what registers it)
    from . import usererrors
    mapping = exc.JsonRpcErrorMeta.__errors_mapping__
    own = []
    for cls in usererrors.CLASSES:
        own.append((cls.code, cls.__name__, cls.message, [b.__name__ for b in cls.__mro__[1:] if issubclass(b, exc.BaseError)]))
    for code, cls in sorted(mapping.items()):
        if cls.__module__ != 'pjrpc.common.exceptions':
            continue
        _expect(isinstance(code, int) and not isinstance(code, bool), 'registry code %r' % (code,))
        _expect(isinstance(cls.message, str), 'class message %r' % (cls.message,))
        _expect(cls.code == code, 'registry key %r differs from class code %r' % (code, cls.code))
        own.append((code, cls.__name__, cls.message, [b.__name__ for b in cls.__mro__[1:] if issubclass(b, exc.BaseError)]))
    w('Definition error_registry : list (Z * string) := %s.' % clist('(%s, %s)' % (cZ(c), cstr(n)) for c, n, _, _ in own))
    w('Definition error_messages : list (string * (Z * string)) := %s.'
      % clist('(%s, (%s, %s))' % (cstr(n), cZ(c), cstr(m)) for c, n, m, _ in own))
    w('Definition error_bases : list (string * list string) := %s.'
      % clist('(%s, %s)' % (cstr(n), clist(cstr(b) for b in bases)) for _, n, _, bases in own))
    for name in ('ParseError', 'InvalidRequestError', 'MethodNotFoundError', 'InvalidParamsError', 'InternalError', 'ServerError'):
        cls = getattr(exc, name, None)
        _expect(cls is not None and isinstance(cls.code, int) and isinstance(cls.message, str), 'class %s' % name)
        w('Definition %s_code : Z := %s.' % (name, cZ(cls.code)))
        w('Definition %s_message : string := %s.' % (name, cstr(cls.message)))
    _expect(exc.JsonRpcError.code is None and exc.JsonRpcError.message is None, 'JsonRpcError defaults')
    _expect(issubclass(exc.DeserializationError, ValueError) and issubclass(exc.DeserializationError, exc.BaseError), 'DeserializationError bases')
    _expect(issubclass(exc.IdentityError, exc.BaseError) and not issubclass(exc.IdentityError, ValueError), 'IdentityError bases')
    w('Definition request_version : string := %s.' % cstr(pjrpc.Request.version))
    w('Definition response_version : string := %s.' % cstr(pjrpc.Response.version))
    w('Definition batch_request_version : string := %s.' % cstr(pjrpc.BatchRequest.version))
    w('Definition batch_response_version : string := %s.' % cstr(pjrpc.BatchResponse.version))
    for nm in ('REQUEST_CONTENT_TYPES', 'RESPONSE_CONTENT_TYPES'):
        v = getattr(pjrpc.common, nm)
        _expect(isinstance(v, (tuple, list)) and all(isinstance(x, str) for x in v), nm)
        w('Definition %s : list string := %s.' % (nm.lower(), clist(cstr(x) for x in v)))
    _expect(isinstance(pjrpc.common.DEFAULT_CONTENT_TYPE, str), 'DEFAULT_CONTENT_TYPE')
    w('Definition default_content_type : string := %s.' % cstr(pjrpc.common.DEFAULT_CONTENT_TYPE))
    # constructor defaults the properties mention
    import inspect
    from pjrpc.client import client as cl
    from pjrpc.server import dispatcher as dp
    sig = inspect.signature(cl.AbstractClient.__init__)
    _expect(isinstance(sig.parameters['strict'].default, bool), 'client strict default')
    w('Definition client_strict_default : bool := %s.' % cbool(sig.parameters['strict'].default))
    sig = inspect.signature(dp.AsyncDispatcher.__init__)
    _expect(isinstance(sig.parameters['concurrent_batch'].default, bool), 'concurrent_batch default')
    w('Definition concurrent_batch_default : bool := %s.' % cbool(sig.parameters['concurrent_batch'].default))
    _expect(sig.parameters['max_batch_size'].default is None, 'max_batch_size default')
    w('Definition max_batch_size_default : option Z := None.')
    # retry / backoff dataclass defaults
    from pjrpc.client import retry
    import dataclasses

    def q(x):
        from fractions import Fraction
        f = Fraction(x)
        return '(%d, %d)%%Z' % (f.numerator, f.denominator)
    for cls in (retry.PeriodicBackoff, retry.ExponentialBackoff, retry.FibonacciBackoff):
        for f in dataclasses.fields(cls):
            d = f.default
            if d is dataclasses.MISSING:
                continue
            nm = '%s_%s_default' % (cls.__name__, f.name)
            if d is None:
                w('Definition %s : option (Z * Z) := None.' % nm)
            elif isinstance(d, bool):
                w('Definition %s : bool := %s.' % (nm, cbool(d)))
            elif isinstance(d, (int, float)):
                w('Definition %s : (Z * Z) := %s.' % (nm, q(d)))
            elif callable(d):
                v = d()
                _expect(isinstance(v, (int, float)), nm)
                w('Definition %s : (Z * Z) := %s.' % (nm, q(v)))
            else:
                raise BrokenTie('unexpected default %r for %s' % (d, nm))
    from pjrpc.server.specs import openapi
    _expect(isinstance(openapi.HTTP_DEFAULT_STATUS, int), 'HTTP_DEFAULT_STATUS')
    w('Definition http_default_status : Z := %s.' % cZ(openapi.HTTP_DEFAULT_STATUS))
    _expect(isinstance(openapi.JSONRPC_MEDIATYPE, str), 'JSONRPC_MEDIATYPE')
    w('Definition jsonrpc_mediatype : string := %s.' % cstr(openapi.JSONRPC_MEDIATYPE))
    # truthiness facts the asynchronous batch filter (`if resp`) relies on, read from the live classes
    from pjrpc.common import UNSET, Response
    truthy = not any(hasattr(Response, a) for a in ('__bool__', '__len__'))
    w('Definition response_always_truthy : bool := %s.' % cbool(truthy))
    w('Definition unset_is_falsy : bool := %s.' % cbool(not bool(UNSET)))
    # the twin code paths: source text of the synchronous half equals the asynchronous half once `async ` / `await ` and
    # the sleep primitive are erased (a syntactic fact about the current tree; False does not break a proof by itself,
    # it only removes one supporting fact from the evidence)
    import re
    from pjrpc.client import retry as _retry

    def norm(f):
        src = inspect.getsource(f)
        src = re.sub(r'\basync\s+|\bawait\s+', '', src)
        src = src.replace('asyncio.sleep', 'SLEEP').replace('time.sleep', 'SLEEP').replace('retry_async', 'retry')
        src = re.sub(r'"""[\s\S]*?"""', '', src)
        src = src.replace('Awaitable[AbstractResponse]', 'AbstractResponse').replace('Asynchronous', 'Synchronous')
        return re.sub(r'\s+', ' ', src)
    w('Definition retry_twins_textually_equal : bool := %s.' % cbool(norm(_retry.retry) == norm(_retry.retry_async)))
    return '\n'.join(out) + '\n'


def write(path):
    text = generate()
    old = None
    if os.path.exists(path):
        with open(path) as f:
            old = f.read()
    if old != text:
        os.makedirs(os.path.dirname(path), exist_ok=True)
        with open(path, 'w') as f:
            f.write(text)
        return True
    return False


if __name__ == '__main__':
    sys.stdout.write(generate())
