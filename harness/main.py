import argparse
import importlib
import logging
import os
import sys
import traceback


def main():
    ap = argparse.ArgumentParser()
    ap.add_argument('prop')
    ap.add_argument('--tier', default=os.environ.get('VERIF_TIER') or 'quick', choices=['quick', 'thorough'])
    ap.add_argument('--replay')
    a = ap.parse_args()
    seed = int(os.environ.get('VERIF_SEED') or 0)
    logging.disable(logging.CRITICAL)
    from harness.lib import usererrors  # noqa: F401  (application error classes, registered before anything is observed)
    from harness.lib import runner
    if a.prop == 'build':
        log = []
        mods = [runner.module_of(p) for p in runner.all_v_files()]
        hits = runner.audit()
        if hits:
            print('ERROR audit gate:\n' + '\n'.join(hits))
            return 2
        ok, out, cmd = runner.build(mods, log)
        print(out[-3000:])
        return 0 if ok else 2
    try:
        prop = importlib.import_module('harness.props.%s' % a.prop.lower())
        return runner.run_property(prop, a.tier, seed, a.replay)
    except runner.MachineryError as e:
        print('ERROR machinery: %s' % e)
        return 2
    except Exception:
        traceback.print_exc()
        print('ERROR machinery: unexpected exception')
        return 2


if __name__ == '__main__':
    sys.exit(main())
