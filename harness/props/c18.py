"""C18 - HTTP integrations relay the dispatcher's verdict unchanged."""
import asyncio
import itertools
import json
import random

import flask
import werkzeug.test
from aiohttp import test_utils as aio_test

import pjrpc
from pjrpc.server import Dispatcher
from pjrpc.server.integration import aiohttp as i_aiohttp
from pjrpc.server.integration import flask as i_flask
from pjrpc.server.integration import werkzeug as i_werkzeug

from harness.lib.coqterm import cjson, cstr, clist, copt, cZ
from harness.lib.dispenv import loop

ID = 'C18'
CASE_TYPE = 'C18.case'
EXTRA_IMPORTS = 'From PJ Require Import Model.Http.\n'
RULE = ('integrations {aiohttp, flask, werkzeug} through their own test clients x Content-Type values (each documented type, with a '
        'charset parameter, upper / mixed case, spaces around, trailing ";", near misses application/jsonx, application/json-rpc2, '
        'application/foo+json, application/x-json, text/plain, the empty string, header missing) x bodies (call, call answered with an '
        'error, call raising, unknown method, calls whose parameters do not bind, notification, batches (mixed with a notification, all succeeding, all failing, succeeding and failing mixed), all-notification batch, invalid request, non-JSON text, a BOM-prefixed call / notification, non-UTF-8 '
        'bytes) x status-by-error functions (default, a code table, a table answering 207 when nothing failed, one answering 200 / 207 / 400 for none / some / all calls failed, one depending on the number of answered calls, one looking the whole tuple up in a dict) x endpoints (main, an added endpoint with its own methods). The '
        'dispatcher verdict for each body is obtained independently from a plain Dispatcher with the same methods. distinct = distinct '
        '(integration, header, body, status function, endpoint); non-trivial = the media type is a documented one')
EXHAUSTIVE = {'quick': False, 'thorough': True}
TRUSTED_BASE = ['aiohttp / flask / werkzeug request parsing (content type, body decoding) and their test clients']
ASSUMPTIONS = ['header values are structured (token/token plus optional parameters); the frameworks\' corner-case grammars are not exercised']

HEADERS = ['application/json', 'application/json-rpc', 'application/jsonrequest', 'application/json; charset=utf-8',
           'application/json-rpc;charset=UTF-8', 'APPLICATION/JSON', 'Application/Json-Rpc; Charset=utf-8', ' application/json ',
           'application/json;', 'application/jsonrequest ; q=1', 'application/jsonx', 'application/json-rpc2', 'application/foo+json',
           'application/x-json', 'text/plain', 'text/json', '', None, 'application/jsonrequests', 'json']
BODIES = {
    'call': b'{"jsonrpc":"2.0","id":1,"method":"add","params":[1,2]}',
    'err': b'{"jsonrpc":"2.0","id":"e","method":"fail"}',
    'boom': b'{"jsonrpc":"2.0","id":3,"method":"boom"}',
    'unknown': b'{"jsonrpc":"2.0","id":4,"method":"nosuch"}',
    'badparams': b'{"jsonrpc":"2.0","id":5,"method":"add","params":[1]}',          # does not bind: -32602 with a data member
    'badnamed': b'{"jsonrpc":"2.0","id":6,"method":"add","params":{"a":1,"zz":2}}',
    'note': b'{"jsonrpc":"2.0","method":"add","params":[1,2]}',
    'batch': b'[{"jsonrpc":"2.0","id":1,"method":"add","params":[1,2]},{"jsonrpc":"2.0","method":"add","params":[3,4]},{"jsonrpc":"2.0","id":2,"method":"fail"}]',
    'batchok': b'[{"jsonrpc":"2.0","id":1,"method":"add","params":[1,2]},{"jsonrpc":"2.0","id":2,"method":"add","params":[3,4]}]',
    'batchbad': b'[{"jsonrpc":"2.0","id":1,"method":"boom"},{"jsonrpc":"2.0","id":2,"method":"fail"},{"jsonrpc":"2.0","id":3,"method":"nosuch"}]',
    'batchmix': b'[{"jsonrpc":"2.0","id":"a","method":"add","params":["x",1]},{"jsonrpc":"2.0","id":"b","method":"add","params":{"a":1,"b":2}},{"jsonrpc":"2.0","id":"c","method":"nosuch"}]',
    'notes': b'[{"jsonrpc":"2.0","method":"add","params":[1,2]},{"jsonrpc":"2.0","method":"boom"}]',
    'invalid': b'{"jsonrpc":"2.0"}',
    'garbage': b'{nope',
    'nonutf8': b'\xff\xfe{"jsonrpc":"2.0","id":1,"method":"add","params":[1,2]}',
    'unicode': '{"jsonrpc":"2.0","id":1,"method":"add","params":["é","中"]}'.encode('utf-8'),
    # a byte order mark in front of an otherwise valid call / notification: decodes as UTF-8, and the dispatcher's verdict on the
    # decoded text (not JSON: -32700) is what must be relayed
    'bom': b'\xef\xbb\xbf{"jsonrpc":"2.0","id":1,"method":"add","params":[1,2]}',
    'bomnote': b'\xef\xbb\xbf{"jsonrpc":"2.0","method":"add","params":[1,2]}',
}
STATUS = {'default': None, 'table': ([(-32601, 404), (7, 422), (-32700, 409)], 500, 200),
          # a function that does not answer 200 when nothing failed (a gateway reporting 207 / 202)
          'table207': ([(-32601, 404), (7, 422)], 500, 207),
          # functions that look at the successes too and at the number of answered calls
          'mixed': ('mixed', 400, 207, 200), 'count': ('count', 200),
          # a lookup keyed by the tuple itself (the parameter is documented as Tuple[int, ...]: hashable, equal to a tuple)
          'exact': ('exact', [((0,), 201), ((7,), 422), ((-32601,), 404), ((0, 7), 207), ((0, 0), 202), ((-32000, 7, -32601), 502),
                              ((-32602, 0, -32601), 207), ((-32602,), 400)], 418)}


def status_fn(kind):
    if kind == 'default':
        return None
    if STATUS[kind][0] == 'mixed':
        _, allfail, partial, allok = STATUS[kind]
        return lambda codes: allok if all(c == 0 for c in codes) else partial if any(c == 0 for c in codes) else allfail
    if STATUS[kind][0] == 'count':
        return lambda codes: STATUS[kind][1] + len(codes)
    if STATUS[kind][0] == 'exact':
        table = dict(STATUS[kind][1])
        return lambda codes: table.get(codes, STATUS[kind][2]) if codes != list(codes) else 599
    table, other, allok = STATUS[kind]

    def f(codes):
        for c in codes:
            if c != 0:
                return dict(table).get(c, other)
        return allok
    return f


def register(disp, calls, tag=''):
    def add(a, b):
        calls.append('add' + tag)
        return [tag, a, b] if tag else a + b if isinstance(a, int) else [a, b]

    def fail():
        calls.append('fail' + tag)
        raise pjrpc.exceptions.JsonRpcError(code=7, message='seven', data={'k': 1})

    def boom():
        calls.append('boom' + tag)
        raise RuntimeError('x')
    disp.add(add)
    disp.add(fail)
    disp.add(boom)


def generate(seed, tier):
    rnd = random.Random(seed)
    cases = []
    for integ in ('aiohttp', 'flask', 'werkzeug'):
        for h in HEADERS:
            for b in BODIES:
                for st in STATUS:
                    for ep in ('main', 'extra'):
                        if integ == 'werkzeug' and ep == 'extra':
                            continue
                        if tier == 'quick' and rnd.random() < 0.6 and not (h in HEADERS[:4] and b in ('call', 'err')):
                            continue
                        cases.append({'integ': integ, 'header': h, 'body': b, 'status': st, 'ep': ep})
    return cases


class Env:
    """One application per (integration, status function), reused across cases."""

    def __init__(self, integ, st):
        self.integ, self.calls = integ, []
        kw = {}
        if status_fn(st) is not None:
            kw['status_by_error'] = status_fn(st)
        if integ == 'aiohttp':
            self.app = i_aiohttp.Application('/api', **kw)
            register(self.app.dispatcher, self.calls)
            register(self.app.add_endpoint('/v2'), self.calls, 'X')
            self.client = aio_test.TestClient(aio_test.TestServer(self.app.app, loop=loop()), loop=loop())
            loop().run_until_complete(self.client.start_server())
        elif integ == 'flask':
            self.rpc = i_flask.JsonRPC('/api', **kw)
            register(self.rpc.dispatcher, self.calls)
            register(self.rpc.add_endpoint('/v2'), self.calls, 'X')
            self.flask_app = flask.Flask('c18_%s' % st)
            self.rpc.init_app(self.flask_app)
            self.client = self.flask_app.test_client()
        else:
            self.app = i_werkzeug.JsonRPC('/api')
            register(self.app.dispatcher, self.calls)
            self.client = werkzeug.test.Client(self.app)

    def post(self, ep, header, data):
        path = '/api' + ('/v2' if ep == 'extra' else '')
        del self.calls[:]
        if self.integ == 'aiohttp':
            async def go():
                headers = {} if header is None else {'Content-Type': header}
                skip = ['Content-Type'] if header is None else None
                async with self.client.post(path, data=data, headers=headers, skip_auto_headers=skip) as r:
                    return r.status, r.headers.get('Content-Type'), await r.read()
            status, ctype, body = loop().run_until_complete(go())
        else:
            try:
                r = self.client.post(path, data=data, content_type=header) if header is not None else self.client.post(path, data=data)
                status, ctype, body = r.status_code, r.headers.get('Content-Type'), r.get_data()
            except Exception:       # an exception escaped the WSGI application instead of becoming a response
                status, ctype, body = 599, None, b''
        return status, ctype, body, list(self.calls)

    def close(self):
        if self.integ == 'aiohttp':
            loop().run_until_complete(self.client.close())


_envs = {}


def env(integ, st):
    if (integ, st) not in _envs:
        _envs[(integ, st)] = Env(integ, st)
    return _envs[(integ, st)]


def independent(body_key, ep):
    data = BODIES[body_key]
    try:
        text = data.decode('utf-8')
    except UnicodeDecodeError:
        return ('undecodable',), 0
    calls = []
    d = Dispatcher()
    register(d, calls, 'X' if ep == 'extra' else '')
    r = d.dispatch(text)
    if r is None:
        return ('none',), len(calls)
    return ('some', json.loads(r[0]), list(r[1])), len(calls)


def observe(case):
    e = env(case['integ'], case['status'])
    status, ctype, body, calls = e.post(case['ep'], case['header'], BODIES[case['body']])
    mt = None if ctype is None else ctype.split(';')[0].strip().lower()
    try:
        doc = json.loads(body) if body else None
    except ValueError:
        doc = {'<non-json body>': body[:200].decode('latin-1')}
    if status in (400, 415) and not (isinstance(doc, (dict, list)) and mt == 'application/json'):
        doc, mt = None, None          # framework-generated error pages are not part of the contract
    return {'status': status, 'ctype': mt, 'body': doc, 'calls': len(calls), 'ind': independent(case['body'], case['ep'])}


def canon(doc):
    from harness.lib.dispenv import canon_doc
    return canon_doc(doc)


def encode(case, obs):
    integ = {'aiohttp': 'IAiohttp', 'flask': 'IFlask', 'werkzeug': 'IWerkzeug'}[case['integ']]
    if case['status'] == 'default':
        sfn = 'SDefault'
    elif STATUS[case['status']][0] == 'mixed':
        sfn = '(SMixed %s %s %s)' % tuple(cZ(x) for x in STATUS[case['status']][1:])
    elif STATUS[case['status']][0] == 'count':
        sfn = '(SCount %s)' % cZ(STATUS[case['status']][1])
    elif STATUS[case['status']][0] == 'exact':
        sfn = '(SExact %s %s)' % (clist('(%s, %s)' % (clist(cZ(c) for c in k), cZ(v)) for k, v in STATUS[case['status']][1]), cZ(STATUS[case['status']][2]))
    else:
        table, other, allok = STATUS[case['status']]
        sfn = '(SFirstError %s %s %s)' % (clist('(%s, %s)' % (cZ(a), cZ(b)) for a, b in table), cZ(other), cZ(allok))
    ind, ncalls = obs['ind']
    if ind[0] == 'undecodable':
        b = 'BUndecodable'
    elif ind[0] == 'none':
        b = '(BText None)'
    else:
        b = '(BText (Some (%s, %s)))' % (cjson(canon(ind[1])), clist(cZ(c) for c in ind[2]))
    o = ('{| o_status := %s; o_ctype := %s; o_body := %s; o_calls := %d%%nat |}'
         % (cZ(obs['status']), copt(obs['ctype'], cstr), copt(None if obs['body'] is None else canon(obs['body']), cjson), obs['calls']))
    return ('{| integ := %s; sfn := %s; header := %s; bdy := %s; expected_calls := %d%%nat; observed := %s |}'
            % (integ, sfn, copt(case['header'], cstr), b, ncalls, o))


def case_key(case):
    return json.dumps(case, sort_keys=True)


def case_from_json(c):
    return c


def distribution(cases, obs):
    d = {}
    for c, o in zip(cases, obs):
        k = '%s status=%d' % (c['integ'], o['status'])
        d[k] = d.get(k, 0) + 1
    return d
