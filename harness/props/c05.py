"""C05 - messages survive the wire."""
import itertools
import json
import random

import pjrpc
from pjrpc.common import BatchRequest, BatchResponse, Request, Response, UNSET

from harness.lib.coqterm import cjson, cstr, cexn, clist, copt, cZ
from harness.lib import gens
from harness.props.c06 import cid, show_error, show_request, show_response

ID = 'C05'
CASE_TYPE = 'C05.case'
EXTRA_IMPORTS = 'From PJ Require Import Model.Msg.\n'
RULE = ('messages built through the public constructors: requests (methods x params spellings None/()/[]/{}/values x ids), '
        'errors (base class and the six typed classes x explicit/default code and message incl. 0 and "" x data absent/null/values), '
        'responses (ids x results/errors), request batches of length 0..5 with distinct ids, response batches of length 0..5, '
        'batch-level errors; every message is pushed through json.dumps (both to_json() and the library encoder on the object) '
        'and json.loads, deserialised, serialised again; before each observed round trip the same round trip is done once and every object and container it produced is modified in place; before each serialisation the message is compared with an equal one, printed, measured and iterated, and a batch is twice offered a copy of its first message (refused: same id). distinct = distinct constructor arguments; non-trivial = not a bare '
        'parameterless notification / empty batch')
EXHAUSTIVE = {'quick': False, 'thorough': False}
TRUSTED_BASE = ['json.dumps/json.loads (stdlib codec, exercised on every case; loads(dumps v) = v assumed for values within the int digit limit)']
ASSUMPTIONS = ['floats are opaque repr tokens', 'the empty BatchRequest is outside the property (C06 requires it to be refused)']

TYPED = ['ParseError', 'InvalidRequestError', 'MethodNotFoundError', 'InvalidParamsError', 'InternalError', 'ServerError']
CODES = [0, 1, -1, -32700, -32600, -32601, -32602, -32603, -32000, -32099, 2 ** 40]
MSGS = ['', 'm', 'Method not found', 'café \U0001f600 "q"']
METHODS = ['m', '', 'a.b', 'rpc.x', 'méthod', 'with space\n']


def params_alphabet(rnd, n):
    base = [None, (), [], {}, [1], (1, 2), {'a': 1}, [None], {'': []}, [[], {}], {'k': {'k': None}}]
    for _ in range(n):
        r = rnd.random()
        if r < 0.5:
            base.append([gens.rand_value(rnd, 2) for _ in range(rnd.choice([1, 2, 3]))])
        else:
            base.append({k: gens.rand_value(rnd, 2) for k in rnd.sample(['a', 'b', 'c', '', 'id'], rnd.choice([1, 2, 3]))})
    return base


def err_descs(rnd, n_data):
    datas = ['<unset>', None, 0, '', [], {}, False, {'k': [1, None]}] + [gens.rand_value(rnd, 2) for _ in range(n_data)]
    out = []
    for c in CODES:
        for m in MSGS[:3]:
            out.append(('JsonRpcError', c, m, rnd.choice(datas)))
    for d in datas:
        out.append(('JsonRpcError', rnd.choice(CODES), rnd.choice(MSGS), d))
    for cls in TYPED:
        out.append((cls, None, None, '<unset>'))
        out.append((cls, None, None, rnd.choice(datas)))
        out.append((cls, None, '', None))
        out.append((cls, 0, None, '<unset>'))
        out.append((cls, rnd.choice(CODES), rnd.choice(MSGS), rnd.choice(datas)))
    out.append(('ServerError', -32050, 'custom server error', {'trace': None}))
    out.append(('JsonRpcError', None, 'm', '<unset>'))     # not constructible: AssertionError
    out.append(('JsonRpcError', 5, None, '<unset>'))       # not constructible
    return out


def generate(seed, tier):
    rnd = random.Random(seed)
    nrand = 40 if tier == 'quick' else 400
    cases = []
    P = params_alphabet(rnd, nrand)
    for m, p, i in itertools.product(METHODS, P[:11], gens.IDS):
        cases.append({'kind': 'req', 'base': 'JsonRpcError', 'req': (m, p, i)})
    for p in P[11:]:
        cases.append({'kind': 'req', 'base': 'JsonRpcError', 'req': (rnd.choice(METHODS), p, rnd.choice(gens.IDS))})
    E = err_descs(rnd, nrand // 4)
    for e in E:
        for base in ('JsonRpcError', 'ServerError'):
            cases.append({'kind': 'err', 'base': base, 'err': e})
    results = gens.EDGE_VALUES + [gens.rand_value(rnd, 3) for _ in range(nrand)]
    for v in results:
        cases.append({'kind': 'resp', 'base': 'JsonRpcError', 'resp': (rnd.choice(gens.IDS), 'result', v)})
    for i in gens.IDS:
        cases.append({'kind': 'resp', 'base': 'JsonRpcError', 'resp': (i, 'result', None)})
    for e in E:
        cases.append({'kind': 'resp', 'base': rnd.choice(['JsonRpcError', 'ClientError']), 'resp': (rnd.choice(gens.IDS), 'error', e)})
        cases.append({'kind': 'bresperr', 'base': rnd.choice(['JsonRpcError', 'InternalError']), 'err': e})
    # batches
    nb = 150 if tier == 'quick' else 1500
    for _ in range(nb):
        n = rnd.choice([0, 1, 2, 3, 4, 5])
        ids = rnd.sample([0, 1, 2, -1, 2 ** 64, '', 'a', '1', '0'], n)
        reqs = []
        for k in range(n):
            i = ids[k] if rnd.random() < 0.75 else None
            reqs.append((rnd.choice(METHODS), rnd.choice(P), i))
        cases.append({'kind': 'breq', 'base': 'JsonRpcError', 'reqs': reqs})
        resps = []
        for k in range(n):
            i = ids[k] if rnd.random() < 0.8 else None
            if rnd.random() < 0.6:
                resps.append((i, 'result', rnd.choice(results)))
            else:
                resps.append((i, 'error', rnd.choice(E[:-2])))
        cases.append({'kind': 'bresp', 'base': rnd.choice(['JsonRpcError', 'ServerError']), 'resps': resps})
    # duplicates: not constructible
    cases.append({'kind': 'breq', 'base': 'JsonRpcError', 'reqs': [('m', None, 1), ('n', None, 1)]})
    cases.append({'kind': 'bresp', 'base': 'JsonRpcError', 'resps': [(1, 'result', 0), (1, 'result', 1)]})
    return cases


def mk_err(e):
    cls, c, m, d = e
    return getattr(pjrpc.exceptions, cls)(code=c, message=m, data=UNSET if d == '<unset>' else d)


def mk_resp(r):
    i, k, v = r
    return Response(id=i, result=v) if k == 'result' else Response(id=i, error=mk_err(v))


def through_text(obj):
    t1 = json.dumps(obj.to_json(), cls=pjrpc.JSONEncoder)
    t2 = json.dumps(obj, cls=pjrpc.JSONEncoder)
    return json.loads(t1), json.loads(t1) == json.loads(t2) or t1 == t2


SCRIBBLE = '<scribble>'


def scribble(v, depth=0):
    """Mutates, in place, every mutable container reachable from a message object or a wire value."""
    if depth > 4:
        return
    if isinstance(v, list):
        for x in v:
            scribble(x, depth + 1)
        v.append(SCRIBBLE)
    elif isinstance(v, dict):
        for x in list(v.values()):
            scribble(x, depth + 1)
        v[SCRIBBLE] = 1
    elif isinstance(v, Request):
        scribble(v.params, depth + 1)
    elif isinstance(v, Response):
        if v.is_success:
            scribble(v.result, depth + 1)
        else:
            scribble(v.error, depth + 1)
    elif isinstance(v, pjrpc.exceptions.JsonRpcError):
        scribble(v.data, depth + 1)
    elif isinstance(v, BatchRequest):
        for r in v:
            scribble(r, depth + 1)
    elif isinstance(v, BatchResponse):
        if v.is_error:
            scribble(v.error, depth + 1)
        else:
            for r in v:
                scribble(r, depth + 1)


def build(case):
    k = case['kind']
    if k == 'req':
        m, p, i = case['req']
        return Request(m, p, i)
    if k == 'err':
        return mk_err(case['err'])
    if k == 'resp':
        return mk_resp(case['resp'])
    if k == 'breq':
        return BatchRequest(*[Request(m, p, i) for m, p, i in case['reqs']])
    if k == 'bresp':
        return BatchResponse(*[mk_resp(r) for r in case['resps']])
    return BatchResponse(error=mk_err(case['err']))


def decode(case, wire, base):
    k = case['kind']
    if k == 'req':
        return Request.from_json(wire)
    if k == 'err':
        return base.from_json(wire)
    if k == 'resp':
        return Response.from_json(wire, error_cls=base)
    if k == 'breq':
        return BatchRequest.from_json(wire)
    return BatchResponse.from_json(wire, error_cls=base)


def warm_up(case, base):
    """The same round trip done once before the observed one, its every product then scribbled on in place: what the
    observed round trip yields must not depend on it (messages share no mutable state with each other or with the classes)."""
    import copy
    try:
        obj = build(copy.deepcopy(case))
        j = obj.to_json()
        wire, _ = through_text(obj)
        o2 = decode(case, wire, base)
        j2 = o2.to_json()
        for v in (j, wire, o2, j2, obj):
            scribble(v)
    except Exception:
        pass


def observers(obj, case, other=None):
    """Read-only operations on a message - comparison with an equal message, repr, length, iteration - before it is serialised:
    none of them may change what it serialises to."""
    import copy
    try:
        twin = other if other is not None else build(copy.deepcopy(case))
    except Exception:
        return
    def reject_then_retry():
        # a batch refuses a second message with an id it already holds - however often it is offered
        first = next((x for x in twin if x.id is not None), None)
        if first is None:
            return
        for _ in range(2):
            try:
                obj.append(copy.deepcopy(first))
            except pjrpc.exceptions.IdentityError:
                pass
    for op in (reject_then_retry, lambda: obj == twin, lambda: obj != twin, lambda: twin == obj, lambda: repr(obj), lambda: len(obj), lambda: list(obj),
               lambda: bool(obj)):
        try:
            op()
        except Exception:
            pass


def observe(case):
    k = case['kind']
    base = getattr(pjrpc.exceptions, case['base'])
    warm_up(case, base)
    try:
        if k == 'req':
            m, p, i = case['req']
            obj = Request(m, p, i)
        elif k == 'err':
            obj = mk_err(case['err'])
        elif k == 'resp':
            obj = mk_resp(case['resp'])
        elif k == 'breq':
            obj = BatchRequest(*[Request(m, p, i) for m, p, i in case['reqs']])
        elif k == 'bresp':
            obj = BatchResponse(*[mk_resp(r) for r in case['resps']])
        elif k == 'bresperr':
            obj = BatchResponse(error=mk_err(case['err']))
    except Exception as e:
        return ('construct_fail', e)
    observers(obj, case)
    wire, same = through_text(obj)
    try:
        if k == 'req':
            o2 = Request.from_json(wire)
            fields = show_request(o2)
        elif k == 'err':
            o2 = base.from_json(wire)
            fields = show_error(o2)
        elif k == 'resp':
            o2 = Response.from_json(wire, error_cls=base)
            fields = show_response(o2)
        elif k == 'breq':
            o2 = BatchRequest.from_json(wire)
            fields = [show_request(r) for r in o2]
        else:
            o2 = BatchResponse.from_json(wire, error_cls=base)
            fields = {'error': show_error(o2.error)} if o2.is_error else [show_response(r) for r in o2]
    except Exception as e:
        return ('decode_fail', wire, same, e)
    observers(o2, case, obj)
    wire2, _ = through_text(o2)
    return ('full', wire, same, fields, wire2)


def cparams(p):
    if p is None:
        return 'PNone'
    if isinstance(p, (list, tuple)):
        return '(PList %s)' % clist(cjson(x) for x in p)
    return '(PDict %s)' % clist('(%s, %s)' % (cstr(k), cjson(v)) for k, v in p.items())


def creq(r):
    m, p, i = r
    return '{| r_method := %s; r_params := %s; r_id := %s |}' % (cstr(m), cparams(p), cid(i))


def cedesc(e):
    cls, c, m, d = e
    return '(%s, %s, %s, %s)' % (cstr(cls), copt(c, cZ), copt(m, cstr), 'None' if d == '<unset>' else '(Some %s)' % cjson(d))


def crdesc(r):
    i, k, v = r
    return '(%s, %s)' % (cid(i), '(inl %s)' % cjson(v) if k == 'result' else '(inr %s)' % cedesc(v))


def encode(case, obs):
    k = case['kind']
    if k == 'req':
        m = '(C05.MReq %s)' % creq(case['req'])
    elif k == 'err':
        m = '(C05.MErr %s)' % cedesc(case['err'])
    elif k == 'resp':
        m = '(C05.MResp %s)' % crdesc(case['resp'])
    elif k == 'breq':
        m = '(C05.MBReq %s)' % clist(creq(r) for r in case['reqs'])
    elif k == 'bresp':
        m = '(C05.MBResp %s)' % clist(crdesc(r) for r in case['resps'])
    else:
        m = '(C05.MBRespErr %s)' % cedesc(case['err'])
    if obs[0] == 'construct_fail':
        o = '(C05.OConstructFail %s)' % cexn(obs[1])
    elif obs[0] == 'decode_fail':
        o = '(C05.ODecodeFail %s %s %s)' % (cjson(obs[1]), 'true' if obs[2] else 'false', cexn(obs[3]))
    else:
        o = '(C05.OFull %s %s %s %s)' % (cjson(obs[1]), 'true' if obs[2] else 'false', cjson(obs[3]), cjson(obs[4]))
    return '(%s, %s, %s)' % (cstr(case['base']), m, o)


def distribution(cases, obs):
    d = {}
    for c, o in zip(cases, obs):
        k = '%s:%s' % (c['kind'], o[0])
        if c['kind'] in ('breq', 'bresp'):
            k += ':len=%d' % len(c.get('reqs', c.get('resps')))
        d[k] = d.get(k, 0) + 1
    return d


def shrink_candidates(case):
    for key in ('reqs', 'resps'):
        if key in case:
            l = case[key]
            for i in range(len(l)):
                yield dict(case, **{key: l[:i] + l[i + 1:]})
