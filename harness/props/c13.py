"""C13 - requests are independent: nothing leaks from one dispatch into the next."""
import gc
import itertools
import json
import random
import weakref
from concurrent.futures import ThreadPoolExecutor
from typing import Optional

import pjrpc
from pjrpc.server import AsyncDispatcher, Dispatcher, MethodRegistry, ViewMixin
from pjrpc.server import validators as V
from pjrpc.server.validators import jsonschema as js_validator
from pjrpc.server.validators import pydantic as pd_validator

from harness.lib import corpus, dispenv
from harness.lib.coqterm import cjson, clist, copt, cstr, cbool

ID = 'C13'
CASE_TYPE = 'C13.case'
EXTRA_IMPORTS = dispenv.DISP_IMPORTS + 'From PJ Require Import Model.Cache.\n'
RULE = ('(a) histories of length 1..2 (quick) / 1..3 (thorough) over a request corpus followed by a probe, on the standard configuration '
        '(compared with the probe on a fresh dispatcher AND with the stateless dispatcher model) and on a rich configuration - the same function '
        'registered twice with different context designations, parameterless methods with and without a context, two same-named '
        'functions under one PydanticValidator, two functions under it whose signatures differ only in equal-comparing defaults (1 / True), a JsonSchemaValidator (one method with a format checker, one without), a class-based view with context, methods that raise, generic and per-code error handlers - where every ordered pair / triple '
        'of requests is replayed; both dispatchers. (b) N in {1, 10, 300} (quick) / {1, 10, 1000} (thorough) dispatches with a fresh '
        'context object each, for function methods, view methods, each validator and FAILING requests (method raises / protocol error / unknown method / schema violation): growth of the signature / schema memo tables and '
        'weak references to the contexts after gc.collect(). (c) thread pools of 2, 8, 16 threads serving an interleaved corpus vs serving '
        'it sequentially (a test). distinct = distinct case; every case is non-trivial')
EXHAUSTIVE = {'quick': False, 'thorough': False}
TRUSTED_BASE = ['CPython reference counting + gc.collect() make unreachable context objects die; functools.lru_cache.cache_info()',
                'thread-safety of dict / lru_cache reads under the GIL (the thread cases are a test, not a theorem)']
ASSUMPTIONS = ['registered methods keep no state of their own']


class Ctx:
    def __init__(self, n):
        self.n = n


def rich_dispatcher(is_async):
    """A fresh dispatcher with fresh functions and fresh validator instances."""
    # error handlers: a generic one and one per code, in lists the dispatcher must only read
    def mk_eh(data):
        def run(request, context, error):
            return error if data is None else type(error)(code=error.code, message=error.message, data=data)
        if is_async:
            async def eh(request, context, error):
                return run(request, context, error)
            return eh
        return run
    d = (AsyncDispatcher if is_async else Dispatcher)(
        error_handlers={None: [mk_eh(None)], -32601: [mk_eh('U:nf')], -32602: [mk_eh('U:ip')], 7: [mk_eh('U:seven')]})
    pdv = pd_validator.PydanticValidator()
    jsv = js_validator.JsonSchemaValidator()

    def get_user(request, uid=1):
        return ['get_user', request if not isinstance(request, Ctx) else 'CTX', uid]

    def whoami(ctx):
        return ['whoami', 'CTX' if isinstance(ctx, Ctx) else repr(ctx)]

    def ping():
        return 'pong'

    def boom(ctx, a=0):
        raise ValueError('S3CR3T')

    def perr():
        raise pjrpc.exceptions.JsonRpcError(code=7, message='seven')

    def count():
        return 0

    def mk_get(ann):
        ns = {'pdv': pdv}
        exec('@pdv.validate\ndef get(id: %s):\n    return ["get", "%s", id]\n' % (ann, ann), ns)
        return ns['get']

    # two functions under the one PydanticValidator whose signatures differ only in defaults that compare equal (1 == True)
    @pdv.validate
    def opt_a(n=1):
        return ['opt', repr(n)]

    @pdv.validate
    def opt_b(n=True):
        return ['opt', repr(n)]

    @jsv.validate(schema={'type': 'object', 'properties': {'n': {'type': 'integer', 'minimum': 0}}, 'required': ['n']})
    def sized(n, tag='t'):
        return ['sized', n, tag]

    # two methods on the one JsonSchemaValidator with different method-level argument SETS (one brings a format checker)
    import jsonschema as _js
    MAIL = {'type': 'object', 'properties': {'to': {'type': 'string', 'format': 'ipv4'}}, 'required': ['to']}

    @jsv.validate(schema=MAIL, format_checker=_js.FormatChecker())
    def register(to):
        return ['register', to]

    @jsv.validate(schema=MAIL)
    def note(to):
        return ['note', to]

    class View(ViewMixin):
        def __init__(self, ctx):
            self.ctx = ctx

        def show(self, a=0):
            return ['show', 'CTX' if isinstance(self.ctx, Ctx) else repr(self.ctx), a]

    d.add(get_user, name='public.get_user', context='request')
    d.add(get_user, name='internal.get_user')
    d.add(whoami, context='ctx')
    d.add(ping)
    d.add(boom, context='ctx')
    d.add(perr)
    d.add(count)
    d.add(mk_get('int'), name='user.get')
    d.add(mk_get('str'), name='doc.get')
    d.add(sized)
    d.add(register)
    d.add(note)
    d.add(opt_a, name='opt.a')
    d.add(opt_b, name='opt.b')
    reg = MethodRegistry()
    reg.view(View, context='ctx', prefix='v')
    d.add_methods(reg)
    return d


RICH_CORPUS = [
    {'method': 'public.get_user', 'params': [5]}, {'method': 'public.get_user', 'params': {'uid': 2}}, {'method': 'public.get_user'},
    {'method': 'internal.get_user', 'params': [5]}, {'method': 'internal.get_user', 'params': {'request': 'r', 'uid': 3}},
    {'method': 'internal.get_user'}, {'method': 'whoami'}, {'method': 'ping'}, {'method': 'count'}, {'method': 'whoami', 'params': []},
    {'method': 'user.get', 'params': [7]}, {'method': 'user.get', 'params': {'id': 'a7'}}, {'method': 'doc.get', 'params': ['7']},
    {'method': 'doc.get', 'params': {'id': 'a7'}}, {'method': 'doc.get', 'params': [7]},
    {'method': 'sized', 'params': {'n': 1}}, {'method': 'sized', 'params': {'n': -1}}, {'method': 'sized', 'params': [1, 'x']},
    {'method': 'v.show', 'params': [1]}, {'method': 'v.show'}, {'method': 'nosuch'}, {'method': 'ping', 'params': {}},
    {'method': 'boom'}, {'method': 'boom', 'params': [1]}, {'method': 'perr'}, {'method': 'perr', 'params': [1]},
    {'method': 'opt.a'}, {'method': 'opt.b'}, {'method': 'opt.b', 'params': [2]},
    {'method': 'register', 'params': ['10.0.0.1']}, {'method': 'register', 'params': ['somebody']}, {'method': 'note', 'params': ['somebody']},
]


def rich_text(i, rid=1):
    d = dict(RICH_CORPUS[i], jsonrpc='2.0', id=rid)
    return json.dumps(d)


def std_texts(rnd, n):
    prod = corpus.member_product()
    rnd.shuffle(prod)
    texts = [json.dumps(o) for o in prod[:n]]
    texts += [json.dumps(corpus.valid_element(rnd, bad_p=0.0)) for _ in range(n)]
    texts += [json.dumps([corpus.valid_element(rnd) for _ in range(rnd.choice([1, 2, 3]))]) for _ in range(n // 2)]
    texts += corpus.malformed_texts()[:12]
    return texts


def generate(seed, tier):
    rnd = random.Random(seed)
    cases = []
    texts = std_texts(rnd, 60 if tier == 'quick' else 300)
    nh = 700 if tier == 'quick' else 6000
    for _ in range(nh):
        h = [rnd.choice(texts) for _ in range(rnd.randint(1, 2 if tier == 'quick' else 3))]
        cases.append({'t': 'std', 'history': h, 'probe': rnd.choice(texts), 'async': rnd.random() < 0.5})
    n = len(RICH_CORPUS)
    for a, p in itertools.product(range(n), repeat=2):
        cases.append({'t': 'rich', 'history': [a], 'probe': p, 'async': (a + p) % 2 == 0})
    triples = list(itertools.product(range(n), repeat=3))
    for a, b, p in rnd.sample(triples, 600 if tier == 'quick' else 4000):
        cases.append({'t': 'rich', 'history': [a, b], 'probe': p, 'async': rnd.random() < 0.5})
    for kind in ('function', 'view', 'jsonschema', 'pydantic', 'noparams', 'failing'):
        for N in (1, 10, 300 if tier == 'quick' else 1000):
            for is_async in (False, True):
                cases.append({'t': 'mem', 'kind': kind, 'n': N, 'async': is_async})
    for k in (2, 8, 16):
        cases.append({'t': 'threads', 'k': k, 'seed': rnd.randrange(10 ** 6)})
    return cases


def dispatch(d, is_async, text, ctx=None):
    r = dispenv.loop().run_until_complete(d.dispatch(text, context=ctx)) if is_async else d.dispatch(text, context=ctx)
    return None if r is None else dispenv.canon_doc(json.loads(r[0]))


MEM_REQ = {
    'function': ['public.get_user', 'whoami'], 'view': ['v.show'], 'jsonschema': ['sized'], 'pydantic': ['user.get', 'doc.get'],
    'noparams': ['whoami', 'ping'],
    # requests that FAIL (method raises, protocol error, unknown method, schema violation): the error path keeps nothing either
    'failing': ['boom', 'perr', 'nosuch', 'sized!'],
}
MEM_PARAMS = {'public.get_user': [1], 'whoami': None, 'v.show': [1], 'sized': {'n': 1}, 'user.get': [1], 'doc.get': ['x'], 'ping': None,
              'boom': [1], 'perr': None, 'nosuch': None, 'sized!': {'n': -1}}
# (validator id, function id, excluded names, bound) of each registration, for the cache model
MEM_KEYS = {'public.get_user': (0, 1, ['request'], False), 'whoami': (0, 2, ['ctx'], False), 'v.show': (0, 3, [], True),
            'sized': (1, 4, [], False), 'user.get': (2, 5, [], False), 'doc.get': (2, 6, [], False), 'ping': (0, 7, [], False),
            'boom': (0, 8, ['ctx'], False), 'perr': (0, 9, [], False), 'nosuch': None, 'sized!': (1, 4, [], False)}


def observe(case):
    t = case['t']
    if t == 'std':
        cfg = corpus.STD_CFG
        out_h, ev_h = dispenv.run(cfg, case['async'], case['probe'], {'ctx': 7}, pre=case['history'])
        out_f, ev_f = dispenv.run(cfg, case['async'], case['probe'], {'ctx': 7})
        return {'load': dispenv.load_result(case['probe']), 'after': (out_h, ev_h), 'fresh': (out_f, ev_f)}
    if t == 'rich':
        d = rich_dispatcher(case['async'])
        for i in case['history']:
            dispatch(d, case['async'], rich_text(i), Ctx(0))
        after = dispatch(d, case['async'], rich_text(case['probe']), Ctx(1))
        fresh = dispatch(rich_dispatcher(case['async']), case['async'], rich_text(case['probe']), Ctx(1))
        return {'after': after, 'fresh': fresh}
    if t == 'mem':
        d = rich_dispatcher(case['async'])
        vals = {id(m.validator): m.validator for m in d.registry.values()}

        def table_size():
            # every memo table hanging off the validator classes (lru_cache) or instances (dict attributes)
            n = 0
            seen = set()
            for cls in {type(v) for v in vals.values()} | {V.BaseValidator}:
                for klass in cls.__mro__:
                    for a in vars(klass).values():
                        if hasattr(a, 'cache_info') and id(a) not in seen:
                            seen.add(id(a))
                            n += a.cache_info().currsize
            for v in vals.values():
                for a in vars(v).values():
                    if isinstance(a, dict) and a is not getattr(v, 'default_kwargs', None) and a is not getattr(v, '_model_config', None):
                        n += len(a)
            return n
        gc.collect()
        before = table_size()
        bad = 0
        refs, keys = [], []
        names = MEM_REQ[case['kind']]
        for i in range(case['n']):
            name = names[i % len(names)]
            c = Ctx(i)
            refs.append(weakref.ref(c))
            body = {'jsonrpc': '2.0', 'id': i, 'method': name.rstrip('!')}
            if MEM_PARAMS[name] is not None:
                body['params'] = MEM_PARAMS[name]
            r = dispatch(d, case['async'], json.dumps(body), c)
            if r is None or (('result' in r) == (case['kind'] == 'failing')):
                bad += 1
            if MEM_KEYS[name] is not None:
                keys.append(MEM_KEYS[name])
            if name in ('user.get', 'doc.get') and hasattr(pd_validator.PydanticValidator.build_validation_schema, 'cache_info'):
                # PydanticValidator.build_validation_schema, where it is memoised, holds one entry per distinct signature as well
                k = MEM_KEYS[name]
                keys.append((k[0], 100 + k[1], k[2], k[3]))
            del c
        gc.collect()
        growth = table_size() - before
        alive = sum(1 for x in refs if x() is not None)
        # pydantic keeps one more table entry per distinct signature (build_validation_schema)
        return {'keys': keys, 'growth': growth if not bad else 4999, 'alive': alive}
    rnd = random.Random(case['seed'])
    d = rich_dispatcher(False)
    texts = [rich_text(rnd.randrange(len(RICH_CORPUS)), rid=i) for i in range(200)]
    seq = [dispatch(d, False, x, Ctx(0)) for x in texts]
    d2 = rich_dispatcher(False)
    with ThreadPoolExecutor(case['k']) as ex:
        thr = list(ex.map(lambda x: dispatch(d2, False, x, Ctx(0)), texts))
    return {'seq': seq, 'thr': thr}


def ckey(k):
    return '(%d%%nat, %d%%nat, %s, %s)' % (k[0], k[1], clist(cstr(x) for x in k[2]), cbool(k[3]))


def encode(case, obs):
    t = case['t']
    if t == 'std':
        out, ev = obs['after']
        term, defs = dispenv.cdcase_shared(corpus.STD_CFG, obs['load'], {'ctx': 7}, out, ev)
        return ('(C13.CHistStd %s %s)' % (term, dispenv.cdout(obs['fresh'][0])), defs)
    if t == 'rich':
        return '(C13.CHist %s %s)' % (copt(obs['after'], cjson), copt(obs['fresh'], cjson))
    if t == 'mem':
        # run-length: the model only needs the distinct keys; keep the list short for large N
        ks = obs['keys'][:40]
        return '(C13.CMem %s %d%%nat %d%%nat)' % (clist(ckey(k) for k in ks), obs['growth'], min(obs['alive'], 4000))
    return '(C13.CThreads %s %s)' % (clist(copt(x, cjson) for x in obs['seq']), clist(copt(x, cjson) for x in obs['thr']))


def case_key(case):
    return json.dumps(case, sort_keys=True)


def case_from_json(c):
    return c


def distribution(cases, obs):
    d = {}
    for c in cases:
        k = c['t'] + (':' + c['kind'] + ':n=%d' % c['n'] if c['t'] == 'mem' else '')
        d[k] = d.get(k, 0) + 1
    return d


def shrink_candidates(case):
    if case['t'] in ('std', 'rich') and len(case['history']) > 1:
        for i in range(len(case['history'])):
            yield dict(case, history=case['history'][:i] + case['history'][i + 1:])
