"""C14 - parameter validators admit exactly the conforming calls."""
import enum
import inspect
import itertools
import json
import random
from typing import Annotated, Any, Dict, List, Optional

import jsonschema
import pydantic

import pjrpc
from pjrpc.server import AsyncDispatcher, Dispatcher, ViewMixin
from pjrpc.server.validators import jsonschema as v_js
from pjrpc.server.validators import pydantic as v_pd

from harness.lib import dispenv
from harness.lib.coqterm import cjson, cstr, clist, copt, cbool, cZ

ID = 'C14'
CASE_TYPE = 'C14.case'
EXTRA_IMPORTS = 'From PJ Require Import Model.Bind Model.Validators Corr.DispCommon.\n'
RULE = ('signatures of 1..2 (quick) / 1..3 (thorough) positional-or-keyword / keyword-only parameters with and without defaults and an '
        'optional context parameter (the context object drawn from truthy and falsy values); JSON-Schema side: per-parameter fragments {type, enum, minimum/maximum, array items, nested object '
        'with required and additionalProperties false, no constraint} under a top-level object schema with required subsets and '
        'additionalProperties on/off (a function served alone, sharing one validator with a sibling served first, as a view method, or decorated again with an all-admitting schema after its registration) x argument values from a per-type alphabet of conforming / non-conforming values x positional / named '
        'passing (every case also judged by the jsonschema package itself on independently bound arguments); pydantic side: annotations '
        '{int, str, float, bool, Optional[int], List[int], Dict[str,int], a model class, an enum, an int with a validator function that raises ValueError} x conforming / coercible / non-conforming '
        'values x coercion on/off, per-argument verdicts from pydantic.TypeAdapter independently of pjrpc. 12% of the methods raise a TypeError of their own after recording their arguments (accepted calls are then answered -32000, never -32602). Everything is dispatched '
        'end-to-end. distinct = distinct case; non-trivial = the method body ran')
EXHAUSTIVE = {'quick': False, 'thorough': False}
TRUSTED_BASE = ['jsonschema 3.2 on the fragment (cross-checked against js_valid on every case)',
                'pydantic.TypeAdapter(annotation).validate_python as the specification of "satisfies the annotation / converted value"']
ASSUMPTIONS = ['argument values are float-free JSON values on the schema side; rendered model / enum instances on the pydantic side']

FRAGS = [
    {}, {'type': 'integer'}, {'type': 'string'}, {'type': 'boolean'}, {'type': 'integer', 'minimum': 0, 'maximum': 10},
    {'enum': [1, 'x', None]}, {'type': 'array', 'items': {'type': 'integer'}},
    {'type': 'object', 'properties': {'k': {'type': 'integer'}}, 'required': ['k'], 'additionalProperties': False}, {'type': 'null'},
]
VALUES = [1, -1, 11, 0, 'x', '', True, None, [1, 2], ['a'], [], {'k': 1}, {'k': 's'}, {'k': 1, 'z': 2}, {}]


class Point(pydantic.BaseModel):
    x: int
    y: int = 0


class Color(enum.Enum):
    RED = 'red'
    BLUE = 'blue'


def _even(v):
    if v % 2:
        raise ValueError('must be even')        # the usual way a pydantic validator function rejects a value
    return v


ANNS = {'even': Annotated[int, pydantic.AfterValidator(_even)], 'int': int, 'str': str, 'float': float, 'bool': bool, 'optint': Optional[int], 'listint': List[int], 'dictint': Dict[str, int],
        'point': Point, 'color': Color, 'any': Any}
PVALUES = [1, '1', 'x', 1.5, True, None, [1, '2'], ['a'], {'k': 1}, {'k': 'v'}, {'x': 1, 'y': '2'}, {'x': 'no'}, 'red', 0]


def render(v):
    if isinstance(v, pydantic.BaseModel):
        return {'__model__': {k: render(x) for k, x in v.model_dump().items()}}
    if isinstance(v, enum.Enum):
        return {'__enum__': v.value}
    if isinstance(v, (list, tuple)):
        return [render(x) for x in v]
    if isinstance(v, dict):
        return {k: render(x) for k, x in v.items()}
    return v


def sigs(maxn, rnd):
    out = []
    for n in range(1, maxn + 1):
        for ks in itertools.product(['PK', 'KO'], repeat=n):
            if any(a == 'KO' and b == 'PK' for a, b in zip(ks, ks[1:])):
                continue
            for ds in itertools.product([False, True], repeat=n):
                ok, seen = True, False
                for k, d in zip(ks, ds):
                    if k == 'PK':
                        if d:
                            seen = True
                        elif seen:
                            ok = False
                if ok:
                    out.append([('abc'[i], ks[i], ds[i]) for i in range(n)])
    return out


GOOD = {'even': [2, 0, '4', 3], 'int': [1, 0, '1', True], 'str': ['x', ''], 'float': [1.5, 1, '1'], 'bool': [True, 0, 1], 'optint': [1, None, '1'],
        'listint': [[1, '2'], []], 'dictint': [{'k': 1}, {}], 'point': [{'x': 1, 'y': '2'}, {'x': 0}], 'color': ['red', 'blue'],
        'any': [1, 'x', None, [1], {'k': 1}]}


def choose_xs(rnd, sig):
    """The exclusion predicate: none (2/3), else a non-empty subset of the parameters that have a default."""
    dflt = [n for n, k, d in sig if d]
    if not dflt or rnd.random() < 0.66:
        return [], None
    xs = [n for n in dflt if rnd.random() < 0.6] or [rnd.choice(dflt)]
    return xs, rnd.choice(['name', 'default'])


def choose_names(rnd, sig, extra, xs=()):
    """Mostly a set of names that binds (all required, nothing unknown, nothing excluded); sometimes deliberately not."""
    names = [p[0] for p in sig]
    if rnd.random() < 0.72:
        return [n for n, k, d in sig if (not d) or (rnd.random() < 0.5 and (n not in xs or rnd.random() < 0.15))]
    pool = names + ['zz'] + extra
    return rnd.sample(pool, min(len(pool), rnd.randint(0, len(names) + 1)))


def as_params(rnd, sig, chosen, value_of):
    """Positional when the chosen names are a prefix of the positional parameters (half of the time), else named."""
    pk = [n for n, k, d in sig if k == 'PK']
    if chosen == pk[:len(chosen)] and rnd.random() < 0.5:
        return [value_of(n) for n in chosen]
    return {n: value_of(n) for n in chosen}


def generate(seed, tier):
    rnd = random.Random(seed)
    cases = []
    all_sigs = sigs(2 if tier == 'quick' else 3, rnd)
    n_schema = 2200 if tier == 'quick' else 20000
    for _ in range(n_schema):
        sig = rnd.choice(all_sigs)
        names = [p[0] for p in sig]
        ctx = rnd.choice([None, None, 'ctx'])
        props = {n: rnd.choice(FRAGS) for n in names if rnd.random() < 0.85}
        xs, xmode = choose_xs(rnd, sig)
        chosen = choose_names(rnd, sig, [ctx] if ctx else [], xs)
        top = {'type': 'object', 'properties': props}
        if rnd.random() < 0.6:
            top['required'] = [n for n in names if (n in chosen and rnd.random() < 0.6) or rnd.random() < 0.1]
        if rnd.random() < 0.5:
            top['additionalProperties'] = rnd.random() < 0.5
        params = as_params(rnd, sig, chosen, lambda n: pick_value(rnd, props.get(n)))
        if isinstance(params, list) and rnd.random() < 0.1:
            params = params + [rnd.choice(VALUES)]
        c = {'t': 'schema', 'sig': sig, 'ctx': ctx, 'schema': top, 'params': params, 'async': rnd.random() < 0.5,
             'xs': xs, 'xmode': xmode}
        if ctx and rnd.random() < 0.5:
            c['ctxv'] = rnd.randrange(1, 7)
        r = rnd.random()
        if r < 0.2:
            # ONE validator shared by two methods: the schema is the validator-level default, the sibling method brings its own
            # and is served first
            c['shared'] = True
        elif r < 0.4 and not ctx:
            c['view'] = True          # a method of a class-based view; the predicate (if any) would also select `self`
        elif r < 0.55:
            # after registration the same function is decorated AGAIN, with a schema that admits everything, and exposed a second
            # time elsewhere; the first registration keeps the validator arguments it was made with
            c['redeco'] = True
        if rnd.random() < 0.12:
            c['raises'] = True
        cases.append(c)
    n_typed = 1800 if tier == 'quick' else 16000
    for _ in range(n_typed):
        sig = rnd.choice(all_sigs)
        names = [p[0] for p in sig]
        anns = {n: rnd.choice(list(ANNS)) for n in names}
        xs, xmode = choose_xs(rnd, sig)
        chosen = choose_names(rnd, sig, [], xs)
        params = as_params(rnd, sig, chosen,
                           lambda n: rnd.choice(GOOD[anns[n]]) if (n in anns and rnd.random() < 0.8) else rnd.choice(PVALUES))
        c = {'t': 'typed', 'sig': sig, 'ctx': rnd.choice([None, None, 'ctx']), 'anns': anns, 'params': params,
             'coerce': rnd.random() < 0.6, 'async': rnd.random() < 0.5, 'xs': xs, 'xmode': xmode}
        if not c['ctx'] and rnd.random() < 0.2:
            c['view'] = True
        elif rnd.random() < 0.25:
            c['shared'] = True        # ONE PydanticValidator shared with a sibling function of the same __name__, served first
        if c['ctx'] and rnd.random() < 0.5:
            c['ctxv'] = rnd.randrange(1, 7)
        if rnd.random() < 0.12:
            c['raises'] = True
        cases.append(c)
    return cases


def pick_value(rnd, frag):
    # mostly-conforming values so that more than half of the cases reach the body
    if frag is not None and rnd.random() < 0.85:
        good = [v for v in VALUES if conforms(frag, v)]
        if good:
            return rnd.choice(good)
    return rnd.choice(VALUES)


def conforms(frag, v):
    try:
        jsonschema.validate(v, frag)
        return True
    except jsonschema.ValidationError:
        return False


def full_sig(case):
    sig = [tuple(p) for p in case['sig']]
    if case['ctx']:
        sig = [(case['ctx'], 'PK', False)] + sig
    return sig


class Inject(str):
    """Marks a default value as 'injected' (the by-default-type exclusion predicate looks for it); renders as the default marker."""


INJ = Inject('<default>')


def predicate(case):
    xs = tuple(case.get('xs') or ())
    if case.get('view') and case.get('xmode') != 'default':
        # "everything called self is injected too": harmless, the bound instance is never a JSON-RPC parameter
        return lambda name, annotation, default: name == 'self' or name in xs
    if not xs:
        return None
    if case.get('xmode') == 'default':
        return lambda name, annotation, default: isinstance(default, Inject)
    return lambda name, annotation, default: name in xs


def make_function(case, is_async, log, annotations=None):
    sig = full_sig(case)
    xs = case.get('xs') or ()
    parts, star = [], False
    for n, k, d in sig:
        if k == 'KO' and not star:
            parts.append('*')
            star = True
        ann = ': ANN_%s' % n if annotations and n in annotations else ''
        dv = ' = INJ' if (n in xs and case.get('xmode') == 'default') else ' = "<default>"'
        parts.append('%s%s%s' % (n, ann, dv if d else ''))
    ns = {'render': render, 'LOG': log, 'INJ': INJ}
    for n, a in (annotations or {}).items():
        ns['ANN_' + n] = ANNS[a]
    body = '[' + ', '.join('[%r, render(%s)]' % (n, n) for n, _, _ in sig) + ']'
    if case.get('view'):
        parts = ['self'] + parts
    if case.get('raises'):
        # the body itself raises a TypeError (worded like a binding error) after recording what it was called with
        exec('%sdef f(%s):\n    LOG.append(%s)\n    raise TypeError("helper() missing 1 required positional argument: \'x\'")\n'
             % ('async ' if is_async else '', ', '.join(parts), body), ns)
        return ns['f']
    exec('%sdef f(%s):\n    LOG.append(1)\n    return %s\n' % ('async ' if is_async else '', ', '.join(parts), body), ns)
    return ns['f']


def ran_although_failed(case, obs, log):
    """A body that raises cannot return its arguments: if the answer is the server error -32000, what it ran with is taken from its own
    record (an answer of -32602 stays what it is: the call was reported as refused)."""
    if case.get('raises') and obs == ('other', -32000) and len(log) == 1:
        return ('ran', json.loads(json.dumps(log[0])))
    return obs


G_SCHEMA = {'type': 'object', 'properties': {'gx': {'type': 'string'}}, 'required': ['gx'], 'additionalProperties': False}


CTX_VALUES = ['CTX', 0, '', None, [], {}, False]       # the server-side context object: truthy and falsy ones


def ctx_value(case):
    return CTX_VALUES[case.get('ctxv', 0)]


def dispatch(case, f, is_async, sibling=None, after_registration=None):
    d = (AsyncDispatcher if is_async else Dispatcher)()
    if case.get('view'):
        V = type('V', (ViewMixin,), {'f': f})
        d.view(V)
    elif case['ctx']:
        d.add(f, context=case['ctx'])
    else:
        d.add(f)
    if after_registration is not None:
        after_registration()
    if sibling is not None:
        d.add(sibling, name='g')
        t0 = json.dumps({'jsonrpc': '2.0', 'id': 0, 'method': 'g', 'params': {'gx': 's'}})
        r0 = dispenv.loop().run_until_complete(d.dispatch(t0, context='CTX')) if is_async else d.dispatch(t0, context='CTX')
        assert json.loads(r0[0]).get('result') == 'g', r0
    text = json.dumps({'jsonrpc': '2.0', 'id': 1, 'method': 'f', 'params': case['params']})
    cv = ctx_value(case)
    r = dispenv.loop().run_until_complete(d.dispatch(text, context=cv)) if is_async else d.dispatch(text, context=cv)
    try:
        doc = json.loads(r[0])
    except ValueError:
        return ('other', -1)
    if 'result' in doc:
        return ('ran', doc['result'])
    e = doc['error']
    if e['code'] == -32602:
        return ('invalid', 'data' in e)
    return ('other', e['code'])


def independent_bind(case):
    """inspect.Signature.bind on the context-free signature, written out independently of pjrpc."""
    params = []
    for n, k, d in [tuple(p) for p in case['sig']]:
        if n in (case.get('xs') or ()):
            continue            # the client-visible function does not have the excluded parameters
        kind = inspect.Parameter.POSITIONAL_OR_KEYWORD if k == 'PK' else inspect.Parameter.KEYWORD_ONLY
        params.append(inspect.Parameter(n, kind, default='<default>' if d else inspect.Parameter.empty))
    s = inspect.Signature(params)
    p = case['params']
    try:
        return s.bind(*p).arguments if isinstance(p, list) else s.bind(**p).arguments
    except TypeError:
        return None


def observe(case):
    log = []
    if case['t'] == 'schema':
        if case.get('shared'):
            v = v_js.JsonSchemaValidator(exclude_param=predicate(case), schema=case['schema'])
            f = v.validate(make_function(case, case['async'], log))
            ns = {}
            exec('%sdef g(gx):\n    return "g"\n' % ('async ' if case['async'] else ''), ns)
            g = v.validate(ns['g'], schema=G_SCHEMA)
            obs = dispatch(case, f, case['async'], sibling=g)
        else:
            v = v_js.JsonSchemaValidator(exclude_param=predicate(case))
            fn = make_function(case, case['async'], log)
            f = v.validate(fn, schema=case['schema'])
            post = None
            if case.get('redeco'):
                def post():
                    v.validate(fn, schema={'type': 'object'})
                    (AsyncDispatcher if case['async'] else Dispatcher)().add(fn, name='loose')
            obs = dispatch(case, f, case['async'], after_registration=post)
        obs = ran_although_failed(case, obs, log)
        bound = independent_bind(case)
        if bound is None:
            js = None
        else:
            try:
                jsonschema.validate(dict(bound), case['schema'], types={'array': (list, tuple)})
                js = True
            except jsonschema.ValidationError:
                js = False
        return {'obs': obs, 'js': js, 'ran': len(log)}
    v = v_pd.PydanticValidator(coerce=case['coerce'], exclude_param=predicate(case))
    f = v.validate(make_function(case, case['async'], log, annotations=case['anns']))
    sibling = None
    if case.get('shared'):
        ns = {}
        exec('%sdef f(gx: str):\n    return "g"\n' % ('async ' if case['async'] else ''), ns)       # same __name__, other signature
        sibling = v.validate(ns['f'])
    obs = ran_although_failed(case, dispatch(case, f, case['async'], sibling=sibling), log)
    verdicts = {}
    p = case['params']
    names = [q[0] for q in case['sig'] if q[0] not in (case.get('xs') or ())]
    supplied = dict(zip(names, p)) if isinstance(p, list) else dict(p)
    for n, val in supplied.items():
        if n not in case['anns']:
            continue
        try:
            verdicts[n] = ('ok', render(pydantic.TypeAdapter(ANNS[case['anns'][n]]).validate_python(val)))
        except pydantic.ValidationError:
            verdicts[n] = ('reject',)
    return {'obs': obs, 'verdicts': verdicts, 'ran': len(log)}


def cschema(sc):
    if sc == {}:
        return 'SAny'
    ty = {'integer': 'TInteger', 'number': 'TNumber', 'string': 'TString', 'boolean': 'TBoolean', 'null': 'TNull', 'array': 'TArray',
          'object': 'TObject'}
    return ('(SNode %s %s %s %s %s %s %s %s)'
            % (copt(sc.get('type'), lambda t: ty[t]), copt(sc.get('enum'), lambda l: clist(cjson(x) for x in l)),
               copt(sc.get('minimum'), cZ), copt(sc.get('maximum'), cZ),
               clist('(%s, %s)' % (cstr(k), cschema(v)) for k, v in sc.get('properties', {}).items()),
               clist(cstr(r) for r in sc.get('required', [])), cbool(sc.get('additionalProperties', True)),
               copt(sc.get('items'), cschema)))


def cobs(o):
    if o[0] == 'ran':
        return '(ORan %s)' % cjson(o[1])
    if o[0] == 'invalid':
        return '(OInvalid %s)' % cbool(o[1])
    return '(OOther %s)' % cZ(o[1])


def cpp(p):
    if isinstance(p, list):
        return '(PPos %s)' % clist(cjson(x) for x in p)
    return '(PKw %s)' % clist('(%s, %s)' % (cstr(k), cjson(v)) for k, v in p.items())


def encode(case, obs):
    sig = full_sig(case)
    cm = '(CtxByName %s)' % cstr(case['ctx']) if case['ctx'] else ('(CtxView false)' if case.get('view') else 'CtxNone')
    xs = clist(cstr(n) for n in (case.get('xs') or ()))
    if case['t'] == 'schema':
        return ('(C14.CSchema %s %s %s %s %s %s %s %s)'
                % (dispenv.csig(sig), cm, xs, cjson(ctx_value(case)), cschema(case['schema']), cpp(case['params']), copt(obs['js'], cbool), cobs(obs['obs'])))
    vd = clist('(%s, %s)' % (cstr(n), '(Some %s)' % cjson(v[1]) if v[0] == 'ok' else 'None') for n, v in obs['verdicts'].items())
    return ('(C14.CTyped %s %s %s %s %s %s %s %s)'
            % (dispenv.csig(sig), cm, xs, cjson(ctx_value(case)), vd, cbool(case['coerce']), cpp(case['params']), cobs(obs['obs'])))


def case_key(case):
    return json.dumps(case, sort_keys=True, default=repr)


def case_from_json(c):
    return c


def distribution(cases, obs):
    d = {}
    for c, o in zip(cases, obs):
        k = '%s%s:%s' % (c['t'], ' +predicate' if c.get('xs') else '', o['obs'][0] if o['obs'][0] != 'other' else 'code %s' % o['obs'][1])
        d[k] = d.get(k, 0) + 1
    return d
