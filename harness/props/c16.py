"""C16 - generated OpenAPI / OpenRPC documents are valid, closed, complete and pure."""
import copy
import hashlib
import itertools
import json
import os
import random
import re
from typing import Any, Dict, List, Optional

import jsonschema
import pydantic
import yaml

import pjrpc
from pjrpc.server import Dispatcher, MethodRegistry, ViewMixin
from pjrpc.server.specs import JSONEncoder as SpecEncoder
from pjrpc.server.specs import openapi as oa
from pjrpc.server.specs import openrpc as orpc
from pjrpc.server.specs.extractors.docstring import DocstringSchemaExtractor
from pjrpc.server.specs.extractors.pydantic import PydanticSchemaExtractor

from harness.lib.coqterm import cstr, clist, copt, cbool, cZ

ID = 'C16'
CASE_TYPE = 'C16.case'
EXTRA_IMPORTS = 'From PJ Require Import Model.Spec.\n'
RULE = ('method sets of 1..3 (quick) / 1..4 (thorough) methods drawn from a pool of functions with annotated scalar / container / model / '
        'optional parameter and return types (incl. None and missing) and docstrings with and without params / raises sections (reST, and numpy style with description-less entries); the same method name may be exposed by different functions at different endpoints; names that differ only by separator or casing (user_get / user.get, getUsers / get_users); '
        'annotation combinations: errors (own list, ONE list object shared between methods, none), tags, summary, '
        'description, deprecated, servers (Server objects with unset optional fields, in a list or a tuple; tags also as Tag objects in a tuple; servers / tags of the specification object likewise), component_name_prefix - every docstring, tag, summary and description carries a marker token unique to its method, and the tokens found in an entry (with the components it reaches) must be the method\'s own; functions at module level or (20%) overrides in a view class of a documented base-class method; extractor stacks {pydantic, pydantic+docstring, docstring+pydantic, pydantic given model configuration arguments (alone, +docstring)}; endpoint '
        'prefixes (OpenAPI); 1..3 repeated generations on the same specification object (12%: the first one fails in a user-supplied exclusion predicate - that generation must raise, the following ones are judged); OpenAPI 3.0.3, 3.1.0 and OpenRPC. Each document '
        'is JSON-encoded and validated against the official meta-schema (tests). distinct = distinct case; non-trivial = at least two methods')
EXHAUSTIVE = {'quick': False, 'thorough': False}
TRUSTED_BASE = ['pydantic.model_json_schema and docstring_parser (the schema extractors): which components a method needs and which errors a '
                'docstring names are taken from the extractors themselves',
                'jsonschema + the meta-schemas under tests/server/resources (validity is a test, not a theorem)']
KNOWN_CLASSES = {'F18_oas30_meta_schema': 1, 'F20_same_name_component_collision': 2}
ASSUMPTIONS = ['OpenRPC describes the methods of the main endpoint only (the format has no endpoint notion); error classes used have codes that '
               'occur nowhere else in the documents']

RES = os.path.join(os.environ.get('VERIF_REPO', '/repo'), 'tests', 'server', 'resources')
_meta = {}


def meta(kind):
    if kind not in _meta:
        if kind == 'rpc':
            _meta[kind] = json.load(open(os.path.join(RES, 'openrpc-1.3.2.json')))
        else:
            _meta[kind] = yaml.unsafe_load(open(os.path.join(RES, 'oas-%s-meta.yaml' % kind)))
    return _meta[kind]


class E1(pjrpc.exceptions.JsonRpcError):
    code, message = 2001, 'e one'


class E2(pjrpc.exceptions.JsonRpcError):
    code, message = 2002, 'e two'


class E3(pjrpc.exceptions.JsonRpcError):
    code, message = 2003, 'e three'


class E4(pjrpc.exceptions.JsonRpcError):
    code, message = 2004, 'e four'


ERR = {'E1': E1, 'E2': E2, 'E3': E3, 'E4': E4}


class Item(pydantic.BaseModel):
    name: str
    qty: int = 1


SIGS = [
    ('a: int, b: str = "x"', 'int'), ('items: List[int]', 'List[str]'), ('item: Item', 'Item'), ('x: Optional[int] = None', 'None'),
    ('flag: bool, *, k: float = 0.5', None), ('', 'Dict[str, int]'), ('d: Dict[str, Any]', 'Optional[Item]'),
    ('age: int, name: str = "x"', 'int'),
]
NUMPY_SIG = 7
DOCS = [None, 'Plain summary.', 'Summary line.\n\n    Long description.\n\n    :param a: the a\n    :returns: something',
        'Doc with raises.\n\n    :raises E2: second error', 'Doc.\n\n    :raises E3: third\n    :raises E4: fourth\n    :deprecated: 1.0 old',
        # numpy style, entries WITHOUT description text (the extractor leaves its 'unset' marker there for the generator to drop)
        'Summary.\n\n    Parameters\n    ----------\n    age : int\n    name : str\n        The name.\n\n    Returns\n    -------\n    int']
NUMPY_DOC = 5


TOKEN_RE = re.compile(r'Tk[A-Z]?\d+q')
_view_modules = []


def make_fn(name, sig_i, doc_i, idx=0, view=False):
    """The function exposed as [name]: a module-level function, or (view) the undocumented-or-documented override V.<fname> of a
    documented base-class method B.<fname> whose docstring (token TkB<idx>q, an error, a parameter) belongs to no registered method.
    A docstring carries the token Tk<idx>q in its first sentence."""
    params, ret = SIGS[sig_i]
    ns = {'List': List, 'Optional': Optional, 'Dict': Dict, 'Any': Any, 'Item': Item, 'E1': E1, 'E2': E2, 'E3': E3, 'E4': E4,
          'ViewMixin': ViewMixin}
    doc = DOCS[doc_i]
    if doc is not None and ':param a:' in doc and 'a:' not in params:
        doc = doc.replace(':param a: the a\n    ', '')
    if doc is not None:
        doc = 'Tk%dq %s' % (idx, doc)
    pyname = name.replace('.', '_dot_')          # the exposed name need not be an identifier; the function's own name is
    if not view:
        src = 'def %s(%s)%s:\n' % (pyname, params, (' -> %s' % ret) if ret else '')
        if doc is not None:
            src += '    """%s\n    """\n' % doc
        src += '    return None\n'
        exec(src, ns)
        f = ns[pyname]
        f.__module__ = __name__
        return f, None
    import sys
    import types
    fname = name.rsplit('.', 1)[-1]
    mod = types.ModuleType('harness_c16_view_%d_%d' % (len(_view_modules), idx))
    mod.__dict__.update(ns)
    sys.modules[mod.__name__] = mod
    _view_modules.append(mod.__name__)
    src = ('class B(ViewMixin):\n    def %s(self, zz: int = 0) -> int:\n        """TkB%dq Foreign summary. Foreign long text.\n\n'
           '        :param zz: foreign parameter\n        :raises E1: foreign error\n        """\n        return 0\n\n\n'
           % (fname, idx))
    src += 'class V(B):\n    def %s(%s)%s:\n' % (fname, ', '.join(x for x in ('self', params) if x), (' -> %s' % ret) if ret else '')
    if doc is not None:
        src += '        """%s\n        """\n' % doc.replace('\n    ', '\n        ')
    src += '        return None\n'
    exec(compile(src, mod.__name__, 'exec'), mod.__dict__)
    return mod.V.__dict__[fname], mod.V


def drop_view_modules():
    import sys
    while _view_modules:
        sys.modules.pop(_view_modules.pop(), None)


def generate(seed, tier):
    rnd = random.Random(seed)
    cases = []
    n = 420 if tier == 'quick' else 4000
    for _ in range(n):
        k = rnd.randint(1, 3 if tier == 'quick' else 4)
        shared_used = rnd.random() < 0.5
        ms = []
        kind = rnd.choice(['3.0.3', '3.1.0', 'rpc'])
        taken = set()
        for i in range(k):
            endpoint = rnd.choice(['', '', '/v2'])
            # the same method name may be exposed (by different functions) at different endpoints
            name = rnd.choice(['m%d' % i, 'get', 'get', 'user_get', 'user.get', 'getUsers', 'get_users'])
            if (name, '' if kind == 'rpc' else endpoint) in taken:
                name = 'm%d' % i
            taken.add((name, '' if kind == 'rpc' else endpoint))
            m = {'name': name, 'sig': rnd.randrange(NUMPY_SIG), 'doc': rnd.randrange(NUMPY_DOC),
                 'errors': rnd.choice(['shared', 'shared', 'own', None] if shared_used else ['own', None]),
                 'own': rnd.sample(['E1', 'E2', 'E3', 'E4'], rnd.randint(0, 2)),
                 # prefixes incl. ones that coincide with the beginning of generated component names (MethodNameParameters, Item, ...)
                 'prefix': rnd.choice([None, None, 'P%d_' % i, '', 'M', 'Get', 'Item', 'M%d' % i]), 'tags': rnd.choice([None, ['TkT%dq' % i], ['TkT%dq' % i, 'TkU%dq' % i]]),
                 'summary': rnd.choice([None, 'TkS%dq S' % i]), 'description': rnd.choice([None, 'TkD%dq D' % i]), 'deprecated': rnd.choice([None, True]),
                 'endpoint': endpoint,
                 # servers=... of annotate: spec objects with unset optional fields, handed over in a list or in a tuple
                 'servers': rnd.choice([None, None, None, 'list', 'tuple']), 'tagobj': rnd.random() < 0.3}
            if kind != 'rpc' and rnd.random() < 0.15:
                m['sig'], m['doc'] = NUMPY_SIG, NUMPY_DOC
            ms.append(m)
        cases.append({'kind': kind, 'methods': ms, 'shared': rnd.sample(['E1', 'E2', 'E3'], rnd.randint(1, 2)),
                      'stack': rnd.choice(['pyd', 'pyd+doc', 'doc+pyd', 'pydcfg', 'pydcfg+doc']), 'global_prefix': rnd.choice(['', '', 'G_', 'M', 'Get']),
                      'gens': rnd.choice([1, 2, 3]), 'view': rnd.random() < 0.2,
                      'genfail': rnd.random() < 0.12,
                      'spec_servers': rnd.choice([None, None, 'list', 'tuple']), 'spec_tags': rnd.choice([None, None, 'list', 'tuple'])})
    return cases


class NotWired(RuntimeError):
    pass


def stack_of(name, failing=None):
    if failing is not None:
        # a user-supplied exclusion predicate that raises on its first use (a DI container not wired yet) and works afterwards
        def pred(pname, annotation, default):
            if failing['armed']:
                failing['armed'] = False
                raise NotWired('container not wired')
            return False
        rest = [DocstringSchemaExtractor()] if name.endswith('+doc') else []
        return [PydanticSchemaExtractor(exclude_param=pred)] + rest
    return stack_of_plain(name)


def stack_of_plain(name):
    # pydcfg: an extractor given model configuration arguments (they are applied to every model it builds)
    return {'pyd': [PydanticSchemaExtractor()], 'pyd+doc': [PydanticSchemaExtractor(), DocstringSchemaExtractor()],
            'doc+pyd': [DocstringSchemaExtractor(), PydanticSchemaExtractor()],
            'pydcfg': [PydanticSchemaExtractor(str_strip_whitespace=True)],
            'pydcfg+doc': [PydanticSchemaExtractor(str_strip_whitespace=True), DocstringSchemaExtractor()]}[name]


def all_refs(x, acc):
    if isinstance(x, dict):
        for k, v in x.items():
            if k == '$ref' and isinstance(v, str):
                acc.append(v)
            else:
                all_refs(v, acc)
    elif isinstance(x, list):
        for v in x:
            all_refs(v, acc)
    return acc


CODE_RE = re.compile(r'\*\*(-?\d+)\*\*')


def documented_codes(entry, components):
    """Error codes documented by an entry: in the entry itself or in any component reachable from it."""
    seen, todo, codes = set(), [entry], set()

    def walk(x):
        if isinstance(x, dict):
            c = x.get('code')
            if isinstance(c, dict):
                for v in ([c['const']] if 'const' in c else []) + list(c.get('enum', [])):
                    if isinstance(v, int):
                        codes.add(v)
            elif isinstance(c, int) and 'message' in x:
                codes.add(c)
            for k, v in x.items():
                if k == '$ref' and isinstance(v, str):
                    name = v.rsplit('/', 1)[-1]
                    if name not in seen and name in components:
                        seen.add(name)
                        todo.append(components[name])
                else:
                    walk(v)
        elif isinstance(x, list):
            for v in x:
                walk(v)
        elif isinstance(x, str):
            for m in CODE_RE.finditer(x):
                codes.add(int(m.group(1)))
    while todo:
        walk(todo.pop())
    return sorted(c for c in codes if 2000 <= c <= 2010)


def closure(entry, comps):
    """An entry together with every component reachable from it."""
    seen, out, todo = set(), [entry], [entry]
    while todo:
        for r in all_refs(todo.pop(), []):
            name = r.rsplit('/', 1)[-1]
            if name not in seen and name in comps:
                seen.add(name)
                out.append(comps[name])
                todo.append(comps[name])
    return out


def own_tokens(m, i):
    """(tokens that may occur in the method's entry, tokens that must): its own docstring's; its own annotations'."""
    must = list(m['tags'] or []) + [x.split()[0] for x in (m['summary'], m['description']) if x] + (['TkV%dq' % i] if m.get('servers') else [])
    return (['Tk%dq' % i] if DOCS[m['doc']] is not None else []) + must, must


def request_method_name(entry, comps, rpc):
    if rpc:
        return entry.get('name', '')
    try:
        sch = entry['post']['requestBody']['content']['application/json']['schema']
        if '$ref' in sch:
            sch = comps[sch['$ref'].rsplit('/', 1)[-1]]
        m = sch['properties']['method']
        return m['const'] if 'const' in m else m['enum'][0]
    except Exception:
        return ''


def documented_params(entry, comps, rpc):
    """The parameter names an entry documents (None when the request schema has no recognisable parameter object)."""
    if rpc:
        return sorted(p.get('name', '?') for p in entry.get('params', []))
    try:
        sch = entry['post']['requestBody']['content']['application/json']['schema']
        if '$ref' in sch:
            sch = comps[sch['$ref'].rsplit('/', 1)[-1]]
        ps = sch['properties']['params']
        if '$ref' in ps:
            ps = comps[ps['$ref'].rsplit('/', 1)[-1]]
        return sorted(ps.get('properties', {}))
    except Exception:
        return None


def observe(case):
    rpc = case['kind'] == 'rpc'
    mod = orpc if rpc else oa
    shared = [ERR[e] for e in case['shared']]
    user_lists = [shared]
    fns, heap_idx, views = [], [], []
    for i, m in enumerate(case['methods']):
        f, view = make_fn(m['name'], m['sig'], m['doc'], i, bool(case.get('view')))
        views.append(view)
        kw = {}
        idx = None
        if m['errors'] == 'shared':
            kw['errors'], idx = shared, 0
        elif m['errors'] == 'own':
            own = [ERR[e] for e in m['own']]
            user_lists.append(own)
            kw['errors'], idx = own, len(user_lists) - 1
        for key in ('tags', 'summary', 'description', 'deprecated'):
            if m[key] is not None:
                kw[key] = m[key]
        if m.get('tagobj') and 'tags' in kw:
            kw['tags'] = tuple(mod.Tag(name=t) for t in kw['tags'])       # Tag objects (optional fields unset) in a tuple
        if m.get('servers'):
            sv = [mod.Server(url='http://TkV%dq.example/' % i, **({'name': 'n%d' % i} if rpc else {}))]
            kw['servers'] = sv if m['servers'] == 'list' else tuple(sv)
        if not rpc and m['prefix'] is not None:
            kw['component_name_prefix'] = m['prefix']
        if rpc and 'errors' in kw:
            kw['errors'] = None      # replaced below: OpenRPC takes Error objects
        if rpc:
            if idx is not None:
                lst = user_lists[idx]
                if lst and isinstance(lst[0], type):
                    user_lists[idx] = lst = [orpc.Error(code=e.code, message=e.message) for e in lst]
                    if idx == 0:
                        shared = lst
                kw['errors'] = lst
            else:
                kw.pop('errors', None)
        f = mod.annotate(**kw)(f) if kw else f
        fns.append(f)
        heap_idx.append(idx)
    regs = {}
    for m, f, view in zip(case['methods'], fns, views):
        ep = '' if rpc else m['endpoint']
        d = regs.setdefault(ep, Dispatcher())
        if view is None:
            d.add(f, name=m['name'])
        else:
            d.registry.view(view, prefix=m['name'].rsplit('.', 1)[0] if '.' in m['name'] else None)
    methods_map = {ep: list(d.registry.values()) for ep, d in regs.items()}
    failing = {'armed': True} if (case.get('genfail') and case['stack'] in ('pyd', 'pyd+doc')) else None
    the_stack = stack_of(case['stack'], failing)
    skw = {}
    if case.get('spec_servers'):
        sv = [mod.Server(url='http://spec.example/', **({'name': 'main'} if rpc else {}))]
        skw['servers'] = sv if case['spec_servers'] == 'list' else tuple(sv)
    if case.get('spec_tags') and not rpc:
        tg = [oa.Tag(name='general')]
        skw['tags'] = tg if case['spec_tags'] == 'list' else tuple(tg)
    if rpc:
        spec = orpc.OpenRPC(info=orpc.Info(version='1', title='t'), schema_extractor=the_stack[0], **skw)
    else:
        spec = oa.OpenAPI(info=oa.Info(version='1', title='t'), schema_extractors=the_stack, openapi=case['kind'],
                          error_http_status_map={2001: 422, 2003: 404}, **skw)

    def snapshot():
        return [[e.code for e in lst] for lst in user_lists]
    before = snapshot()
    gens, heaps = [], []
    for _ in range(case['gens'] + (1 if failing else 0)):
        try:
            doc = spec.schema(path='/api', methods_map=methods_map, **({} if rpc else {'component_name_prefix': case['global_prefix']}))
        except NotWired:
            # the user's own failure travels to the caller of schema(); that generation yields no document (and is not judged),
            # the following ones must be complete
            continue
        except Exception as e:
            gens.append({'keys': [], 'entries': [], 'names': [], 'params': [], 'tokens': [], 'components': [], 'refs': ['<generation raised %s>' % type(e).__name__], 'digest': 'x',
                         'json_ok': False, 'meta_ok': False})
            heaps.append(snapshot())
            continue
        try:
            text = json.dumps(doc, cls=SpecEncoder, sort_keys=True)
            json_ok = True
            plain = json.loads(text)
        except Exception:
            text, json_ok, plain = repr(doc), False, None
        meta_ok = False
        if plain is not None:
            try:
                jsonschema.validate(plain, meta('rpc' if rpc else case['kind'][:3]))
                meta_ok = True
            except Exception:
                meta_ok = False
        comps = (doc.get('components') or {}).get('schemas') or {}
        if rpc:
            keys = [m['name'] for m in doc['methods']]
            entries = [(m['name'], m) for m in doc['methods']]
        else:
            keys = list(doc['paths'])
            entries = list(doc['paths'].items())
        ent, names, dparams, toks = [], [], [], []
        for k, e in entries:
            toks.append((k, sorted(set(TOKEN_RE.findall(json.dumps(closure(e, comps), cls=SpecEncoder, default=repr))))))
            names.append((k, request_method_name(e, comps, rpc)))
            dp = documented_params(e, comps, rpc)
            if dp is not None:
                dparams.append((k, dp))
            direct = sorted({r.rsplit('/', 1)[-1] for r in all_refs(e, [])})
            codes = set(documented_codes(e, comps))
            if not rpc:
                # an error mapped to its own HTTP status is documented by a response entry under that status (some extractors
                # give it an empty schema)
                for status, code in (('422', 2001), ('404', 2003)):
                    if status in e['post']['responses']:
                        codes.add(code)
            ent.append((k, sorted(codes), direct))
        refs = sorted({r.rsplit('/', 1)[-1] if r.startswith('#/components/schemas/') else r for r in all_refs(doc, [])})
        gens.append({'keys': keys, 'entries': ent, 'names': names, 'params': dparams, 'tokens': toks, 'components': sorted(comps), 'refs': refs,
                     'digest': hashlib.md5(text.encode()).hexdigest(), 'json_ok': json_ok, 'meta_ok': meta_ok})
        heaps.append(snapshot())
    # oracle: which errors the extractors report for each function
    ext = []
    stack = stack_of(case['stack'])
    for f in fns:
        codes = []
        for ex in (stack[:1] if rpc else stack):
            for e in (ex.extract_errors(f) or []):
                codes.append(e.code)
        ext.append(codes)
    # oracle: the functions' own parameter names (the pydantic extractor documents the signature; a docstring-first stack
    # documents what the docstring says, which is the user's text and not judged)
    import inspect
    own = [sorted(p for p in inspect.signature(f).parameters if not (v is not None and p == 'self')) if case['stack'].startswith('pyd') else None
           for f, v in zip(fns, views)]
    drop_view_modules()
    return {'before': before, 'gens': gens, 'heaps': heaps, 'heap_idx': heap_idx, 'ext': ext, 'own_params': own}


def cheap(h):
    return clist(clist(cZ(c) for c in lst) for lst in h)


def encode(case, obs):
    rpc = case['kind'] == 'rpc'
    ms = []
    triples = list(zip(case['methods'], obs['heap_idx'], obs['ext']))
    own_params = []
    for m, ps in zip(case['methods'], obs['own_params']):
        if ps is not None:
            own_params.append('(%s, %s)' % (cstr(m['name'] if rpc else '/api%s#%s' % (m['endpoint'], m['name'])), clist(cstr(x) for x in ps)))
    tokens = []
    for i, m in enumerate(case['methods']):
        may, must = own_tokens(m, i)
        tokens.append('(%s, (%s, %s))' % (cstr(m['name'] if rpc else '/api%s#%s' % (m['endpoint'], m['name'])),
                                          clist(cstr(x) for x in may), clist(cstr(x) for x in must)))
    if not rpc:
        # the methods map groups the methods by endpoint (endpoints in order of first use), as an application does
        order = []
        for m, _, _ in triples:
            if m['endpoint'] not in order:
                order.append(m['endpoint'])
        triples.sort(key=lambda t: order.index(t[0]['endpoint']))
    for m, idx, ext in triples:
        key = m['name'] if rpc else '/api%s#%s' % (m['endpoint'], m['name'])
        ms.append('{| sm_key := %s; sm_ann_errors := %s; sm_ext_errors := %s; sm_prefix := %s; sm_comps := []; sm_refs := [] |}'
                  % (cstr(key), copt(idx, lambda i: '%d%%nat' % i), clist(cZ(c) for c in ext),
                     copt(None if rpc else m['prefix'], cstr)))
    gens = []
    for g in obs['gens']:
        ents = clist('(%s, (%s, %s))' % (cstr(k), clist(cZ(c) for c in codes), clist(cstr(r) for r in refs)) for k, codes, refs in g['entries'])
        gens.append('{| g_keys := %s; g_entries := %s; g_names := %s; g_params := %s; g_tokens := %s; g_components := %s; g_all_refs := %s; g_digest := %s; g_json_ok := %s; g_meta_ok := %s |}'
                    % (clist(cstr(k) for k in g['keys']), ents, clist('(%s, %s)' % (cstr(k), cstr(n)) for k, n in g['names']),
                       clist('(%s, %s)' % (cstr(k), clist(cstr(x) for x in ps)) for k, ps in g['params']),
                       clist('(%s, %s)' % (cstr(k), clist(cstr(x) for x in ts)) for k, ts in g['tokens']),
                       clist(cstr(c) for c in g['components']), clist(cstr(r) for r in g['refs']),
                       cstr(g['digest']), cbool(g['json_ok']), cbool(g['meta_ok'])))
    return ('{| is_rpc := %s; oas30 := %s; global_prefix := %s; heap_before := %s; methods := %s; own_params := %s; tokens := %s; gens := %s; heaps_after := %s |}'
            % (cbool(rpc), cbool(case['kind'].startswith('3.0')), cstr('' if rpc else case['global_prefix']), cheap(obs['before']), clist(ms), clist(own_params), clist(tokens), clist(gens),
               clist(cheap(h) for h in obs['heaps'])))


def case_key(case):
    return json.dumps(case, sort_keys=True)


def case_from_json(c):
    return c


def distribution(cases, obs):
    d = {}
    for c, o in zip(cases, obs):
        k = '%s methods=%d gens=%d stack=%s' % (c['kind'], len(c['methods']), c['gens'], c['stack'])
        d[k] = d.get(k, 0) + 1
        if not all(g['meta_ok'] for g in o['gens']):
            d['meta-schema invalid'] = d.get('meta-schema invalid', 0) + 1
    return d


def shrink_candidates(case):
    ms = case['methods']
    for i in range(len(ms)):
        if len(ms) > 1:
            yield dict(case, methods=ms[:i] + ms[i + 1:])
    if case['gens'] > 1:
        yield dict(case, gens=case['gens'] - 1)
