"""C17 - documented parameters are the accepted parameters."""
import inspect
import itertools
import json
import random
import typing

import pjrpc
from pjrpc.server import AsyncDispatcher, Dispatcher, MethodRegistry, ViewMixin
from pjrpc.server.specs import openapi as oa
from pjrpc.server.specs import openrpc as orpc
from pjrpc.server.specs.extractors.pydantic import PydanticSchemaExtractor
from pjrpc.server.validators import BaseValidator

from harness.lib import dispenv
from harness.lib.coqterm import cjson, cstr, clist, cbool

ID = 'C17'
CASE_TYPE = 'C17.case'
EXTRA_IMPORTS = 'From PJ Require Import Model.Bind Lemmas.BindL.\n'
RULE = ('all signatures of 0..3 (quick) / 0..4 (thorough) parameters over positional-or-keyword / keyword-only kinds x defaults x '
        '{no context, context parameter by name at each position} x {function, coroutine, class-based view method (own, inherited from a base view, @staticmethod)} (+ the same function registered a second time without the context designation and served first) (+ an exclusion predicate shared by the validator and the schema extractor, selecting each non-empty subset of the defaulted parameters, by name, by the type of the default, by the absence of an annotation or by a marker in Annotated metadata); for each the OpenAPI '
        '3.0 / 3.1 request schema and the OpenRPC params list are REALLY generated (pydantic extractor) and their properties / required '
        'read out; every params object over subsets of (parameter names + one undocumented name + the context name) is dispatched. '
        'distinct = distinct (signature, context, kind); non-trivial = the signature has a parameter')
EXHAUSTIVE = {'quick': True, 'thorough': True}
TRUSTED_BASE = ['pydantic.create_model / model_json_schema list exactly the declared fields, required = fields without default (checked on every case)']
ASSUMPTIONS = ['parameters are unannotated (typed Any), so only names and required-ness decide acceptance']

NAMES = 'abcd'


def signatures(maxn):
    for n in range(0, maxn + 1):
        for ks in itertools.product(['PK', 'KO'], repeat=n):
            if any(a == 'KO' and b == 'PK' for a, b in zip(ks, ks[1:])):
                continue
            for ds in itertools.product([False, True], repeat=n):
                sig = [(NAMES[i], ks[i], ds[i]) for i in range(n)]
                seen = False
                okd = True
                for _, k, d in sig:
                    if k == 'PK':
                        if d:
                            seen = True
                        elif seen:
                            okd = False
                if okd:
                    yield sig


def generate(seed, tier):
    rnd = random.Random(seed)
    cases = []
    for sig in signatures(3 if tier == 'quick' else 4):
        ctxs = [None] + [n for n, k, d in sig if not d]
        for ctx in ctxs:
            for kind in ('function', 'coroutine', 'view', 'view-inherited', 'view-static'):
                if kind.startswith('view') and ctx is not None:
                    continue
                cases.append({'sig': sig, 'ctx': ctx, 'kind': kind})
                if ctx is not None and kind == 'function':
                    # the same function also registered WITHOUT the context designation and served first
                    cases.append({'sig': sig, 'ctx': ctx, 'kind': kind, 'twin': True})
                    # ... and the other way round: the registration WITH the context is served first, the plain one is judged
                    cases.append({'sig': sig, 'ctx': ctx, 'kind': kind, 'twin': 'plain'})
                if kind in ('function', 'coroutine'):
                    # an exclusion predicate (dependency injection): every non-empty subset of the defaulted parameters
                    dflt = [n for n, k, d in sig if d and n != ctx]
                    for r in range(1, len(dflt) + 1):
                        for xs in itertools.combinations(dflt, r):
                            cases.append({'sig': sig, 'ctx': ctx, 'kind': kind, 'xs': list(xs),
                                          'xmode': ('default', 'name', 'unannotated', 'annotated')[len(cases) % 4]})
                if kind == 'view' and sig:
                    # a handler parameter that merely shares the name of the view's context ('ctx'): an ordinary parameter
                    ren = [('ctx',) + tuple(sig[0][1:])] + [tuple(p) for p in sig[1:]]
                    cases.append({'sig': ren, 'ctx': None, 'kind': kind})
    return cases


class Inject(str):
    pass


class Injected:
    """Marker object placed in Annotated[...] metadata."""


def predicate(case):
    xs = tuple(case.get('xs') or ())
    if not xs:
        return None
    if case.get('xmode') == 'default':
        return lambda name, annotation, default: isinstance(default, Inject)
    if case.get('xmode') == 'annotated':
        # dependency-injection marker carried in Annotated metadata: x: Annotated[Any, Injected()]
        return lambda name, annotation, default: (typing.get_origin(annotation) is typing.Annotated
                                                  and any(isinstance(m, Injected) for m in typing.get_args(annotation)[1:]))
    if case.get('xmode') == 'unannotated':
        # "whatever carries no annotation is injected": looks at the RAW annotation of the parameter
        return lambda name, annotation, default: annotation is inspect.Parameter.empty
    return lambda name, annotation, default: name in xs


def build(case):
    sig = [tuple(p) for p in case['sig']]
    params = dispenv.sig_source(sig)
    xs = case.get('xs') or ()
    if xs:
        parts, star = [], False
        for n, k, d in sig:
            if k == 'KO' and not star:
                parts.append('*')
                star = True
            ann = ': Any' if (case.get('xmode') == 'unannotated' and n not in xs and n != case.get('ctx')) else ''
            if case.get('xmode') == 'annotated' and n in xs:
                ann = ': Annotated[Any, INJECTED]'
            parts.append('%s%s%s' % (n, ann, (' = INJ' if (n in xs and case.get('xmode') == 'default') else ' = 0') if d else ''))
        params = ', '.join(parts)
    is_async = case['kind'] == 'coroutine'
    disp = (AsyncDispatcher if is_async else Dispatcher)()
    ns = {'ViewMixin': ViewMixin, 'INJ': Inject('inj'), 'Any': typing.Any, 'Annotated': typing.Annotated, 'INJECTED': Injected()}
    if case['kind'] == 'view-inherited':
        # the handler is defined in a base view; the registered view only inherits it
        exec('class B(ViewMixin):\n    def __init__(self, ctx=None):\n        pass\n    def f(this%s):\n        return 1\n'
             'class V(B):\n    pass\n' % ((', ' + params) if params else ''), ns)
        reg = MethodRegistry()
        reg.view(ns['V'], context='ctx')
        disp.add_methods(reg)
    elif case['kind'] == 'view-static':
        exec('class V(ViewMixin):\n    def __init__(self, ctx=None):\n        pass\n    @staticmethod\n    def f(%s):\n        return 1\n'
             % params, ns)
        reg = MethodRegistry()
        reg.view(ns['V'], context='ctx')
        disp.add_methods(reg)
    elif case['kind'] == 'view':
        exec('class V(ViewMixin):\n    def __init__(self, ctx=None):\n        pass\n    def f(self%s):\n        return 1\n'
             % ((', ' + params) if params else ''), ns)
        reg = MethodRegistry()
        reg.view(ns['V'], context='ctx')
        disp.add_methods(reg)
    else:
        exec('%sdef f(%s):\n    return 1\n' % ('async ' if is_async else '', params), ns)
        if xs:
            ns['f'] = BaseValidator(exclude_param=predicate(case)).validate(ns['f'])
        if case['ctx']:
            disp.add(ns['f'], context=case['ctx'])
        else:
            disp.add(ns['f'])
        if case.get('twin'):
            disp.add(ns['f'], name='g')
    return disp, is_async


def doc_params(disp, pred=None, target='f'):
    out = []
    methods = {'': list(disp.registry.values())}
    for version in ('3.0.3', '3.1.0'):
        spec = oa.OpenAPI(info=oa.Info(version='1', title='t'), schema_extractor=PydanticSchemaExtractor(exclude_param=pred), openapi=version)
        doc = spec.schema(path='/', methods_map=methods)
        json.dumps(doc)
        comps = doc.get('components', {}).get('schemas', {})
        cand = [v for k, v in comps.items() if k.lower() == target + 'parameters']
        assert len(cand) == 1, list(comps)
        out.append((sorted(cand[0].get('properties', {})), sorted(cand[0].get('required', []))))
    spec = orpc.OpenRPC(info=orpc.Info(version='1', title='t'), schema_extractor=PydanticSchemaExtractor(exclude_param=pred))
    doc = spec.schema(path='/', methods_map=methods)
    json.dumps(doc)
    ps = [m for m in doc['methods'] if m['name'] == target][0]['params']
    out.append((sorted(p['name'] for p in ps), sorted(p['name'] for p in ps if p.get('required'))))
    return out


def observe(case):
    disp, is_async = build(case)
    target = 'g' if case.get('twin') == 'plain' else 'f'
    if case.get('twin'):
        first = 'f' if target == 'g' else 'g'
        disp.dispatch(json.dumps({'jsonrpc': '2.0', 'id': 0, 'method': first,
                                  'params': {p[0]: 0 for p in case['sig'] if not (first == 'f' and p[0] == case['ctx'])}}), context='CTX')
    docs = doc_params(disp, predicate(case), target)
    names = [p[0] for p in case['sig']]
    universe = names + ['zz'] + (['ctx', 'self', 'this'] if case['kind'].startswith('view') else [])
    probes = []
    for r in range(len(universe) + 1):
        for sub in itertools.combinations(universe, r):
            d = {n: 1 for n in sub}
            text = json.dumps({'jsonrpc': '2.0', 'id': 1, 'method': target, 'params': d})
            res = dispenv.loop().run_until_complete(disp.dispatch(text, context='CTX')) if is_async else disp.dispatch(text, context='CTX')
            doc = json.loads(res[0])
            probes.append((d, 'error' in doc and doc['error']['code'] == -32602, doc.get('error', {}).get('code')))
    return {'docs': docs, 'probes': probes}


def encode(case, obs):
    sig = [tuple(p) for p in case['sig']]
    excl = ([case['ctx']] if (case['ctx'] and case.get('twin') != 'plain') else []) + list(case.get('xs') or ())
    docs = clist('(%s, %s)' % (clist(cstr(n) for n in names), clist(cstr(n) for n in req)) for names, req in obs['docs'])
    for d, refused, code in obs['probes']:
        if code not in (None, -32602):
            raise ValueError('unexpected error code %r for params %r' % (code, d))
    probes = clist('(%s, %s)' % (clist('(%s, %s)' % (cstr(k), cjson(v)) for k, v in d.items()), cbool(r)) for d, r, _ in obs['probes'])
    return ('{| csig := %s; cexcl := %s; doc_names := %s; probes := %s |}' % (dispenv.csig(sig), clist(cstr(x) for x in excl), docs, probes))


def case_key(case):
    return json.dumps(case, sort_keys=True)


def case_from_json(c):
    return c


def distribution(cases, obs):
    d = {}
    for c, o in zip(cases, obs):
        k = '%s ctx=%s%s accepted=%d refused=%d' % (c['kind'], 'yes' if c['ctx'] else 'no', ' predicate' if c.get('xs') else '', sum(1 for p in o['probes'] if not p[1]), sum(1 for p in o['probes'] if p[1]))
        d[k] = d.get(k, 0) + 1
    return d
