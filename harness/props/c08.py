"""C08 - the client matches responses to requests by id and rejects mismatches."""
import itertools
import json
import random

import pjrpc

from harness.lib import clientenv as ce
from harness.lib.coqterm import cstr, cbool, clist

ID = 'C08'
CASE_TYPE = 'C08.case'
EXTRA_IMPORTS = ce.CLIENT_IMPORTS
RULE = ('single calls: id relation {equal, different, null, type-confused ("1" for 1, 1 for "1")} x request ids {1, 0, "1", "", 2**64} x '
        'result / error (registered and unregistered code, data absent / null / value) x invalid bodies (every JSON type, missing or '
        'wrong members) x strict on/off x sync/async x error base class. batches of 1..3 (quick) / 1..4 (thorough) calls plus an '
        'optional notification: every permutation of the response array, every single omission / duplication / addition, "1" for 1, a '
        'null-id element added at each position, every success/error mix, batch-level error object, invalid arrays; every accepted batch is also read through batch.add(...).call() on a fresh client; a quarter of the cases on a client that has already completed a call and a batch. distinct = '
        'distinct (mode, requests, body); non-trivial = the body is a JSON object (single) / non-empty array (batch)')
EXHAUSTIVE = {'quick': True, 'thorough': True}
TRUSTED_BASE = ['json.loads / json.dumps (the body documents are float-free JSON values)']
ASSUMPTIONS = ['the transport returns exactly the scripted text']

A = '<absent>'


def resp(i, kind='r', val=None):
    d = {'jsonrpc': '2.0', 'id': i}
    if kind == 'r':
        d['result'] = val
    elif kind == 'e':
        d['error'] = {'code': -32601, 'message': 'nf'}
    elif kind == 'e2':
        d['error'] = {'code': 7, 'message': '', 'data': None}
    else:
        d['error'] = {'code': 0, 'message': 'z', 'data': {'k': [1]}}
    return d


def single_cases():
    out = []
    for qid in (1, 0, '1', '', 2 ** 64):
        q = {'method': 'm', 'params': [1], 'id': qid}
        rel = [qid, None, 2, '1' if qid == 1 else (1 if qid == '1' else str(qid)), 'x', 0]
        for rid in rel:
            for kind in ('r', 'e', 'e2', 'e3'):
                out.append((q, ('json', resp(rid, kind, val=[rid]))))
        for bad in (1, None, 'x', [], {}, [resp(qid)], {'jsonrpc': '2.0', 'id': qid}, {'jsonrpc': '1.0', 'id': qid, 'result': 1},
                    {'jsonrpc': '2.0', 'id': qid, 'result': 1, 'error': {'code': 1, 'message': 'm'}},
                    {'jsonrpc': '2.0', 'id': qid, 'error': {'code': '1', 'message': 'm'}}, {'jsonrpc': '2.0', 'id': [1], 'result': 1},
                    {'jsonrpc': '2.0', 'id': qid, 'error': {'code': [-32601], 'message': 'm'}},         # unhashable code
                    {'jsonrpc': '2.0', 'id': qid, 'error': {'code': {}, 'message': 'm'}}, {'jsonrpc': [], 'id': qid, 'result': 1},
                    {'jsonrpc': '2.0', 'id': True, 'result': 1}, {'id': qid, 'result': 1}):
            out.append((q, ('json', bad)))
        out.append((q, ('garbage', '{nope')))
        out.append((q, ('none',)))
    # notifications
    n = {'method': 'm', 'params': None, 'id': None}
    for b in (('none',), ('empty',), ('json', resp(None)), ('json', []), ('garbage', 'x'), ('garbage', '\n'), ('garbage', ' \t '), ('garbage', '\r\n')):
        out.append((n, b))
    return out


def batch_cases(maxn):
    out = []
    for ids_pool in ([1, 2, '1', 0], [0, '', 5, 'a']):        # the second pool starts with the falsy ids
      for n in range(1, maxn + 1):
          ids = ids_pool[:n]
          qs = [{'method': 'm%d' % k, 'params': [k], 'id': i} for k, i in enumerate(ids)]
          qsets = [qs, qs[:1] + [{'method': 'note', 'params': None, 'id': None}] + qs[1:]]
          good = [resp(i, 'r', 'v%s' % k) for k, i in enumerate(ids)]
          for qset in qsets:
              # every permutation of the complete answer
              for perm in itertools.permutations(good):
                  out.append((qset, ('json', list(perm))))
              # success/error mixes in reversed order
              for kinds in itertools.product(('r', 'e', 'e3'), repeat=n):
                  docs = [resp(i, k, 'v') for i, k in zip(ids, kinds)]
                  out.append((qset, ('json', docs[::-1])))
              # omissions, duplications, additions, type confusion, null ids
              for k in range(n):
                  out.append((qset, ('json', good[:k] + good[k + 1:])))
                  out.append((qset, ('json', good + [good[k]])))
                  out.append((qset, ('json', good + [resp(ids[k], 'e')])))          # the repeated id carried by an ERROR entry
                  out.append((qset, ('json', [resp(ids[k], 'e3')] + good)))
                  conf = dict(good[k], id=str(ids[k]) if isinstance(ids[k], int) else 1)
                  out.append((qset, ('json', good[:k] + [conf] + good[k + 1:])))
                  out.append((qset, ('json', good[:k] + [resp(None, 'e')] + good[k:])))
                  out.append((qset, ('json', good[:k] + [resp(None, 'r', 'extra')] + good[k:][::-1])))
              out.append((qset, ('json', good + [resp(99, 'r', 'x')])))
              out.append((qset, ('json', good + [resp(None, 'r', 1), resp(None, 'e')])))
              out.append((qset, ('json', [])))
              out.append((qset, ('json', resp(None, 'e'))))
              out.append((qset, ('json', resp(None, 'e3'))))
              out.append((qset, ('json', resp(1, 'e'))))
              out.append((qset, ('json', {'jsonrpc': '2.0', 'id': None})))
              out.append((qset, ('json', good[:-1] + [1])))
              out.append((qset, ('json', good[:-1] + [{'jsonrpc': '2.0', 'id': ids[-1], 'error': {'code': [1], 'message': 'm'}}])))
              out.append((qset, ('json', {'jsonrpc': '2.0', 'id': None, 'error': {'code': [1], 'message': 'm'}})))
              # lenient-mode material: a response nobody asked for in front of / behind answers that are out of call order
              out.append((qset, ('json', [resp(99, 'r', 'x')] + good[::-1])))
              out.append((qset, ('json', good[::-1] + [resp(99, 'r', 'x')])))
              out.append((qset, ('json', good[:-1] + [{'jsonrpc': '2.0', 'id': ids[-1]}])))
              out.append((qset, ('garbage', '[')))
              out.append((qset, ('none',)))
    # all-notification batch and duplicate request ids
    nn = [{'method': 'a', 'params': None, 'id': None}, {'method': 'b', 'params': {'k': 1}, 'id': None}]
    for b in (('none',), ('empty',), ('json', []), ('json', [resp(1)]), ('garbage', '\n'), ('garbage', '  ')):
        out.append((nn, b))
    out.append(([{'method': 'a', 'params': None, 'id': 1}, {'method': 'b', 'params': None, 'id': 1}], ('json', [resp(1)])))
    return out


def generate(seed, tier):
    rnd = random.Random(seed)
    cases = []
    for q, b in single_cases():
        for strict in (True, False):
            for is_async in (False, True):
                base = 'JsonRpcError' if rnd.random() < 0.7 else 'MethodNotFoundError'
                cases.append({'t': 'single', 'strict': strict, 'async': is_async, 'base': base, 'q': q, 'body': b})
    for qs, b in batch_cases(3 if tier == 'quick' else 4):
        for strict in (True, False):
            is_async = rnd.random() < 0.5
            cases.append({'t': 'batch', 'strict': strict, 'async': is_async, 'base': 'JsonRpcError', 'qs': qs, 'body': b})
    for i, c in enumerate(cases):
        if i % 4 == 0:
            c['warm'] = True
    return cases


def via_call(case, base):
    """The same requests built with batch.add / batch.notify on a fresh client whose id generator hands out the same ids, the
    same body, read through batch.call()."""
    script = ce.Script([('text', ce.body_text(tuple(case['body'])))])
    ids = [q['id'] for q in case['qs'] if q['id'] is not None]
    cl = ce.make_client(case['async'], script, strict=case['strict'], error_cls=base, id_gen_impl=lambda: iter(ids))

    def go():
        b = cl.batch
        for q in case['qs']:
            p = q['params']
            args, kw = (list(p), {}) if isinstance(p, (list, tuple)) else ([], dict(p or {}))
            if q['id'] is None:
                b.notify(q['method'], *args, **kw)
            else:
                b.add(q['method'], *args, **kw)
        return b.call()
    o = ce.run(case['async'], go)
    if o[0] == 'ok' and o[1] is not None:
        o = ('ok', list(o[1]))
    return ce.show_outcome(o)


def observe(case):
    script = ce.Script([('text', ce.body_text(tuple(case['body'])))])
    base = getattr(pjrpc.exceptions, case['base'])
    cl = ce.make_client(case['async'], script, strict=case['strict'], error_cls=base)
    if case.get('warm'):
        # the same client has already completed a call and a batch: matching must not depend on what was matched before
        script.steps = [('text', json.dumps({'jsonrpc': '2.0', 'id': 'w', 'result': 'warm'})),
                        ('text', json.dumps([{'jsonrpc': '2.0', 'id': 1, 'result': 'w1'}, {'jsonrpc': '2.0', 'id': 2, 'error': {'code': 1, 'message': 'w'}}]))] + script.steps
        ce.run(case['async'], lambda: cl.send(pjrpc.Request('warm', id='w')))
        ce.run(case['async'], lambda: cl.batch.send(pjrpc.BatchRequest(pjrpc.Request('a', id=1), pjrpc.Request('b', id=2))))
        script.sent = []
    if case['t'] == 'single':
        req = ce.mk_request(case['q'])
        o = ce.run(case['async'], lambda: cl.send(req))
        if o[0] == 'ok':
            r = o[1]
            if r is None:
                return ('ok', None)
            res = ce.run(False, lambda: r.result)
            return ('ok', {'resp': ce.show_response(r), 'related': ce.show_request(r.related), 'result': ce.show_outcome(res)})
        return o

    def go():
        breq = pjrpc.BatchRequest(*[ce.mk_request(q) for q in case['qs']])
        return cl.batch.send(breq)
    o = ce.run(case['async'], go)
    if o[0] == 'ok':
        b = o[1]
        if b is None:
            return ('ok', None)
        res = ce.run(False, lambda: list(b.result))
        via = via_call(case, base)
        if b.is_error:
            return ('ok', {'error': ce.show_error(b.error), 'result': ce.show_outcome(res), 'via_call': via})
        return ('ok', {'resps': [ce.show_response(r) for r in b], 'related': [ce.show_request(r.related) for r in b],
                       'result': ce.show_outcome(res), 'via_call': via})
    return o


def encode(case, obs):
    if case['t'] == 'single':
        return '(C08.CSingle %s %s %s %s %s)' % (cbool(case['strict']), cstr(case['base']), ce.crequest(case['q']),
                                                 ce.cbody(tuple(case['body'])), ce.ccres(obs))
    return '(C08.CBatch %s %s %s %s %s)' % (cbool(case['strict']), cstr(case['base']), clist(ce.crequest(q) for q in case['qs']),
                                            ce.cbody(tuple(case['body'])), ce.ccres(obs))


def case_key(case):
    return json.dumps([case['t'], case['strict'], case['async'], case['base'], case.get('q'), case.get('qs'), case['body'], case.get('warm')], default=repr)


def distribution(cases, obs):
    d = {}
    for c, o in zip(cases, obs):
        k = '%s strict=%s %s' % (c['t'], c['strict'], 'accepted' if o[0] == 'ok' else type(o[1]).__name__)
        d[k] = d.get(k, 0) + 1
    return d


def shrink_candidates(case):
    if case['t'] == 'batch' and case['body'][0] == 'json' and isinstance(case['body'][1], list):
        l = case['body'][1]
        for i in range(len(l)):
            yield dict(case, body=('json', l[:i] + l[i + 1:]))
