"""C06 - deserialisation is strict and total."""
import itertools
import random

import pjrpc
from pjrpc.common import BatchRequest, BatchResponse, Request, Response, UNSET
from pjrpc.common.exceptions import JsonRpcError

from harness.lib.coqterm import cjson, cstr, cexn, clist, copt, cZ

ID = 'C06'
CASE_TYPE = 'C06.case'
EXTRA_IMPORTS = 'From PJ Require Import Model.Msg.\n'
RULE = ('parse cases: the full product of per-member alphabets for request (8x13x9x10), response (8x16x8x14) and error '
        '(14x8x9) objects, non-object inputs of every JSON type, batches of <=3 elements over 6 element documents, '
        'batch-level error objects; history cases: every id sequence of length <=4 over {null,1,2,"1","100%"} and (sampled) over {null,0,"","0",1} under every '
        'grouping into append/extend operations (the argument of extend a list, a tuple, a generator or an iterator), for BatchRequest and BatchResponse. distinct = distinct (kind, input); '
        'non-trivial = the input is an object or array (reaches the member checks) / the history has >=2 operations')
EXHAUSTIVE = {'quick': False, 'thorough': True}
TRUSTED_BASE = ['json value typing as produced by json.loads (dict/list/str/int/float/bool/None)']
ASSUMPTIONS = ['inputs are JSON values as json.loads produces them (no tuples, no non-string keys)']

A = '<absent>'
J = [A, '2.0', '1.0', 2.0, None, [], {}, ['2.0']]        # incl. unhashable values
I13 = [A, None, 0, 1, -1, 2 ** 64, '', 'a', '1', True, 1.5, [], {}]
I16 = I13 + [False, 1.0, [1]]
M = [A, 'm', '', 1, None, True, [], {}, 'a.b']
P = [A, [], [1], [1, 2], {}, {'a': 1}, None, 1, 'x', False]
R = [A, None, 0, '', [], {}, False, 1]
E = [A, None, 0, '', [], {}, {'code': 1, 'message': 'm'}, {'code': 0, 'message': '', 'data': None},
     {'code': -32601, 'message': 'x', 'data': [1]}, {'code': '1', 'message': 'm'}, {'code': 1}, {'code': [], 'message': 'm'}, {'code': {}, 'message': 'm'}, {'code': 1, 'message': []}]
EC = [A, None, 0, 1, -1, -32700, 2 ** 70, True, 1.0, 1.5, '1', [], {}, [1]]      # incl. unhashable values
EM = [A, None, '', 'm', 0, True, [], {}]
ED = [A, None, 0, '', [], {}, False, 1.5, {'k': [1]}]
SCALARS = [None, True, False, 0, 1, 1.5, 'x', '', [], [1], {}]
IDS = [None, 1, 2, '1', '100%']


def obj(**kw):
    return {k: v for k, v in kw.items() if v is not A}


def parse_cases():
    out = []
    for j, i, m, p in itertools.product(J, I13, M, P):
        out.append(('req', 'JsonRpcError', obj(jsonrpc=j, id=i, method=m, params=p)))
    for j, i, r, e in itertools.product(J, I16, R, E):
        out.append(('resp', 'JsonRpcError', obj(jsonrpc=j, id=i, result=r, error=e)))
    for c, m, d in itertools.product(EC, EM, ED):
        out.append(('err', 'JsonRpcError', obj(code=c, message=m, data=d)))
    for k in ('req', 'resp', 'err', 'breq', 'bresp'):
        for s in SCALARS:
            out.append((k, 'JsonRpcError', s))
    # a typed base class (the client passes its error_cls)
    for c in (-32601, 5):
        out.append(('err', 'MethodNotFoundError', {'code': c, 'message': 'm'}))
        out.append(('resp', 'MethodNotFoundError', {'jsonrpc': '2.0', 'id': 1, 'error': {'code': c, 'message': 'm'}}))
        out.append(('bresp', 'MethodNotFoundError', {'jsonrpc': '2.0', 'id': None, 'error': {'code': c, 'message': 'm'}}))
        out.append(('bresp', 'MethodNotFoundError', [{'jsonrpc': '2.0', 'id': 1, 'error': {'code': c, 'message': 'm'}}]))
    # typed base classes that carry a class-level code AND message: a member missing from the document stays missing
    for base in ('MethodNotFoundError', 'ServerError', 'HarnessAppError'):
        for e in ({'code': 1}, {'message': 'm'}, {}, {'code': 1, 'message': None}, {'code': None, 'message': 'm'}, {'code': -32000}):
            out.append(('err', base, e))
            out.append(('resp', base, {'jsonrpc': '2.0', 'id': 1, 'error': e}))
            out.append(('bresp', base, {'jsonrpc': '2.0', 'id': None, 'error': e}))
            out.append(('bresp', base, [{'jsonrpc': '2.0', 'id': 1, 'error': e}]))
    # received text that contains printf-style directives ends up in the error message, never in a format operation
    for v in ('2.0%', '%s', '50% off', '%(x)s', '%d'):
        out.append(('req', 'JsonRpcError', {'jsonrpc': v, 'id': 1, 'method': 'm'}))
        out.append(('resp', 'JsonRpcError', {'jsonrpc': v, 'id': 1, 'result': 1}))
        out.append(('bresp', 'JsonRpcError', {'jsonrpc': v, 'id': None, 'error': {'code': 1, 'message': 'm'}}))
        out.append(('breq', 'JsonRpcError', [{'jsonrpc': '2.0', 'id': v, 'method': 'a'}, {'jsonrpc': '2.0', 'id': v, 'method': 'b'}]))
        out.append(('bresp', 'JsonRpcError', [{'jsonrpc': '2.0', 'id': v, 'result': 1}, {'jsonrpc': '2.0', 'id': v, 'result': 2}]))
        out.append(('breq', 'JsonRpcError', [{'jsonrpc': v, 'id': 1, 'method': 'a'}]))
    rq = [{'jsonrpc': '2.0', 'id': 1, 'method': 'a'}, {'jsonrpc': '2.0', 'id': '1', 'method': 'b', 'params': [1]},
          {'jsonrpc': '2.0', 'id': 1, 'method': 'c'}, {'jsonrpc': '2.0', 'method': 'n'}, {'jsonrpc': '2.0', 'id': 2},
          {'jsonrpc': '2.0', 'id': 2, 'method': 'd', 'params': {}}]
    rs = [{'jsonrpc': '2.0', 'id': 1, 'result': 0}, {'jsonrpc': '2.0', 'id': '1', 'result': None},
          {'jsonrpc': '2.0', 'id': 1, 'error': {'code': 0, 'message': ''}}, {'jsonrpc': '2.0', 'id': None, 'result': 1},
          {'jsonrpc': '2.0', 'id': 2, 'result': 1, 'error': {'code': 1, 'message': 'm'}},
          {'jsonrpc': '2.0', 'id': 2, 'error': {'code': -32000, 'message': 'x', 'data': None}}]
    for n in (1, 2, 3):
        for t in itertools.product(range(6), repeat=n):
            out.append(('breq', 'JsonRpcError', [rq[k] for k in t]))
            out.append(('bresp', 'JsonRpcError', [rs[k] for k in t]))
    for j, i, e in itertools.product(J, [A, None, 0, 1, '', False], E):
        out.append(('bresp', 'JsonRpcError', obj(jsonrpc=j, id=i, error=e)))
    return out


def compositions(n):
    if n == 0:
        yield []
        return
    for k in range(1, n + 1):
        for rest in compositions(n - k):
            yield [k] + rest


IDS_FALSY = [None, 0, '', '0', 1]        # the valid ids 0 and "" are falsy


def hist_cases(IDS=IDS):
    out = []
    for n in range(1, 5):
        for ids in itertools.product(range(len(IDS)), repeat=n):
            for comp in compositions(n):
                ops, pos = [], 0
                for k in comp:
                    grp = [IDS[x] for x in ids[pos:pos + k]]
                    pos += k
                    ops.append(('append', grp[0]) if k == 1 else ('extend', grp))
                out.append(ops)
    # explicit extend of singletons and of nothing
    for a in IDS:
        for b in IDS:
            out.append([('extend', [a]), ('extend', []), ('extend', [b])])
    return out


def generate(seed, tier):
    rnd = random.Random(seed)
    pc = parse_cases()
    hc = hist_cases()
    hf = hist_cases(IDS_FALSY)
    if tier == 'quick':
        rnd.shuffle(hf)
        hf = hf[:500]
        rnd.shuffle(pc)
        # stratified sample: keep every error/batch/scalar case, sample the two big products
        big = [c for c in pc if c[0] in ('req', 'resp') and isinstance(c[2], dict)]
        small = [c for c in pc if not (c[0] in ('req', 'resp') and isinstance(c[2], dict))]
        pc = small + big[:4500]
        rnd.shuffle(hc)
        hc = hc[:700]
    cases = [{'t': 'parse', 'kind': k, 'base': b, 'doc': d} for k, b, d in pc]
    for ops in hc + hf:
        for resp in (False, True):
            # how the argument of extend is handed over: the parameter is typed Iterable
            cases.append({'t': 'hist', 'resp': resp, 'ops': ops, 'ext_as': ('list', 'tuple', 'gen', 'iter')[len(cases) % 4]})
    return cases


def show_error(e):
    d = {'code': e.code, 'message': e.message}
    if e.data is not UNSET:
        d['data'] = e.data
    d['class'] = type(e).__name__
    return d


def show_request(r):
    return {'method': r.method, 'params': r.params, 'id': r.id}


def show_response(r):
    if r.is_error:
        return {'id': r.id, 'error': show_error(r.error)}
    return {'id': r.id, 'result': r._result}


def observe(case):
    if case['t'] == 'parse':
        from harness.lib import usererrors
        base = getattr(pjrpc.exceptions, case['base'], None) or getattr(usererrors, case['base'])
        k, doc = case['kind'], case['doc']
        try:
            if k == 'req':
                return ('ok', show_request(Request.from_json(doc)))
            if k == 'resp':
                return ('ok', show_response(Response.from_json(doc, error_cls=base)))
            if k == 'err':
                return ('ok', show_error(base.from_json(doc)))
            if k == 'breq':
                return ('ok', [show_request(r) for r in BatchRequest.from_json(doc)])
            if k == 'bresp':
                b = BatchResponse.from_json(doc, error_cls=base)
                if b.is_error:
                    return ('ok', {'error': show_error(b.error)})
                return ('ok', [show_response(r) for r in b])
        except Exception as e:
            return ('raise', e)
    else:
        resp = case['resp']
        mk = (lambda i: Response(id=i, result=0)) if resp else (lambda i: Request('m', id=i))
        b = BatchResponse() if resp else BatchRequest()
        out = []
        for op, arg in case['ops']:
            exc = None
            try:
                if op == 'append':
                    b.append(mk(arg))
                else:
                    items = [mk(i) for i in arg]
                    how = case.get('ext_as', 'list')
                    b.extend({'list': lambda: items, 'tuple': lambda: tuple(items), 'gen': lambda: (x for x in items),
                              'iter': lambda: iter(items)}[how]())
            except Exception as e:
                exc = e
            out.append((exc, [x.id for x in b], sorted(b._ids, key=repr)))
        return out


def cid(i):
    if i is None:
        return 'None'
    if isinstance(i, bool):
        raise TypeError('bool id')
    if isinstance(i, int):
        return '(Some (IInt %s))' % cZ(i)
    if isinstance(i, str):
        return '(Some (IStr %s))' % cstr(i)
    raise TypeError('id %r' % (i,))


def cidv(i):
    return cid(i)[6:-1]


KIND = {'req': 'C06.KReq', 'resp': 'C06.KResp', 'err': 'C06.KErr', 'breq': 'C06.KBReq', 'bresp': 'C06.KBResp'}


def encode(case, obs):
    if case['t'] == 'parse':
        if obs[0] == 'ok':
            o = '(Ok %s)' % cjson(obs[1])
        else:
            o = '(Raise %s)' % cexn(obs[1])
        return '(C06.CParse %s %s %s %s)' % (KIND[case['kind']], cstr(case['base']), cjson(case['doc']), o)
    ops = []
    for op, arg in case['ops']:
        if op == 'append':
            ops.append('(OpAppend %s)' % cid(arg))
        else:
            ops.append('(OpExtend %s)' % clist(cid(i) for i in arg))
    ob = []
    for exc, ids, idset in obs:
        ob.append('(%s, (%s, %s))' % (copt(exc, cexn), clist(cid(i) for i in ids), clist(cidv(i) for i in idset)))
    return '(C06.CHist %s %s)' % (clist(ops), clist(ob))


def distribution(cases, obs):
    d = {}
    for c, o in zip(cases, obs):
        if c['t'] == 'parse':
            k = 'parse:%s:%s' % (c['kind'], 'accepted' if o[0] == 'ok' else type(o[1]).__name__)
        else:
            k = 'hist:%s:ops=%d:raised=%d' % ('resp' if c['resp'] else 'req', len(c['ops']), sum(1 for x in o if x[0] is not None))
        d[k] = d.get(k, 0) + 1
    return d


def shrink_candidates(case):
    if case['t'] == 'hist':
        ops = case['ops']
        for i in range(len(ops)):
            yield dict(case, ops=ops[:i] + ops[i + 1:])
    elif isinstance(case['doc'], list):
        d = case['doc']
        for i in range(len(d)):
            yield dict(case, doc=d[:i] + d[i + 1:])
    elif isinstance(case['doc'], dict):
        d = case['doc']
        for k in d:
            yield dict(case, doc={a: b for a, b in d.items() if a != k})
