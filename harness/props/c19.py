"""C19 - tracers see every attempt begin and complete exactly once."""
import itertools
import json
import random

from harness.lib import retryenv as re_

ID = 'C19'
CASE_TYPE = 'C19.case'
EXTRA_IMPORTS = re_.RETRY_IMPORTS
RULE = ('per-attempt outcomes {response ok, response with error (listed / unlisted code), transport exception (listed / subclass / '
        'unlisted), undecodable body, invalid response, identity mismatch, KeyboardInterrupt, asyncio.CancelledError} in every sequence '
        'of length attempts+1 for strategies of 0..2 (quick) / 0..3 (thorough) attempts (plus no strategy), x 0..3 tracers (distinct objects that compare equal to each other, every second one a falsy object; handed over as a list, a tuple, a generator or an iterator) x single / '
        'batch / notification x caller-supplied vs default trace context x sync / async; a third of the cases from inside an `except` block of the caller; a quarter of the cases on a client that has already served a retried request. distinct = distinct full case; non-trivial = '
        'at least one tracer event')
EXHAUSTIVE = {'quick': False, 'thorough': False}
TRUSTED_BASE = ['unittest.mock patching of the sleeps; instrumented Tracer subclasses recording (event, tracer index, context identity, payload)']
ASSUMPTIONS = ['the transport behaves as scripted']

OUT_SINGLE = [['ok'], ['code', 2000], ['code', 5], ['exc', 0], ['exc', 1], ['exc', 3], ['garbage'], ['invalid'], ['badid'], ['exc', 4], ['exc', 5]]
OUT_NOTE = [['ok'], ['exc', 0], ['exc', 3], ['exc', 4], ['exc', 5]]
OUT_BATCH = [['ok'], ['code', 2000], ['elemerr', 2000], ['exc', 0], ['garbage'], ['invalid'], ['badid'], ['exc', 5]]
LISTS = [([2000], [0]), ([2000], [9]), (None, [11]), ([2000, 5], [3])]


def generate(seed, tier):
    rnd = random.Random(seed)
    cases = []
    maxn = 2 if tier == 'quick' else 3
    for req, outs in (('single', OUT_SINGLE), ('notification', OUT_NOTE), ('batch', OUT_BATCH)):
        for n in [None] + list(range(0, maxn + 1)):
            ln = 1 if n is None else n + 1
            seqs = list(itertools.product(range(len(outs)), repeat=ln))
            limit = 260 if tier == 'quick' else 2500
            if len(seqs) > limit:
                seqs = rnd.sample(seqs, limit)
            for seq in seqs:
                codes, excs = rnd.choice(LISTS)
                strategy = None if n is None else {'backoff': ['periodic', n, '0'], 'codes': codes, 'excs': excs}
                mode = rnd.choice(['client', 'per'])
                cases.append({'script': [outs[i] for i in seq] + [['ok']], 'client': strategy if mode == 'client' else None,
                              'per': 'unset' if (mode == 'client' or strategy is None) else strategy, 'jitter': [],
                              'tracers': rnd.choice([0, 1, 2, 3, 2]), 'tr_as': rnd.choice(['list', 'list', 'tuple', 'gen', 'iter']),
                              'supplied': rnd.random() < 0.5, 'req': req,
                              'async': rnd.random() < 0.5})
    for nt in (1, 2):
        for is_async in (False, True):
            for script in ([['nbody', 2000], ['ok']], [['exc', 0], ['nbody', 2000], ['ok']]):
                cases.append({'script': script + [['ok']], 'client': {'backoff': ['periodic', 2, '0'], 'codes': [2000], 'excs': [0]}, 'per': 'unset',
                              'jitter': [], 'tracers': nt, 'tr_as': 'list', 'supplied': False, 'req': 'notification', 'async': is_async,
                              'lenient': True})
    for i, c in enumerate(cases):
        if c.get('req') == 'batch' and i % 2 == 0:
            c['bstrict'] = False   # a hand-built BatchRequest(strict=False)
        if i % 4 == 0:
            c['warm'] = True       # the same client, strategy and tracer objects have already served a request
        if i % 3 == 1:
            c['in_except'] = True  # the request is made from inside an `except` block of the caller
    return cases


def observe(case):
    return re_.observe(case)


def encode(case, obs):
    return re_.encode(case, obs)


def case_key(case):
    return json.dumps(case, sort_keys=True)


def case_from_json(c):
    return c


def distribution(cases, obs):
    d = {}
    for c, o in zip(cases, obs):
        k = 'req=%s tracers=%d sends=%d final=%s' % (c['req'], c['tracers'], o['sends'], o['final'][0][0])
        d[k] = d.get(k, 0) + 1
    return d


def shrink_candidates(case):
    s = case['script']
    for i in range(len(s) - 1):
        yield dict(case, script=s[:i] + s[i + 1:])
