"""C15 - methods are reachable under exactly their registered names, private ones never."""
import json
import random

import pjrpc
from pjrpc.server import AsyncDispatcher, Dispatcher, Method, MethodRegistry, ViewMixin

from harness.lib.coqterm import cstr, clist, copt, cbool
from harness.lib.dispenv import loop

ID = 'C15'
CASE_TYPE = 'C15.case'
EXTRA_IMPORTS = 'From PJ Require Import Model.Registry.\n'
RULE = ('registration histories of 1..3 (quick) / 1..5 (thorough) operations over {add, add with explicit name, add_methods(Method), '
        'add_methods(plain function), add_methods(several Methods / functions / registries in one call), view with / without prefix (a fresh view class or one already registered elsewhere in the history; a member called `show` is inherited from one shared base view), function objects and Method objects may be registered more than once, a view may be derived from a view registered earlier, merge} views whose constructor raises KeyError / TypeError / LookupError (their members are registered names all the same); explicit names handed over as plain str, as members of a (str, Enum) class or as instances of a str subclass with its own __str__ / __format__; on registries with prefix in {none, "", "a", "a.b"}, merged up to '
        '3 levels deep, attached to either dispatcher (add_methods(registry) / add / view); small name pools so that collisions and '
        're-registrations occur; probed by dispatching a request for every registered name, every name one prefix segment away, the bare '
        'function and member names, private and non-callable member names. distinct = distinct (history, dispatcher kind); non-trivial = '
        'at least two names registered')
EXHAUSTIVE = {'quick': False, 'thorough': False}
TRUSTED_BASE = ['dir(cls) lists class members in sorted order (the model is given the members in that order)']
ASSUMPTIONS = ['function and member names are non-empty Python identifiers']

FNAMES = ['f', 'g', 'show']
XNAMES = [None, 'x', 'a.f', 'f', '']
PREFIXES = [None, '', 'a', 'a.b', 'b']
VPREFIXES = [None, 'v', 'a', '']
MEMBERS = [('show', True), ('f', True), ('_hid', True), ('attr', False), ('run', True), ('__dunder', True)]


def rand_registry(rnd, depth, maxops, counter):
    ops = []
    for _ in range(rnd.randint(1, maxops)):
        k = rnd.choice(['add', 'addname', 'method', 'plain', 'view', 'merge', 'add', 'view', 'merge'])
        if k == 'merge' and depth <= 0:
            k = 'add'
        fid = counter[0]
        counter[0] += 1
        fname = rnd.choice(FNAMES)
        if len(counter) > 2 and counter[2] and rnd.random() < 0.3:
            fid, fname = rnd.choice(counter[2])        # the SAME function object registered once more
        elif len(counter) > 2:
            counter[2].append((fid, fname))
        if k == 'add':
            ops.append(['add', fid, fname, None])
        elif k == 'addname':
            ops.append(['add', fid, fname, rnd.choice(XNAMES)])
        elif k == 'method':
            ops.append(['method', fid, fname, rnd.choice(XNAMES)])
        elif k == 'plain':
            ops.append(['plain', fid, fname])
        elif k == 'view':
            if len(counter) > 1 and counter[1] and rnd.random() < 0.4:
                ms = rnd.choice(counter[1])        # the SAME view class registered once more (another prefix / registry)
            else:
                ms = []
                for name, callable_ in rnd.sample(MEMBERS, rnd.randint(1, 4)):
                    ms.append([name, callable_, counter[0]])
                    counter[0] += 1
                ms = sorted(ms)
                if len(counter) > 1:
                    counter[1].append(ms)
            ops.append(['view', rnd.choice(VPREFIXES), ms])
        else:
            ops.append(['merge', rand_registry(rnd, depth - 1, maxops, counter)])
    ops = group_multi(rnd, ops, ('method', 'plain'))
    return [rnd.choice(PREFIXES), ops]


def group_multi(rnd, ops, kinds):
    """Hands runs of consecutive add_methods-able operations over in ONE add_methods(*args) call (a third of the runs)."""
    out, run = [], []

    def flush():
        if len(run) >= 2 and rnd.random() < 0.34:
            out.append(['multi', list(run)])
        else:
            out.extend(run)
        del run[:]
    for op in ops:
        if op[0] in kinds:
            run.append(op)
        else:
            flush()
            out.append(op)
    flush()
    return out


def generate(seed, tier):
    rnd = random.Random(seed)
    cases = []
    n = 900 if tier == 'quick' else 9000
    for _ in range(n):
        counter = [0, [], []]   # next function id; the member lists of the view classes created so far; the functions created so far
        maxops = rnd.choice([1, 2, 3]) if tier == 'quick' else rnd.choice([2, 3, 4, 5])
        top_ops = []
        for _ in range(rnd.randint(1, maxops)):
            k = rnd.choice(['reg', 'reg', 'add', 'view', 'method'])
            fid = counter[0]
            counter[0] += 1
            fname = rnd.choice(FNAMES)
            if k in ('add', 'method'):
                if counter[2] and rnd.random() < 0.3:
                    fid, fname = rnd.choice(counter[2])
                else:
                    counter[2].append((fid, fname))
            if k == 'reg':
                top_ops.append(['merge', rand_registry(rnd, 2, maxops, counter)])
            elif k == 'add':
                top_ops.append(['add', fid, fname, rnd.choice(XNAMES)])
            elif k == 'method':
                top_ops.append(['method', fid, fname, rnd.choice(XNAMES)])
            elif counter[1] and rnd.random() < 0.4:
                top_ops.append(['view', None, rnd.choice(counter[1])])
            else:
                ms = [[name, c, counter[0] + i] for i, (name, c) in enumerate(rnd.sample(MEMBERS, rnd.randint(1, 4)))]
                counter[0] += len(ms)
                counter[1].append(sorted(ms))
                top_ops.append(['view', None, sorted(ms)])
        top_ops = group_multi(rnd, top_ops, ('method', 'merge'))
        cases.append({'hist': [None, top_ops], 'async': rnd.random() < 0.5,
                      'nametype': rnd.choice(['plain', 'plain', 'enum', 'strsub'])})
        if any(op[0] == 'view' for op in top_ops) or rnd.random() < 0.1:
            if rnd.random() < 0.3:
                cases[-1]['ctor'] = rnd.choice(['KeyError', 'TypeError', 'LookupError'])
    # fixed scenarios: two views inheriting `show` from the shared base registered under one name (the later one wins); one
    # function registered under a prefix / an explicit name and then again as an unnamed Method / plain function
    for is_async in (False, True):
        for pa, pb in ((None, None), ('v', 'v'), ('a', 'a')):
            v1, v2 = [['show', True, 1]], [['run', True, 2], ['show', True, 3]]
            cases.append({'hist': [None, [['merge', [None, [['view', pa, v1], ['view', pb, v2]]]]]], 'async': is_async})
            cases.append({'hist': [None, [['merge', [None, [['view', pa, v1]]]], ['merge', [None, [['view', pb, v2]]]]]], 'async': is_async})
        cases.append({'hist': [None, [['view', None, [['show', True, 1]]], ['view', None, [['show', True, 2]]]]], 'async': is_async})
        for first in (['merge', ['a', [['add', 0, 'f', None]]]], ['add', 0, 'f', 'x'], ['merge', ['a.b', [['add', 0, 'f', 'renamed']]]]):
            for second in (['method', 0, 'f', None], ['merge', ['b', [['method', 0, 'f', None]]]], ['merge', [None, [['plain', 0, 'f']]]],
                           ['add', 0, 'f', None]):
                cases.append({'hist': [None, [first, second]], 'async': is_async})
    # several kinds of arguments in ONE add_methods call, clashing on a name: the later argument wins, whatever its kind
    for is_async in (False, True):
        for pa in (None, 'a', 'a.b'):
            full = 'ping' if pa is None else pa + '.ping'
            reg = ['merge', [pa, [['add', 1, 'ping', None]]]]
            for args in ([['method', 0, 'f', full], reg], [reg, ['method', 0, 'f', full]], [['method', 0, 'f', full], reg, ['method', 2, 'g', full]]):
                cases.append({'hist': [None, [['multi', args]]], 'async': is_async})
        for nt in ('enum', 'strsub'):
            for pa in (None, 'a'):
                cases.append({'hist': [None, [['merge', [pa, [['add', 0, 'f', 'sum'], ['method', 1, 'g', 'mul']]]], ['method', 2, 'h', 'top']]], 'async': is_async, 'nametype': nt})
                cases.append({'hist': [None, [['merge', ['b', [['merge', [pa, [['add', 0, 'f', 'sum'], ['method', 1, 'g', 'mul']]]]]]]]], 'async': is_async, 'nametype': nt})
    for is_async in (False, True):
        # the same Method object added to two prefixed registries / twice to one
        for pa, pb in (('a', 'a.b'), ('a', None), (None, 'b'), ('a', 'a')):
            cases.append({'hist': [None, [['merge', [pa, [['method', 0, 'f', 'ping']]]], ['merge', [pb, [['method', 0, 'f', 'ping']]]]]], 'async': is_async})
            cases.append({'hist': [None, [['merge', [pa, [['method', 0, 'f', None]]]], ['method', 0, 'f', None], ['merge', [pb, [['method', 0, 'f', None]]]]]], 'async': is_async})
        # a base view registered first, then a view DERIVED from it that adds public members (and the other way round)
        base = [['ping', True, 1], ['show', True, 2]]
        derived = sorted(base + [['echo', True, 3], ['attr', False, 4], ['_hid', True, 5]])
        for first, second in ((base, derived), (derived, base)):
            cases.append({'hist': [None, [['merge', ['api', [['view', 'base' if first is base else 'ext', first],
                                                             ['view', 'ext' if first is base else 'base', second]]]]]], 'async': is_async})
            cases.append({'hist': [None, [['view', None, first], ['merge', ['x', [['view', 'v', second]]]]]], 'async': is_async})
    return cases


_fns = {}
_methods = {}
_nametype = ['plain']
_enum_cache = {}


class _StrSub(str):
    """A str subclass (an instance IS the name it holds) whose printed forms are something else."""
    def __str__(self):
        return 'STR<%s>' % str.__str__(self)

    def __format__(self, spec):
        return 'FMT<%s>' % str.__str__(self)

    def __repr__(self):
        return 'REPR<%s>' % str.__str__(self)


def wrap_name(name):
    """An explicit method name as the configured kind of str: a plain str, a member of a (str, Enum) class, a str subclass."""
    if name is None or _nametype[0] == 'plain':
        return name
    if _nametype[0] == 'strsub':
        return _StrSub(name)
    if name not in _enum_cache:
        import enum
        _enum_cache[name] = enum.Enum('Names', {'MEMBER': name}, type=str).MEMBER
    return _enum_cache[name]



def mkmethod(fid, fname, xname, is_async):
    # one Method OBJECT per (function, explicit name) within an observation: registering it twice hands the same object over twice
    key = (fid, fname, xname, is_async)
    if key not in _methods:
        _methods[key] = Method(mkfn(fid, fname, is_async), name=wrap_name(xname))
    return _methods[key]



def mkfn(fid, name, is_async):
    # one function object per function id within an observation
    key = (fid, name, is_async)
    if key not in _fns:
        _fns[key] = mkfn_new(fid, name, is_async)
    return _fns[key]


def mkfn_new(fid, name, is_async):
    ns = {}
    exec('%sdef %s():\n    return %d\n' % ('async ' if is_async else '', name, fid), ns)
    return ns[name]


_views = {}


def mkview(members, is_async):
    # one class object per distinct member list within an observation: a repeated list re-registers the same class
    key = json.dumps([members, is_async])
    if key not in _views:
        # a member list that strictly extends the member list of a class made earlier in this observation becomes a class
        # DERIVED from that one (defining only the additional members)
        parent = None
        for k2, cls in _views.items():
            m2, a2 = json.loads(k2)
            if a2 == is_async and len(m2) < len(members) and all(x in members for x in m2):
                if parent is None or len(m2) > len(parent[0]):
                    parent = (m2, cls)
        _views[key] = mkview_new(members, is_async, parent)
    return _views[key]


_bases = {}


def base_view(is_async):
    """A base view whose public method `show` every generated view with a callable member of that name INHERITS (one function
    object shared by all of them); it answers with the class attribute the subclass sets."""
    if is_async not in _bases:
        ns = {'ViewMixin': ViewMixin}
        exec('class Base(ViewMixin):\n    SHOW_ID = -1\n    %sdef show(self):\n        return self.SHOW_ID\n' % ('async ' if is_async else ''), ns)
        _bases[is_async] = ns['Base']
    return _bases[is_async]


_ctor = [None]


def mkview_new(members, is_async, parent=None):
    body = ''
    if _ctor[0] and parent is None:
        # the view cannot be constructed (its constructor looks something up that is not there): requests for its members
        # fail AFTER the name has been resolved
        body += '    def __init__(self):\n        raise %s("missing")\n' % _ctor[0]
    inherit = None
    if parent is not None:
        members = [m for m in members if m not in parent[0]]
    for name, callable_, fid in members:
        if callable_ and name == 'show':
            inherit = fid
            body += '    SHOW_ID = %d\n' % fid
        elif callable_:
            body += '    %sdef %s(self):\n        return %d\n' % ('async ' if is_async else '', name, fid)
        else:
            body += '    %s = %d\n' % (name, fid)
    ns = {'ViewMixin': ViewMixin, 'Base': base_view(is_async)}
    if parent is not None:
        ns['Parent'] = parent[1]
        bases = 'Parent, Base' if (inherit is not None and not issubclass(parent[1], ns['Base'])) else 'Parent'
        exec('class V(%s):\n' % bases + (body or '    pass\n'), ns)
        return ns['V']
    exec('class V(%s):\n' % ('Base' if inherit is not None else 'ViewMixin') + (body or '    pass\n'), ns)
    return ns['V']


def build_registry(expr, is_async):
    prefix, ops = expr
    reg = MethodRegistry(prefix=prefix)
    apply_ops(reg, ops, is_async)
    return reg


def apply_ops(target, ops, is_async, top=False):
    for op in ops:
        if op[0] == 'add':
            target.add(mkfn(op[1], op[2], is_async), name=wrap_name(op[3])) if not top else target.add(mkfn(op[1], op[2], is_async), wrap_name(op[3]))
        elif op[0] == 'method':
            target.add_methods(mkmethod(op[1], op[2], op[3], is_async))
        elif op[0] == 'plain':
            target.add_methods(mkfn(op[1], op[2], is_async))
        elif op[0] == 'multi':
            args = []
            for sub in op[1]:
                if sub[0] == 'method':
                    args.append(mkmethod(sub[1], sub[2], sub[3], is_async))
                elif sub[0] == 'plain':
                    args.append(mkfn(sub[1], sub[2], is_async))
                else:
                    args.append(build_registry(sub[1], is_async))
            target.add_methods(*args)
        elif op[0] == 'view':
            if top:
                target.view(mkview(op[2], is_async))
            else:
                target.view(mkview(op[2], is_async), prefix=op[1])
        else:
            sub = build_registry(op[1], is_async)
            if top:
                target.add_methods(sub)
            else:
                target.merge(sub)


def observe(case):
    is_async = case['async']
    _views.clear()
    _fns.clear()
    _methods.clear()
    _nametype[0] = case.get('nametype', 'plain')
    _ctor[0] = case.get('ctor')
    disp = (AsyncDispatcher if is_async else Dispatcher)()
    apply_ops(disp, case['hist'][1], is_async, top=True)
    keys = sorted(disp.registry.keys())
    cand = set(keys)
    for k in keys:
        parts = k.split('.')
        cand.add('.'.join(parts[1:]))
        cand.add('.'.join(parts[:-1]))
        cand.add('a.' + k)
        cand.add(parts[-1])
        cand.add(' ' + k)               # a registered name with white space around it is another name
        cand.add(k + '\n')
    for n in FNAMES + [m[0] for m in MEMBERS] + ['v._hid', 'a.v.attr', 'nosuch', 'x']:
        cand.add(n)
    cand.discard('')
    probes = []
    for n in sorted(cand):
        text = json.dumps({'jsonrpc': '2.0', 'id': 1, 'method': n})
        r = loop().run_until_complete(disp.dispatch(text)) if is_async else disp.dispatch(text)
        doc = json.loads(r[0])
        if 'result' in doc:
            probes.append((n, doc['result']))
        elif doc['error']['code'] == -32601:
            probes.append((n, None))
        elif doc['error']['code'] == -32603 and case.get('ctor'):
            probes.append((n, 4998))      # the name was resolved; the view it belongs to could not be constructed
        else:
            probes.append((n, 4999))      # answered with another error: no function was reached the expected way
    return {'keys': keys, 'probes': probes}


def cexpr(expr):
    prefix, ops = expr
    out = []
    flat = []
    for op in ops:
        flat.extend(op[1] if op[0] == 'multi' else [op])       # one add_methods call with several arguments = one call per argument, in order
    for op in flat:
        if op[0] == 'add':
            out.append('(OAdd %d%%nat %s %s)' % (op[1], cstr(op[2]), copt(op[3], cstr)))
        elif op[0] == 'method':
            out.append('(OAddMethod %d%%nat %s %s)' % (op[1], cstr(op[2]), copt(op[3], cstr)))
        elif op[0] == 'plain':
            out.append('(OAddPlain %d%%nat %s)' % (op[1], cstr(op[2])))
        elif op[0] == 'view':
            ms = clist('{| mb_name := %s; mb_callable := %s; mb_fn := %d%%nat |}' % (cstr(n), cbool(c), f) for n, c, f in op[2])
            out.append('(OView %s %s)' % (copt(op[1], cstr), ms))
        else:
            out.append('(OMerge %s)' % cexpr(op[1]))
    return '(RE %s %s)' % (copt(prefix, cstr), clist(out))


def encode(case, obs):
    probes = clist('(%s, %s)' % (cstr(n), 'None' if f is None else '(Some %d%%nat)' % f) for n, f in obs['probes'])
    return '{| hist := %s; probes := %s; keyset := %s |}' % (cexpr(case['hist']), probes, clist(cstr(k) for k in obs['keys']))


def case_key(case):
    return json.dumps(case, sort_keys=True)


def case_from_json(c):
    return c


def distribution(cases, obs):
    d = {}
    for c, o in zip(cases, obs):
        k = 'keys=%d reached=%d' % (len(o['keys']), sum(1 for _, f in o['probes'] if f is not None))
        d[k] = d.get(k, 0) + 1
    return d


def shrink_candidates(case):
    prefix, ops = case['hist']
    for i in range(len(ops)):
        if len(ops) > 1:
            yield dict(case, hist=[prefix, ops[:i] + ops[i + 1:]])
