"""C09 - retries are bounded, follow the configured backoff, and return the last outcome."""
import itertools
import json
import random
from fractions import Fraction

from harness.lib import retryenv as re_

ID = 'C09'
CASE_TYPE = 'C09.case'
EXTRA_IMPORTS = re_.RETRY_IMPORTS
RULE = ('all outcome sequences of length n+2 over {success, listed code, unlisted code, listed exception, subclass of a listed '
        'exception, unlisted exception} for n in 0..2 (quick, exhaustive) / 0..3 exhaustive + n=4 sampled (thorough); for batch requests '
        'additionally {batch-level listed error, batch with a failed element}; x codes / exceptions sets {None, empty, one, several} x '
        'backoff family (periodic, exponential with / without cap incl. a cap below the first delay, Fibonacci with default / custom / no cap) '
        'with dyadic-rational parameters and non-zero jitter x single / batch / notification x client-wide / per-request / explicitly '
        'disabled (None) / none at all x sync / async; in a third of the cases the same client and strategy objects served, just before, another request that used up its retries. time.sleep / asyncio.sleep are patched to record; Fraction(float) of every recorded '
        'delay must equal the model rational exactly. distinct = distinct full case; non-trivial = more than one send')
EXHAUSTIVE = {'quick': False, 'thorough': False}
TRUSTED_BASE = ['IEEE-754 double arithmetic is exact on the generated dyadic parameters (numerators <= 15, denominators <= 8, exponents <= 4)',
                'unittest.mock patching of time.sleep / asyncio.sleep']
ASSUMPTIONS = ['the transport behaves as scripted; the jitter callable returns the scripted values in call order']

LISTED_CODE, UNLISTED_CODE = 2000, 5
OUTCOMES = [['ok'], ['code', LISTED_CODE], ['code', UNLISTED_CODE], ['exc', 0], ['exc', 1], ['exc', 3]]
BATCH_EXTRA = [['elemerr', LISTED_CODE]]
BACKOFFS = [
    lambda n: ['periodic', n, '0'],
    lambda n: ['periodic', n, '3/4'],
    lambda n: ['exp', n, '1/2', '2', None],
    lambda n: ['exp', n, '3/2', '3/2', '2'],
    lambda n: ['exp', n, '2', '2', '1'],          # cap below the first delay
    lambda n: ['fib', n, '1', '1'],               # the defaults: multiplier 1, max_value 1
    lambda n: ['fib', n, '1/4', None],
    lambda n: ['fib', n, '3/2', '4'],
    lambda n: ['exp', n, '4', '1/2', '3'],        # a DECAYING backoff capped below its first delay: later delays fall under the cap again
    lambda n: ['exp', n, '1', '2', '4'],
]
JITTERS = [[], ['1/8', '1/4', '0', '1/2', '1/8'], ['0', '5/2', '-1', '0', '1/2']]     # incl. a jitter that pushes one delay over the cap and the next under it
SETS = [(None, None), ([], []), ([LISTED_CODE], [0]), ([LISTED_CODE, 7], [0, 2]), ([LISTED_CODE], None), (None, [0]), ([LISTED_CODE], [9]), ([LISTED_CODE], [10])]


def strat(n, bi, codes, excs):
    return {'backoff': BACKOFFS[bi](n), 'codes': codes, 'excs': excs}


def generate(seed, tier):
    rnd = random.Random(seed)
    cases = []
    maxn = 2 if tier == 'quick' else 3
    for n in range(0, maxn + 1):
        for seq in itertools.product(range(len(OUTCOMES)), repeat=n + 2):
            script = [OUTCOMES[i] for i in seq]
            bi = rnd.randrange(len(BACKOFFS))
            codes, excs = rnd.choice(SETS[2:]) if rnd.random() < 0.8 else rnd.choice(SETS[:2])
            mode = rnd.choice(['client', 'client', 'per', 'per_over', 'disabled', 'nostrategy'])
            req = rnd.choice(['single', 'single', 'batch'])
            cases.append(mk(script, n, bi, codes, excs, mode, req, rnd))
    if tier == 'thorough':
        for _ in range(6000):
            n = 4
            script = [rnd.choice(OUTCOMES) for _ in range(n + 2)]
            codes, excs = rnd.choice(SETS)
            cases.append(mk(script, n, rnd.randrange(len(BACKOFFS)), codes, excs, rnd.choice(['client', 'per', 'per_over', 'disabled']),
                            rnd.choice(['single', 'batch']), rnd))
    # every backoff family / jitter against an always-failing script (delays in full), both kinds of request
    for bi in range(len(BACKOFFS)):
        for n in (0, 1, 3, 5):
            for jit in JITTERS:
                for req in ('single', 'batch'):
                    for is_async in (False, True):
                        c = mk([['code', LISTED_CODE]] * (n + 2), n, bi, [LISTED_CODE], None, 'client', req, rnd)
                        c['jitter'], c['async'] = jit, is_async
                        cases.append(c)
                        c = mk([['exc', 1]] * (n + 2), n, bi, None, [0], 'per', 'single', rnd)
                        c['jitter'], c['async'] = jit, is_async
                        cases.append(c)
    # notifications: never retried on a response (there is none); retried on listed exceptions only
    for script in ([['ok']], [['exc', 0], ['ok']], [['exc', 3], ['ok']], [['exc', 1], ['exc', 0], ['ok']]):
        for codes, excs in SETS:
            for is_async in (False, True):
                c = mk(script + [['ok']] * 3, 2, 1, codes, excs, 'client', 'notification', rnd)
                c['async'] = is_async
                cases.append(c)
    # a lenient client (strict=False) whose notification is answered with a body carrying a listed code: nothing to retry
    for script in ([['nbody', LISTED_CODE]], [['nbody', LISTED_CODE], ['ok']], [['exc', 0], ['nbody', LISTED_CODE], ['ok']]):
        for is_async in (False, True):
            c = mk(script + [['ok']] * 3, 2, 1, [LISTED_CODE], [0], 'client', 'notification', rnd)
            c['async'], c['lenient'] = is_async, True
            cases.append(c)
    # batches: batch-level listed error retried, a failed ELEMENT is not
    for script in ([['code', LISTED_CODE], ['ok']], [['elemerr', LISTED_CODE], ['ok']], [['code', LISTED_CODE], ['elemerr', LISTED_CODE], ['ok']]):
        for is_async in (False, True):
            c = mk(script + [['ok']] * 2, 2, 3, [LISTED_CODE], None, 'client', 'batch', rnd)
            c['async'] = is_async
            cases.append(c)
            cases.append(dict(c, bstrict=False))        # a hand-built BatchRequest(strict=False)
    # a third of the cases: the same client and strategy objects have already served a request that used up its retries
    for i, c in enumerate(cases):
        if i % 3 == 0:
            c['warm'] = True
    return cases


def mk(script, n, bi, codes, excs, mode, req, rnd):
    s = strat(n, bi, codes, excs)
    other = strat(max(0, n - 1), (bi + 3) % len(BACKOFFS), [UNLISTED_CODE], [2])
    client, per = None, 'unset'
    if mode == 'client':
        client = s
    elif mode == 'per':
        per = s
    elif mode == 'per_over':
        client, per = other, s
    elif mode == 'disabled':
        client, per = s, 'none'
    return {'script': script, 'client': client, 'per': per, 'jitter': rnd.choice(JITTERS), 'tracers': rnd.choice([0, 1]),
            'supplied': rnd.random() < 0.3, 'req': req, 'async': rnd.random() < 0.5}


def observe(case):
    return re_.observe(case)


def encode(case, obs):
    return re_.encode(case, obs)


def case_key(case):
    return json.dumps(case, sort_keys=True)


def case_from_json(c):
    return c


def distribution(cases, obs):
    d = {}
    for c, o in zip(cases, obs):
        k = 'req=%s sends=%d final=%s' % (c['req'], o['sends'], o['final'][0][0])
        d[k] = d.get(k, 0) + 1
    return d


def shrink_candidates(case):
    s = case['script']
    for i in range(len(s) - 1):
        yield dict(case, script=s[:i] + s[i + 1:])
