"""C11 - the synchronous and the asynchronous halves behave identically (paired execution)."""
import json
import random

from harness.lib import clientenv as ce
from harness.lib import dispenv
from harness.lib import retryenv as re_
from harness.props import c01, c02, c03, c07, c08, c09, c12, c19

ID = 'C11'
CASE_TYPE = 'C11.case'
EXTRA_IMPORTS = (dispenv.DISP_IMPORTS + ce.CLIENT_IMPORTS + re_.RETRY_IMPORTS
                 + 'From PJ Require Import Model.EndToEnd Corr.DispOk Corr.C07 Corr.C08.\n')
RULE = ('the request corpora of C01, C02, C03 and C12 (texts x configurations) dispatched through BOTH dispatchers (for a third of them also through the asynchronous dispatcher serving plain, non-coroutine functions); the scripted '
        'transport corpora of C08, C09 and C19 and the loop-back corpus of C07 driven through BOTH clients (for C07 also both '
        'dispatchers); every pair is compared with the single model and with each other; clients whose tracers raise from a hook (begin / end / error, first / middle / last tracer) are compared with each other only. quick: a seeded sample of each corpus; '
        'thorough: the full quick corpora plus samples of the thorough ones. distinct = distinct underlying case with the kind flag '
        'erased; every pair is non-trivial')
EXHAUSTIVE = {'quick': False, 'thorough': False}
TRUSTED_BASE = ['the trusted bases of C01-C03, C07-C09, C12, C19']
ASSUMPTIONS = ['the assumptions of the underlying corpora']
KNOWN_CLASSES = {}


def strip(c, keys=('async',)):
    return {k: v for k, v in c.items() if k not in keys}


def generate(seed, tier):
    rnd = random.Random(seed)
    n = 350 if tier == 'quick' else 2500
    cases = []

    def sample(mod, label, keys=('async',)):
        seen, out = set(), []
        for c in mod.generate(seed, 'quick' if tier == 'quick' else 'thorough'):
            k = json.dumps(strip(c, keys), sort_keys=True, default=repr)
            if k not in seen:
                seen.add(k)
                out.append(strip(c, keys))
        rnd.shuffle(out)
        for i, c in enumerate(out[:n]):
            cases.append({'src': label, 'c': c})
            if label in ('c01', 'c02', 'c03', 'c12') and i % 3 == 0:
                # the asynchronous dispatcher serving PLAIN functions against the synchronous one
                cases.append({'src': label, 'c': c, 'b': 'plain'})
            if label in ('c01', 'c02', 'c03', 'c12') and i % 3 == 1:
                cases.append({'src': label, 'c': c, 'b': 'wrapped'})
    sample(c01, 'c01')
    # kept whole: the size limit against malformed batches (the halves must refuse for the same reason, to the letter)
    seen1 = {json.dumps(x['c'], sort_keys=True, default=repr) for x in cases if x['src'] == 'c01'}
    for c in c01.targeted():
        cc = strip(c)
        k = json.dumps(cc, sort_keys=True, default=repr)
        if k not in seen1:
            seen1.add(k)
            cases.append({'src': 'c01', 'c': cc})
    sample(c02, 'c02')
    sample(c03, 'c03')
    sample(c12, 'c12')
    sample(c08, 'c08')
    # every notification case of C08 (the halves differ most easily where nothing is expected back)
    seen = {json.dumps(x['c'], sort_keys=True, default=repr) for x in cases if x['src'] == 'c08'}
    for c in c08.generate(seed, 'quick'):
        note = (c['t'] == 'single' and c['q']['id'] is None) or (c['t'] == 'batch' and all(q['id'] is None for q in c['qs']))
        if note:
            cc = strip(c)
            k = json.dumps(cc, sort_keys=True, default=repr)
            if k not in seen:
                seen.add(k)
                cases.append({'src': 'c08', 'c': cc})
    sample(c09, 'c09')
    sample(c19, 'c19')
    sample(c07, 'c07', keys=('casync', 'dasync'))
    # every misuse of the call notations (positional AND named arguments): both halves must refuse it the same way
    seen7 = {json.dumps(x['c'], sort_keys=True, default=repr) for x in cases if x['src'] == 'c07'}
    for c in c07.generate(seed, 'quick'):
        if c['t'] == 'single' and c['pos'] and c['kw']:
            cc = strip(c, ('casync', 'dasync'))
            k = json.dumps(cc, sort_keys=True, default=repr)
            if k not in seen7:
                seen7.add(k)
                cases.append({'src': 'c07', 'c': cc})
    # user-supplied tracers that raise from one of their hooks: no model says what must happen then, but both halves must do the same
    for req in ('single', 'batch', 'notification'):
        for first in (['ok'], ['code', -32000], ['exc', 0]):
            for bad in (0, 1, 2):
                for hook in ('begin', 'end', 'error'):
                    cases.append({'src': 'rawtr', 'c': {'req': req, 'script': [first, ['ok']], 'bad': bad, 'hook': hook}})
    return cases


MODS = {'c01': c01, 'c02': c02, 'c03': c03, 'c12': c12, 'c08': c08, 'c09': c09, 'c19': c19, 'c07': c07}


def observe(case):
    if case['src'] == 'rawtr':
        return (observe_raw(case['c'], False), observe_raw(case['c'], True))
    mod, c = MODS[case['src']], case['c']
    if case['src'] == 'c07':
        random.seed(4242)        # the random id generators draw from the global PRNG: same draws for both halves
        a = mod.observe(dict(c, casync=False, dasync=False))
        random.seed(4242)
        b = mod.observe(dict(c, casync=True, dasync=True))
    else:
        a = mod.observe(dict(c, **{'async': False}))
        b = mod.observe(dict(c, **{'async': case.get('b', True)}))
    return (a, b)


class HookTracer(re_.Tracer):
    """A tracer that records its calls; the configured one raises from the configured hook."""
    def __init__(self, idx, log, bad_hook):
        self.idx, self.log, self.bad = idx, log, bad_hook

    def _hook(self, name):
        self.log.append([name, self.idx])
        if self.bad == name:
            raise RuntimeError('tracer %d fails in %s' % (self.idx, name))

    def on_request_begin(self, trace_context, request):
        self._hook('begin')

    def on_request_end(self, trace_context, request, response):
        self._hook('end')

    def on_error(self, trace_context, request, error):
        self._hook('error')


def observe_raw(c, is_async):
    import pjrpc
    script = ce.Script([re_.step_of(a, c['req'], k) for k, a in enumerate(c['script'])])
    log = []
    tracers = [HookTracer(i, log, c['hook'] if i == c['bad'] else None) for i in range(3)]
    cl = ce.make_client(is_async, script, tracers=tracers)

    def go():
        if c['req'] == 'batch':
            return cl.batch.send(pjrpc.BatchRequest(pjrpc.Request('m', [1], id=1)))
        return cl.send(pjrpc.Request('m', [1], id=None if c['req'] == 'notification' else 1))
    o = ce.run(is_async, go)
    out = ['ok', o[1] is None] if o[0] == 'ok' else ['raise', type(o[1]).__name__, str(o[1])[:60]]
    return [log, out, len(script.sent)]


def raw_same(a, b):
    oa, ob = a['out'], b['out']
    if oa[0] == 'some' and ob[0] == 'some' and len(oa) > 4 and len(ob) > 4:
        return 'true' if oa[4] == ob[4] else 'false'
    return 'true'


def encode(case, obs):
    src, c = case['src'], case['c']
    a, b = obs
    if src == 'rawtr':
        from harness.lib.coqterm import cjson
        return '(C11.PRaw %s %s)' % (cjson(a), cjson(b))
    if src in ('c01', 'c03'):
        cfg = c01.cfg_of(c) if src == 'c01' else c['cfg']
        t, defs = dispenv.cdcase_shared(cfg, a['load'], {'ctx': 7}, a['out'], a['events'])
        return ('(C11.PDisp %s %s %s)' % (t, dispenv.cdobs(b['out'], b['events']), raw_same(a, b)), defs)
    if src in ('c02', 'c12'):
        cfg = c02.cfg_of(c) if src == 'c02' else c['cfg']
        t, defs = dispenv.cdcase_shared(cfg, a['load'], {'ctx': 7}, a['out'], a['events'])
        return ('(C11.PDisp %s %s %s)' % (t, dispenv.cdobs(b['out'], b['events']), raw_same(a, b)), defs)
    if src in ('c09', 'c19'):
        return '(C11.PRetry %s %s)' % (re_.encode(dict(c, **{'async': False}), a), re_.cobs(b))
    if src == 'c08':
        return '(C11.PEight %s %s)' % (c08.encode(dict(c, **{'async': False}), a), ce.ccres(b))
    t, defs = c07.encode(dict(c, casync=False, dasync=False), a)
    return ('(C11.PSeven %s %s)' % (t, c07.cobs(b)), defs)


def case_key(case):
    return json.dumps(case, sort_keys=True, default=repr)


def distribution(cases, obs):
    d = {}
    for c in cases:
        d[c['src']] = d.get(c['src'], 0) + 1
    return d
