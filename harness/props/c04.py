"""C04 - methods receive exactly the caller's arguments plus the server-side context."""
import itertools
import json
import random

from harness.lib import dispenv
from harness.lib.coqterm import cjson, cstr, clist, copt

ID = 'C04'
CASE_TYPE = 'C04.case'
EXTRA_IMPORTS = dispenv.DISP_IMPORTS + 'From PJ Require Import Corr.DispOk.\n'
RULE = ('all well-formed signatures of <=3 (quick) / <=4 (thorough) parameters over {positional-only, positional-or-keyword, '
        'var-positional, keyword-only, var-keyword} x defaults; for each: (1) python cases - the real interpreter is called with '
        'every positional list of length 0..arity+1 and every mapping over subsets of (names + one unknown name), (2) dispatch '
        'cases - the same inputs sent as JSON-RPC params to a generated method whose body returns its bound arguments, with the '
        'context parameter at each position and in each passing mode (by name, first positional, view constructor) x plain '
        'function / coroutine (async dispatcher) / class-based view method (ordinary and @staticmethod); a mapping naming the context parameter is included; the context object is drawn from truthy and falsy values ({}, 0, None, '', [], False). '
        'route cases: methods with a context parameter (by name / positional, incl. a positional-only one) registered through a registry or a merged registry. reserved-name cases: parameters called method / self / params / context / request / name / func / args / kwargs / cls / id / exclude / positional; raising cases: a sample of all the above with a body that raises TypeError after logging its arguments; fragment cases: an ordinary parameter whose name is a fragment of the name of the context parameter (request / quest, context / text, ctx / c, ab / a) and the reverse. twin cases: the SAME function registered twice (with and without a context designation), one registration served first, the other observed. distinct = distinct (signature, context mode, kind, params); non-trivial = the method body ran')
EXHAUSTIVE = {'quick': True, 'thorough': True}
TRUSTED_BASE = ['CPython 3.12 call binding and inspect.Signature.bind as transcribed in Model/Bind.v (py_call is validated '
                'against the interpreter on every run by the python cases)']
ASSUMPTIONS = ['argument values are JSON values; distinct integers per argument make a mis-binding visible']
KNOWN_CLASSES = {'F5_variadic_or_positional_only': 1}

KINDS = ['PO', 'PK', 'VP', 'KO', 'VK']
ORDER = {k: i for i, k in enumerate(KINDS)}
NAMES = 'abcd'
CTX = {'ctx': 7}
CTXS = [{'ctx': 7}, {}, 0, None, '', [], False]      # truthy and falsy context objects


def wf(sig):
    ks = [k for _, k, _ in sig]
    if any(ORDER[a] > ORDER[b] for a, b in zip(ks, ks[1:])):
        return False
    if ks.count('VP') > 1 or ks.count('VK') > 1:
        return False
    seen = False
    for _, k, d in sig:
        if k in ('VP', 'VK') and d:
            return False
        if k in ('PO', 'PK'):
            if d:
                seen = True
            elif seen:
                return False
    return True


def signatures(maxn):
    for n in range(0, maxn + 1):
        for ks in itertools.product(KINDS, repeat=n):
            for ds in itertools.product([False, True], repeat=n):
                sig = [(NAMES[i], ks[i], ds[i]) for i in range(n)]
                if wf(sig):
                    yield sig


def inputs(sig, extra_names=()):
    n = len(sig)
    for k in range(0, n + 2):
        yield [101 + i for i in range(k)]
    names = [p[0] for p in sig] + ['zz'] + list(extra_names)
    for r in range(0, len(names) + 1):
        for sub in itertools.combinations(names, r):
            yield {m: 201 + i for i, m in enumerate(sub)}


def ctx_modes(sig):
    yield ('none',)
    yield ('view', False)
    yield ('view', True)
    yield ('view', False, 'static')       # a @staticmethod exposed by a class-based view
    yield ('view', True, 'static')
    for i, (n, k, d) in enumerate(sig):
        if k in ('PK', 'KO') and not d:
            yield ('name', n)
    if sig and sig[0][1] in ('PK', 'PO') and not sig[0][2]:
        yield ('pos', sig[0][0])


def generate(seed, tier):
    rnd = random.Random(seed)
    maxn = 3 if tier == 'quick' else 4
    cases = []
    for sig in signatures(maxn):
        for inp in inputs(sig):
            cases.append({'t': 'py', 'sig': sig, 'inp': inp})
        simple = all(k in ('PK', 'KO') for _, k, _ in sig)
        for cm in ctx_modes(sig):
            if not simple and cm[0] not in ('none',) and rnd.random() < 0.6:
                continue          # the variadic class is a known finding: keep a sample of its context variants
            extra = ()
            ins = list(inputs(sig))
            if tier == 'quick' and len(sig) == 3 and cm[0] != 'none':
                ins = rnd.sample(ins, min(len(ins), 10))
            for inp in ins:
                for is_async in ((False, True) if (cm[0] == 'none' or rnd.random() < 0.3) else (rnd.random() < 0.5,)):
                    cv = 0 if (cm[0] == 'none' or rnd.random() < 0.5) else rnd.randrange(1, len(CTXS))
                    cases.append({'t': 'disp', 'sig': sig, 'cm': cm, 'inp': inp, 'async': is_async, 'ctxv': cv})
    # the same function object registered twice with different context designations, the other registration served
    # first (binding must not depend on what the dispatcher served before)
    for sig in signatures(2 if tier == 'quick' else 3):
        if not sig or not all(k in ('PK', 'KO') for _, k, _ in sig):
            continue
        for cm in ctx_modes(sig):
            if cm[0] not in ('name', 'pos'):
                continue
            for first in ('f', 'g'):
                for inp in inputs(sig):
                    cases.append({'t': 'disp', 'sig': sig, 'cm': cm, 'inp': inp, 'async': rnd.random() < 0.5, 'ctxv': 0,
                                  'twin': first})
    # registration routes: the method reaches the dispatcher through a registry / a merged registry (Method.copy)
    for sig in signatures(2 if tier == 'quick' else 3):
        for cm in ctx_modes(sig):
            if cm[0] not in ('name', 'pos'):
                continue
            if any(k in ('VP', 'VK') for _, k, _ in sig) or any(k == 'PO' for _, k, _ in sig[1:]):
                continue          # keep the known class F5 out: at most the context parameter itself is positional-only
            for via in ('registry', 'merge'):
                for inp in inputs(sig):
                    cases.append({'t': 'disp', 'sig': sig, 'cm': cm, 'inp': inp, 'async': rnd.random() < 0.5, 'ctxv': 0, 'via': via})
    # parameter names that coincide with names the library itself uses (positionally or as keywords) on the way to the call
    simple2 = [sg for sg in signatures(2) if sg and all(k in ('PK', 'KO') for _, k, _ in sg)]
    for sg in simple2:
        for _ in range(2 if tier == 'quick' else 6):
            names = rnd.sample(RESERVED[1:], len(sg))
            if _ == 0:
                names[0] = 'ctx'          # the name the harness registers views' context under
            ren = [(names[i], k, d) for i, (_, k, d) in enumerate(sg)]
            for cm in ctx_modes(ren):
                if cm[0] == 'view' and 'self' in names:
                    continue
                for inp in inputs(ren):
                    cases.append({'t': 'disp', 'sig': ren, 'cm': cm, 'inp': inp, 'async': rnd.random() < 0.5, 'ctxv': 0})
    # the body itself raises a TypeError worded like the interpreter's own binding errors: the call was accepted all the same
    for c in [c for i, c in enumerate(cases) if c['t'] == 'disp' and i % 11 == 0 and not c.get('twin')]:
        cases.append(dict(c, raises=True))
    # parameter names that are fragments of the context parameter's name (and the other way round)
    for ctxname, frag in (('request', 'quest'), ('context', 'text'), ('ctx', 'c'), ('ctx', 'x'), ('ab', 'a'), ('ab', 'b'), ('c', 'ctx')):
        for sg in simple2:
            if len(sg) != 2 or sg[0][2]:
                continue
            ren = [(ctxname, sg[0][1], False), (frag, sg[1][1], sg[1][2])]
            for cm in (('name', ctxname), ('pos', ctxname)):
                if cm[0] == 'pos' and ren[0][1] != 'PK':
                    continue
                for inp in inputs(ren):
                    cases.append({'t': 'disp', 'sig': ren, 'cm': cm, 'inp': inp, 'async': rnd.random() < 0.5, 'ctxv': 0})
    return cases


RESERVED = ['ctx', 'method', 'self', 'params', 'context', 'request', 'name', 'func', 'args', 'kwargs', 'cls', 'id', 'exclude', 'positional']


def pyfun(sig):
    ns = {}
    exec('def f(%s):\n    return %s\n' % (dispenv.sig_source(sig), dispenv.env_expr(sig)), ns)
    return ns['f']


_funs = {}


def observe(case):
    sig = [tuple(p) for p in case['sig']]
    if case['t'] == 'py':
        key = json.dumps(sig)
        f = _funs.get(key) or _funs.setdefault(key, pyfun(sig))
        inp = case['inp']
        try:
            return ('ok', f(*inp) if isinstance(inp, list) else f(**inp))
        except TypeError:
            return ('typeerror',)
    cfg = cfg_of(case)
    if case.get('twin'):
        # 'f' has the context designation, 'g' is the same function registered plainly; serve `first`, observe the other
        first = case['twin']
        other = 'g' if first == 'f' else 'f'
        pre = [json.dumps({'jsonrpc': '2.0', 'id': 0, 'method': first, 'params': case['inp']})]
        text = json.dumps({'jsonrpc': '2.0', 'id': 1, 'method': other, 'params': case['inp']})
        out, events = dispenv.run(cfg, case['async'], text, CTXS[0], pre=pre)
        return {'load': ('ok', json.loads(text)), 'out': out, 'events': events}
    text = json.dumps({'jsonrpc': '2.0', 'id': 1, 'method': 'f', 'params': case['inp']})
    out, events = dispenv.run(cfg, case['async'], text, CTXS[case.get('ctxv', 0)])
    return {'load': ('ok', json.loads(text)), 'out': out, 'events': events}


def cfg_of(case):
    sig = [tuple(p) for p in case['sig']]
    ms = [{'name': 'f', 'sig': sig, 'ctx': tuple(case['cm']), 'body': ('exc', 10) if case.get('raises') else ('env',)}]
    if case.get('via'):
        ms[0]['via'] = case['via']
    if case.get('twin'):
        ms[0]['share'] = 'F'
        ms.append({'name': 'g', 'sig': sig, 'ctx': ('none',), 'body': ('env',), 'share': 'F'})
    return {'methods': ms, 'mws': [], 'ehs': [], 'max_batch': None}


def encode(case, obs):
    sig = [tuple(p) for p in case['sig']]
    if case['t'] == 'py':
        inp = case['inp']
        pos = clist(cjson(x) for x in inp) if isinstance(inp, list) else '[]'
        kw = clist('(%s, %s)' % (cstr(k), cjson(v)) for k, v in inp.items()) if isinstance(inp, dict) else '[]'
        o = 'None' if obs[0] == 'typeerror' else '(Some %s)' % cjson(obs[1])
        return '(C04.CPy %s %s %s %s)' % (dispenv.csig(sig), pos, kw, o)
    t, defs = dispenv.cdcase_shared(cfg_of(case), obs['load'], CTXS[case.get('ctxv', 0)], obs['out'], obs['events'])
    return ('(C04.CDisp %s)' % t, defs)


def case_key(case):
    return json.dumps(case, sort_keys=True)


def case_from_json(c):
    return c


def distribution(cases, obs):
    d = {}
    for c, o in zip(cases, obs):
        if c['t'] == 'py':
            k = 'py:%s:%s' % ('list' if isinstance(c['inp'], list) else 'dict', o[0])
        else:
            out = o['out']
            simple = all(p[1] in ('PK', 'KO') for p in c['sig'])
            k = 'disp:%s:%s:%s' % ('simple' if simple else 'variadic/posonly', c['cm'][0],
                                   ('code %s' % out[2][0]) if out[0] == 'some' else out[0])
        d[k] = d.get(k, 0) + 1
    return d
