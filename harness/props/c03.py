"""C03 - failures map to the JSON-RPC 2.0 error codes; application errors pass verbatim; no leak."""
import itertools
import json
import random

from harness.lib import corpus, dispenv

ID = 'C03'
CASE_TYPE = 'C03.case'
EXTRA_IMPORTS = dispenv.DISP_IMPORTS + 'From PJ Require Import Corr.DispOk.\n'
RULE = ('failure kinds x {call, notification, inside a batch at each position of a 3-batch}: protocol errors with codes '
        '{0,1,-1, six standard codes, -32099, 2**70} x messages {"", "m"} x data {absent, null, 0, "", [], {}, nested}; exception '
        'types ValueError, KeyError, TypeError (raised inside the body), AssertionError, RuntimeError, custom subclass, an exception class whose __repr__ / __str__ raise, a TypeError from inside the body worded like an argument mismatch, and the non-protocol exceptions of the library itself (validators.ValidationError, DeserializationError, IdentityError), each carrying '
        'a marker string searched for in the response; unknown method; params that do not bind (missing/surplus/unknown, list and '
        'mapping); invalid request objects; invalid batches; non-JSON and huge-integer texts; ONE long-lived error object whose fields are set from the arguments and which is raised again by a later request (every ordered pair over 7 argument triples); both dispatchers, and the asynchronous dispatcher serving plain functions. distinct = distinct '
        '(config, text, kind); non-trivial = the reply carries an error code or the text is JSON')
EXHAUSTIVE = {'quick': True, 'thorough': True}
TRUSTED_BASE = ['json.loads as the configured loader (verdict supplied per case)',
                'Bind.direct_call (CPython call binding) as the specification of "parameters bind"']
ASSUMPTIONS = ['error data strings produced by the library itself are replaced by "<text>" on both sides',
               'marker strings (S3CR3T*, exception type names) do not occur in configured constants']

CODES = [0, 1, -1, -32700, -32600, -32601, -32602, -32603, -32000, -32099, 2 ** 70]
MSGS = ['', 'm']
DATAS = ['<unset>', None, 0, '', [], {}, {'k': [1, {'z': None}]}]


def cfg_rpc(code, msg, data):
    ms = [{'name': 'f', 'sig': [('a', 'PK', True)], 'ctx': ('none',), 'body': ('rpc', code, msg, data)},
          {'name': 'ok', 'sig': [('a', 'PK', False), ('b', 'KO', True)], 'ctx': ('none',), 'body': ('env',)}]
    return {'methods': ms, 'mws': [], 'ehs': [], 'max_batch': None}


def cfg_exc(tag):
    ms = [{'name': 'f', 'sig': [('a', 'PK', True)], 'ctx': ('none',), 'body': ('exc', tag)},
          {'name': 'ok', 'sig': [('a', 'PK', False), ('b', 'KO', True)], 'ctx': ('none',), 'body': ('env',)}]
    return {'methods': ms, 'mws': [], 'ehs': [], 'max_batch': None}


def cfg_shared():
    ms = [{'name': 'f', 'sig': [('code', 'PK', False), ('message', 'PK', False), ('data', 'PK', True)], 'ctx': ('none',), 'body': ('rpcargs',)},
          {'name': 'ok', 'sig': [('a', 'PK', False), ('b', 'KO', True)], 'ctx': ('none',), 'body': ('env',)}]
    return {'methods': ms, 'mws': [], 'ehs': [], 'max_batch': None}


SHARED_ARGS = [[7, 'seven'], [7, 'seven', 'U:d1'], [8, 'eight', None], [0, '', {'k': [1]}], [7, 'seven', 'U:d2'], [-5, 'm', 0], [2 ** 40, 'big', []]]


def shapes(method, params=corpus.A):
    def el(i):
        d = {'jsonrpc': '2.0', 'method': method}
        if params is not corpus.A:
            d['params'] = params
        if i is not corpus.A:
            d['id'] = i
        return d
    ok = {'jsonrpc': '2.0', 'method': 'ok', 'params': [1], 'id': 'k'}
    note = {'jsonrpc': '2.0', 'method': 'ok', 'params': {'a': 2}}
    yield el(1)
    yield el(corpus.A)
    yield [el(1), ok, note]
    yield [ok, el('x'), note]
    yield [note, ok, el(0)]
    yield [el(corpus.A), el(corpus.A)]


def generate(seed, tier):
    rnd = random.Random(seed)
    cases = []
    for code, msg, data in itertools.product(CODES, MSGS, DATAS):
        for doc in shapes('f'):
            cases.append({'cfg': cfg_rpc(code, msg, data), 'text': json.dumps(doc)})
    for tag in range(11):
        for doc in shapes('f'):
            cases.append({'cfg': cfg_exc(tag), 'text': json.dumps(doc)})
    # one long-lived error object re-raised with other fields: every ordered pair of calls, the first one served (and
    # answered) before the observed one, as a call / a notification / inside a batch
    for a1 in SHARED_ARGS:
        for a2 in SHARED_ARGS:
            if a1 is a2:
                continue
            pre = [json.dumps({'jsonrpc': '2.0', 'method': 'f', 'params': a1, 'id': 0})]
            docs = list(shapes('f', a2))
            for doc in (docs[:1] if tier == 'quick' else docs[:3]):
                cases.append({'cfg': cfg_shared(), 'text': json.dumps(doc), 'pre': pre})
    base = cfg_exc(0)
    for params in ([], [1, 2], {'zz': 1}, {'a': 1, 'zz': 2}, {'b': 1}, [1, 2, 3], {}, None, 'x'):
        for doc in shapes('ok', params):
            cases.append({'cfg': base, 'text': json.dumps(doc)})
    for doc in shapes('nosuch', [1]):
        cases.append({'cfg': base, 'text': json.dumps(doc)})
    for bad in (1, None, 'x', {}, [], [1], [[]], {'jsonrpc': '2.0'}, {'jsonrpc': '1.0', 'method': 'ok', 'id': 1},
                {'jsonrpc': '2.0', 'method': 1, 'id': 1}, {'jsonrpc': '2.0', 'method': 'ok', 'params': 1, 'id': 1},
                {'jsonrpc': '2.0', 'method': 'ok', 'id': 1.5}, {'jsonrpc': '2.0', 'method': 'ok', 'id': True},
                [{'jsonrpc': '2.0', 'method': 'ok', 'params': [1], 'id': 1}, 1],
                [{'jsonrpc': '2.0', 'method': 'ok', 'params': [1], 'id': 1}, {'jsonrpc': '2.0', 'method': 'f', 'id': 1}]):
        cases.append({'cfg': base, 'text': json.dumps(bad)})
    for t in corpus.malformed_texts() + [x for x in corpus.huge_int_texts() if 19 < len(x) < 5200]:
        cases.append({'cfg': base, 'text': t})
    for mb in (1, 2):
        cseq = dict(base, max_batch=mb, seq=True)
        cases.append({'cfg': cseq, 'text': json.dumps([{'jsonrpc': '2.0', 'method': 'f', 'id': 1}, {'jsonrpc': '2.0', 'method': 'f', 'id': 2},
                                                        {'jsonrpc': '2.0', 'method': 'ok', 'params': [1]}])})
        c = dict(base, max_batch=mb)
        cases.append({'cfg': c, 'text': json.dumps([{'jsonrpc': '2.0', 'method': 'f', 'id': 1}, {'jsonrpc': '2.0', 'method': 'f', 'id': 2}])})
    # the C01/C02 corpus under the standard configuration
    prod = corpus.member_product()
    rnd.shuffle(prod)
    for o in prod[:300 if tier == 'quick' else 5000]:
        cases.append({'cfg': corpus.STD_CFG, 'text': json.dumps(o)})
    for _ in range(200 if tier == 'quick' else 3000):
        cases.append({'cfg': corpus.STD_CFG, 'text': json.dumps([corpus.valid_element(rnd) for _ in range(rnd.choice([1, 2, 3, 4]))])})
    out = []
    for c in cases:
        # 'plain': the asynchronous dispatcher serving plain (non-coroutine) functions
        for is_async in (False, True, 'plain', 'wrapped'):
            out.append(dict(c, **{'async': is_async}))
    return dispenv.with_variants(out, 6, key=lambda c, v: dict(c, cfg=dict(c['cfg'], **v)))


def observe(case):
    out, events = dispenv.run(case['cfg'], case['async'], case['text'], {'ctx': 7}, pre=case.get('pre', ()))
    return {'load': dispenv.load_result(case['text']), 'out': out, 'events': events}


def encode(case, obs):
    return dispenv.cdcase_shared(case['cfg'], obs['load'], {'ctx': 7}, obs['out'], obs['events'])


def case_key(case):
    return json.dumps([case['cfg'], case['text'][:3000], len(case['text']), case['async'], case.get('pre')], sort_keys=True, default=repr)


def distribution(cases, obs):
    d = {}
    for c, o in zip(cases, obs):
        out = o['out']
        if out[0] == 'some':
            k = 'codes:' + ','.join(str(x) for x in sorted(set(out[2]), key=repr))
        else:
            k = out[0]
        d[k] = d.get(k, 0) + 1
    return d


def shrink_candidates(case):
    try:
        v = json.loads(case['text'])
    except ValueError:
        return
    if isinstance(v, list):
        for i in range(len(v)):
            yield dict(case, text=json.dumps(v[:i] + v[i + 1:]))
