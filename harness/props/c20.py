"""C20 - the pytest mocker answers as configured: round-robin, once, recorded."""
import asyncio
import itertools
import json
import random

import pjrpc
from pjrpc.client.integrations.pytest import PjRpcMocker

from harness.lib import mockbackend
from harness.lib.coqterm import cjson, cstr, clist, copt, cbool, cZ
from harness.lib.dispenv import cid, cparams, loop
from harness.lib.clientenv import crequest

ID = 'C20'
CASE_TYPE = 'C20.case'
EXTRA_IMPORTS = 'From PJ Require Import Model.Msg Model.Mocker.\n'
RULE = ('operation / call histories of length 1..4 (quick: all of length <= 2 over a reduced alphabet + 2500 sampled to length 6) / '
        '(thorough: all of length <= 3 + 40000 sampled to length 7) + 400 / 4000 rotation scenarios (k patches on one pair, calls, a replace at each index, more calls) over 2 endpoints x 2 methods x patches {result (truthy and falsy values), error, callback (returning its arguments, or a constant incl. the falsy values 0, null, "", [], {}, false), callback that raises} x '
        'once on / off x patch ids x replace at index -3..2 (Python list indices) x remove (method / whole endpoint) x reset x passthrough on / off x calls with '
        'positional / named / absent params and ids {1, 0, "", "x", none} x single / batch (incl. all-notification and mixed), for the '
        'sync and the async transport. distinct = distinct (history, passthrough, kind); non-trivial = at least one reply was produced')
EXHAUSTIVE = {'quick': False, 'thorough': False}
TRUSTED_BASE = ['unittest.mock.patch with autospec; MagicMock.call_args_list as the record of calls']
ASSUMPTIONS = ['batch documents carry pairwise distinct ids (a batch with duplicate ids is not a valid request and is refused before matching)']

EPS = ['http://a', 'http://b']
METHODS = ['m', 'n']
PATCHES = [('result', 'r1'), ('result', None), ('result', [0]), ('result', 0), ('result', ''), ('result', False), ('result', []), ('result', {}), ('error', (7, 'e7', None)), ('error', (-32000, '', 'UNSET')), ('callback', 'c1'), ('callback', 0),
           ('callback', {'const': 0}), ('callback', {'const': None}), ('callback', {'const': ''}), ('callback', {'const': []}), ('callback', {'const': False}), ('callback', {'const': {}}),
           ('raise', 'boom')]       # a callback that raises
PARAMS = [None, [1], {'k': 2}, [[], None]]
IDS = [1, 0, '', 'x', None]


def rand_patch(rnd):
    kind, val = rnd.choice(PATCHES)
    return {'kind': kind, 'val': val, 'once': rnd.random() < 0.35, 'id': rnd.choice([None, None, 9, 'p'])}


def rand_request(rnd, i='<random>'):
    return {'method': rnd.choice(METHODS + ['zz'] if rnd.random() < 0.15 else METHODS), 'params': rnd.choice(PARAMS),
            'id': rnd.choice(IDS) if i == '<random>' else i}


def rand_op(rnd):
    k = rnd.choice(['add', 'add', 'add', 'call', 'call', 'call', 'call', 'batch', 'replace', 'remove', 'remove_ep', 'reset'])
    ep = rnd.choice(EPS)
    if k == 'add':
        return ['add', ep, rnd.choice(METHODS), rand_patch(rnd)]
    if k == 'replace':
        return ['replace', ep, rnd.choice(METHODS), rnd.choice([0, 0, 1, 2, -1, -2, -3]), rand_patch(rnd)]
    if k == 'remove':
        return ['remove', ep, rnd.choice(METHODS)]
    if k == 'remove_ep':
        return ['remove', ep, None]
    if k == 'reset':
        return ['reset'] if rnd.random() < 0.3 else ['call', ep, rand_request(rnd)]
    if k == 'call':
        return ['call', ep, rand_request(rnd)]
    n = rnd.choice([1, 2, 3])
    ids = rnd.sample([1, 0, '', 'x', 5], n)
    reqs = [rand_request(rnd, i if rnd.random() < 0.75 else None) for i in ids]
    return ['batch', ep, reqs]


def generate(seed, tier):
    rnd = random.Random(seed)
    cases = []
    # exhaustive short histories over a reduced alphabet
    alpha = []
    for ep in EPS[:1]:
        alpha.append(['add', ep, 'm', {'kind': 'result', 'val': 'A', 'once': False, 'id': None}])
        alpha.append(['add', ep, 'm', {'kind': 'result', 'val': 'B', 'once': True, 'id': None}])
        alpha.append(['add', ep, 'n', {'kind': 'callback', 'val': 'C', 'once': False, 'id': None}])
        alpha.append(['call', ep, {'method': 'm', 'params': [1], 'id': 1}])
        alpha.append(['call', ep, {'method': 'n', 'params': None, 'id': 0}])
        alpha.append(['remove', ep, 'm'])
        alpha.append(['remove', ep, None])
        alpha.append(['replace', ep, 'm', 0, {'kind': 'error', 'val': (7, 'e7', None), 'once': False, 'id': None}])
        alpha.append(['batch', ep, [{'method': 'm', 'params': [1], 'id': 1}, {'method': 'n', 'params': None, 'id': None}, {'method': 'm', 'params': {'k': 2}, 'id': ''}]])
    alpha.append(['call', EPS[1], {'method': 'm', 'params': None, 'id': 1}])
    maxlen = 3 if tier == 'quick' else 4
    for n in range(1, maxlen + 1):
        for ops in itertools.product(range(len(alpha)), repeat=n):
            if n >= 3 and tier == 'quick' and rnd.random() < 0.5:
                continue
            if n == 4 and rnd.random() < 0.8:
                continue
            cases.append({'ops': [alpha[i] for i in ops], 'passthrough': rnd.random() < 0.3, 'async': rnd.random() < 0.5})
    # rotation scenarios on ONE (endpoint, method) pair: k patches, some calls, a replace at each index (or nothing), more calls
    for _ in range(400 if tier == 'quick' else 4000):
        ep, m = rnd.choice(EPS), rnd.choice(METHODS)
        k = rnd.choice([2, 3, 3])
        ops = [['add', ep, m, dict(rand_patch(rnd), once=rnd.random() < 0.25)] for _ in range(k)]

        def calls(n):
            out = []
            for _ in range(n):
                if rnd.random() < 0.75:
                    out.append(['call', ep, {'method': m, 'params': rnd.choice(PARAMS), 'id': rnd.choice([1, 2, 'x'])}])
                else:
                    ids = rnd.sample([1, 0, 'x', 5], rnd.choice([2, 3]))
                    out.append(['batch', ep, [{'method': m, 'params': rnd.choice(PARAMS), 'id': i} for i in ids]])
            return out
        ops += calls(rnd.choice([0, 1, 2]))
        r = rnd.random()
        if r < 0.7:
            ops.append(['replace', ep, m, rnd.randrange(-k - 1, k), rand_patch(rnd)])
        elif r < 0.85:
            ops.append(['add', ep, m, rand_patch(rnd)])
        ops += calls(rnd.choice([2, 3, 4]))
        cases.append({'ops': ops, 'passthrough': rnd.random() < 0.3, 'async': rnd.random() < 0.5})
    for _ in range(2500 if tier == 'quick' else 40000):
        n = rnd.randint(2, 6 if tier == 'quick' else 7)
        cases.append({'ops': [rand_op(rnd) for _ in range(n)], 'passthrough': rnd.random() < 0.4, 'async': rnd.random() < 0.5})
    return cases


class CallbackBoom(Exception):
    pass


def mk_raiser(tag):
    def cb(*a, **kw):
        raise CallbackBoom(tag)
    return cb


def mk_callback(tag):
    def cb(*a, **kw):
        if isinstance(tag, dict) and list(tag) == ['const']:
            return tag['const']                 # a callback whose value does not depend on the arguments - and may be falsy
        return [tag, kw if kw else list(a)]
    return cb


def patch_kwargs(p):
    kw = {'once': p['once']}
    if p['id'] is not None:
        kw['id'] = p['id']
    if p['kind'] == 'result':
        kw['result'] = p['val']
    elif p['kind'] == 'error':
        code, msg, data = p['val']
        kw['error'] = pjrpc.exc.JsonRpcError(code=code, message=msg, data=pjrpc.common.UNSET if data == 'UNSET' else data)
    elif p['kind'] == 'raise':
        kw['callback'] = mk_raiser(p['val'])
    else:
        kw['callback'] = mk_callback(p['val'])
    return kw


def req_doc(r):
    d = {'jsonrpc': '2.0', 'method': r['method']}
    if r['params'] is not None:
        d['params'] = r['params']
    if r['id'] is not None:
        d['id'] = r['id']
    return d


def observe(case):
    is_async = case['async']
    target = 'harness.lib.mockbackend.%s._request' % ('AsyncBackend' if is_async else 'SyncBackend')
    mocker = PjRpcMocker(target, passthrough=case['passthrough'])
    mocker.start()
    backends = {ep: (mockbackend.AsyncBackend if is_async else mockbackend.SyncBackend)(ep) for ep in EPS}
    outs = []
    try:
        for op in case['ops']:
            try:
                if op[0] == 'add':
                    mocker.add(op[1], op[2], **patch_kwargs(op[3]))
                    outs.append(('done',))
                elif op[0] == 'replace':
                    mocker.replace(op[1], op[2], idx=op[3], **patch_kwargs(op[4]))
                    outs.append(('done',))
                elif op[0] == 'remove':
                    mocker.remove(op[1], op[2])
                    outs.append(('done',))
                elif op[0] == 'reset':
                    mocker.reset()
                    outs.append(('done',))
                else:
                    doc = req_doc(op[2]) if op[0] == 'call' else [req_doc(r) for r in op[2]]
                    r = backends[op[1]]._request(json.dumps(doc), False)
                    if asyncio.iscoroutine(r):
                        r = loop().run_until_complete(r)
                    outs.append(('pass',) if r == 'PASSTHROUGH' else ('reply', json.loads(r)))
            except KeyError:
                outs.append(('key',))
            except IndexError:
                outs.append(('index',))
            except ConnectionRefusedError:
                outs.append(('refused',))
            except pjrpc.exceptions.IdentityError:
                outs.append(('identity',))
            except CallbackBoom:
                outs.append(('raised',))
        calls = []
        for ep, table in mocker.calls.items():
            ms = []
            for (version, method), stub in table.items():
                ms.append((method, [(dict(c.kwargs) if c.kwargs else list(c.args)) for c in stub.call_args_list]))
            calls.append((ep, ms))
    finally:
        mocker.stop()
    return {'outs': outs, 'calls': calls}


def cpatch(p):
    if p['kind'] == 'result':
        k = '(PResult %s)' % cjson(p['val'])
    elif p['kind'] == 'error':
        code, msg, data = p['val']
        k = ('(PError {| e_code := %s; e_msg := %s; e_data := %s; e_class := "JsonRpcError" |})'
             % (cZ(code), cstr(msg), 'None' if data == 'UNSET' else '(Some %s)' % cjson(data)))
    elif p['kind'] == 'raise':
        k = 'PRaise'
    else:
        k = '(PCallback %s)' % cjson(p['val'])
    return '{| p_kind := %s; p_once := %s; p_id := %s |}' % (k, cbool(p['once']), cid(p['id']))


def creq(r):
    # as Request.from_json sees it: absent params -> the empty list
    return crequest({'method': r['method'], 'params': [] if r['params'] is None else r['params'], 'id': r['id']})


def cop(op):
    if op[0] == 'add':
        return '(MAdd %s %s %s)' % (cstr(op[1]), cstr(op[2]), cpatch(op[3]))
    if op[0] == 'replace':
        return '(MReplace %s %s %s %s)' % (cstr(op[1]), cstr(op[2]), cZ(op[3]), cpatch(op[4]))
    if op[0] == 'remove':
        return '(MRemove %s %s)' % (cstr(op[1]), copt(op[2], cstr))
    if op[0] == 'reset':
        return 'MReset'
    if op[0] == 'call':
        return '(MCall %s %s)' % (cstr(op[1]), creq(op[2]))
    return '(MBatch %s %s)' % (cstr(op[1]), clist(creq(r) for r in op[2]))


def cout(o):
    return {'done': 'MDone', 'key': 'MKeyError', 'index': 'MIndexError', 'refused': 'MRefused', 'pass': 'MPassthrough',
            'identity': 'MIdentity', 'raised': 'MRaised'}.get(o[0]) or '(MReply %s)' % cjson(o[1])


def encode(case, obs):
    calls = clist('(%s, %s)' % (cstr(ep), clist('(%s, %s)' % (cstr(m), clist(cjson(a) for a in args)) for m, args in ms)) for ep, ms in obs['calls'])
    return ('{| passthrough := %s; ops := %s; outs := %s; final_calls := %s |}'
            % (cbool(case['passthrough']), clist(cop(o) for o in case['ops']), clist(cout(o) for o in obs['outs']), calls))


def case_key(case):
    return json.dumps(case, sort_keys=True, default=repr)


def case_from_json(c):
    return c


def distribution(cases, obs):
    d = {}
    for c, o in zip(cases, obs):
        for x in o['outs']:
            d[x[0]] = d.get(x[0], 0) + 1
    return d


def shrink_candidates(case):
    ops = case['ops']
    for i in range(len(ops)):
        if len(ops) > 1:
            yield dict(case, ops=ops[:i] + ops[i + 1:])
