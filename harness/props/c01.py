"""C01 - the server answers every request text with a well-formed JSON-RPC 2.0 response."""
import json
import random

from harness.lib import corpus, dispenv

ID = 'C01'
CASE_TYPE = 'dcase'
EXTRA_IMPORTS = dispenv.DISP_IMPORTS
RULE = ('request texts: (a) sample of the member-alphabet product jsonrpc(5) x id(13) x method(12) x params(15); arrays of 0..4 '
        '(quick) / 0..6 (thorough) mostly-valid elements; scalars; containers nested to 64 levels; (b) non-JSON texts: truncations '
        'at every token boundary, garbage, BOM, trailing data, NaN/Infinity, lone surrogate; (c) integer literals of 1..20000 digits '
        'at top level, as id, inside params; (d) batches both over the size limit and malformed (entry that is no request, repeated id) at limits 1, n-1, n; each x dispatcher kind (sync / async / async serving plain functions) x max_batch_size in {None,0,1,n-1,n,n+1} x method '
        'behaviours (returns / raises protocol error / raises other). distinct = distinct (text, kind, max_batch_size); non-trivial '
        '= the text parses to an object or a non-empty array (is not rejected at parse time)')
EXHAUSTIVE = {'quick': False, 'thorough': False}
TRUSTED_BASE = ['json.loads as the configured loader: its verdict (value / JSONDecodeError / other ValueError) is computed '
                'independently per case and handed to the model as data',
                'Model.Bind (CPython call binding + inspect.Signature.bind) as validated by C04']
ASSUMPTIONS = ['registered methods return JSON-encodable values; middlewares/error handlers do not raise',
               'nesting deeper than the interpreter recursion limit is outside the quantifier (<= 64 levels explored)']


def generate(seed, tier):
    rnd = random.Random(seed)
    texts = []
    prod = corpus.member_product()
    rnd.shuffle(prod)
    # rebalance: the naive product is ~80% -32600; keep a slice of it and add mostly-valid objects
    texts += [json.dumps(o) for o in prod[:600 if tier == 'quick' else 6000]]
    for _ in range(300 if tier == 'quick' else 3000):
        texts.append(json.dumps(corpus.valid_element(rnd, bad_p=0.0)))
    maxlen = 4 if tier == 'quick' else 6
    for n in range(0, maxlen + 1):
        for _ in range(60 if tier == 'quick' else 500):
            texts.append(json.dumps([corpus.valid_element(rnd) for _ in range(n)]))
    texts += corpus.malformed_texts() + corpus.scalar_texts() + corpus.huge_int_texts() + corpus.nested_texts() + corpus.special_batches()
    cases = []
    for t in texts:
        try:
            v = json.loads(t)
            n = len(v) if isinstance(v, list) else 1
        except ValueError:
            n = 1
        sizes = [None, 0, 1, n - 1, n, n + 1] if isinstance(n, int) and n > 1 else [None, 0, 1]
        sizes = sorted({s for s in sizes if s is None or s >= 0}, key=lambda x: (-1 if x is None else x))
        if tier == 'quick':
            sizes = [None] + rnd.sample(sizes[1:], min(1, len(sizes) - 1))
        for mb in sizes:
            for is_async in (False, True):
                cases.append({'text': t, 'async': is_async, 'max_batch': mb})
        if len(cases) % 3 == 0:
            # the asynchronous dispatcher serving plain (non-coroutine) functions
            cases.append({'text': t, 'async': 'plain', 'max_batch': None})
        if len(cases) % 3 == 1:
            cases.append({'text': t, 'async': 'wrapped', 'max_batch': None})
    cases += targeted()
    return dispenv.with_variants(cases, 9)


def targeted():
    """Cases kept whole by every consumer of this corpus (C11 samples the rest): the size limit against malformed batches."""
    return [{'text': t, 'async': is_async, 'max_batch': mb} for t, mb in corpus.oversize_malformed() for is_async in (False, True)]


def cfg_of(case):
    return dict(corpus.STD_CFG, max_batch=case['max_batch'], **(case.get('variant') or {}))


def observe(case):
    out, events = dispenv.run(cfg_of(case), case['async'], case['text'], {'ctx': 7})
    return {'load': dispenv.load_result(case['text']), 'out': out, 'events': events}


def encode(case, obs):
    return dispenv.cdcase_shared(cfg_of(case), obs['load'], {'ctx': 7}, obs['out'], obs['events'])


def case_key(case):
    return json.dumps([case['text'][:2000], len(case['text']), case['async'], case['max_batch'], case.get('variant')])


def distribution(cases, obs):
    d = {}
    for c, o in zip(cases, obs):
        out = o['out']
        if out[0] == 'some':
            codes = out[2]
            k = 'batch[%d]' % len(codes) if isinstance(out[1], list) else 'single:%d' % codes[0]
            if not out[3]:
                d['response text not RFC 8259 (NaN/Infinity echo, stdlib leniency)'] = d.get('response text not RFC 8259 (NaN/Infinity echo, stdlib leniency)', 0) + 1
        elif out[0] == 'none':
            k = 'nothing'
        else:
            k = 'raised:%s' % type(out[1]).__name__
        k = '%s/%s' % (o['load'][0], k)
        d[k] = d.get(k, 0) + 1
    return d


def shrink_candidates(case):
    try:
        v = json.loads(case['text'])
    except ValueError:
        return
    if isinstance(v, list):
        for i in range(len(v)):
            yield dict(case, text=json.dumps(v[:i] + v[i + 1:]))
    elif isinstance(v, dict):
        for k in v:
            yield dict(case, text=json.dumps({a: b for a, b in v.items() if a != k}))
