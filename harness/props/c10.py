"""C10 - concurrent batches cannot mix up responses; sequential mode is sequential."""
import asyncio
import itertools
import json
import random

import pjrpc
from pjrpc.server import AsyncDispatcher, ViewMixin

from harness.lib.coqterm import cjson, clist, copt, cbool
from harness.lib.dispenv import loop

ID = 'C10'
CASE_TYPE = 'C10.case'
EXTRA_IMPORTS = 'From PJ Require Import Model.Async.\n'
RULE = ('batches of 1..3 (quick) / 1..4 (thorough) elements, each element a call or a notification of a method that succeeds / raises a '
        'protocol error / raises another exception / is unknown / is a plain non-coroutine function / is a method of a class-based view keeping per-call state on its instance across the suspension / takes no parameters (one of them receiving the application context by keyword) and is called without a params member, with 0..2 suspension points placed '
        'in the method, in a middleware (before / after the inner handler) or in an error handler (generic and per-code handlers; several elements failing with one code; batches of notifications only) (a third of the shapes also under a plain-function middleware that returns the inner awaitable); every suspension point is a Future; '
        'ALL interleavings of the resolution order are enumerated (multiset permutations; sampled above 400 per shape in quick) for the '
        'concurrent mode, and the forced order for concurrent_batch=False. Each element is also dispatched ALONE to obtain its own trace '
        'and response. distinct = distinct (shape, mode, schedule); non-trivial = at least two elements and one resolved suspension')
EXHAUSTIVE = {'quick': False, 'thorough': False}
TRUSTED_BASE = ['asyncio: resolving one Future resumes exactly the coroutine awaiting it up to its next suspension point (the controlled '
                'scheduler lets the loop quiesce after every resolution)']
ASSUMPTIONS = ['registered methods / middlewares / handlers keep no state of their own apart from the instrumentation log']


class Gate:
    def __init__(self):
        self.pending = []          # (element, future)
        self.log = []              # (element, event)

    async def wait(self, elem):
        fut = asyncio.get_event_loop().create_future()
        self.pending.append((elem, fut))
        await fut


def build(shape, gate, concurrent):
    """shape: list of element descriptors {'m','susp','where','notif'}; element k is addressed by params [k]."""
    where = {k: (e['where'], e['susp']) for k, e in enumerate(shape)}

    async def suspend(k, place):
        w, n = where[k]
        if w == place:
            for j in range(n):
                await gate.wait(k)
                gate.log.append((k, ['resume', place, j]))

    # elements calling the parameterless methods carry no params member at all: they are told apart by the method name (at most
    # one element per such method in a shape)
    name_to_k = {e['m']: k for k, e in enumerate(shape) if e['m'] in NOPARAMS}

    def elem(request):
        return request.params[0] if request.params else name_to_k[request.method]

    async def mw(request, context, handler):
        k = elem(request)
        gate.log.append((k, ['enter']))
        await suspend(k, 'mw_pre')
        resp = await handler(request, context)
        await suspend(k, 'mw_post')
        gate.log.append((k, ['exit', None if resp is pjrpc.common.UNSET else resp.to_json()]))
        return resp

    async def eh(request, context, error):
        k = elem(request)
        gate.log.append((k, ['eh', error.code]))
        await suspend(k, 'eh')
        return error

    async def eh_code(request, context, error):
        # a handler registered for one code: stamps the error with the element it was run for
        k = elem(request)
        gate.log.append((k, ['eh-code', error.code]))
        return type(error)(code=error.code, message=error.message, data=['stamped', k])

    def plain_mw(request, context, handler):
        # a middleware written as a plain function that does its bookkeeping and hands back the awaitable of the inner handler
        # (the middleware type allows it): entering happens when the dispatcher CALLS the chain, not when it awaits it
        k = elem(request)
        gate.log.append((k, ['enter-plain']))
        return handler(request, context)

    use_mw = any(e['where'] in ('mw_pre', 'mw_post') for e in shape)
    use_eh = any(e['where'] == 'eh' for e in shape)
    mws = ([mw] if use_mw else []) + ([plain_mw] if any(e.get('plain_mw') for e in shape) else [])
    disp = AsyncDispatcher(middlewares=mws, error_handlers={None: [eh], 7: [eh_code], -32000: [eh_code]} if use_eh else {},
                           concurrent_batch=concurrent)

    async def ok(a):
        gate.log.append((a, ['call', 'ok']))
        await suspend(a, 'method')
        return ['r', a]

    async def fail(a):
        gate.log.append((a, ['call', 'fail']))
        await suspend(a, 'method')
        raise pjrpc.exceptions.JsonRpcError(code=7, message='f', data=a)

    async def boom(a):
        gate.log.append((a, ['call', 'boom']))
        await suspend(a, 'method')
        raise ValueError('x')

    def plain(a):
        gate.log.append((a, ['call', 'plain']))
        return ['p', a]
    for f in (ok, fail, boom, plain):
        disp.add(f)

    # parameterless methods, one of them taking the application context under a keyword name
    async def whoami(session):
        a = name_to_k['whoami']
        gate.log.append((a, ['call', 'whoami']))
        await suspend(a, 'method')
        return ['w', session]

    async def ping():
        a = name_to_k['ping']
        gate.log.append((a, ['call', 'ping']))
        await suspend(a, 'method')
        return ['pong']
    disp.add(whoami, context='session')
    disp.add(ping)

    # a class-based view (no context): the library creates the instance for the request, so state kept on `self`
    # across a suspension point belongs to that element alone
    class View(ViewMixin):
        async def vok(self, a):
            gate.log.append((a, ['call', 'vok']))
            self.a = a
            await suspend(a, 'method')
            return ['v', self.a]

        async def vfail(self, a):
            gate.log.append((a, ['call', 'vfail']))
            self.a = a
            await suspend(a, 'method')
            raise pjrpc.exceptions.JsonRpcError(code=8, message='vf', data=self.a)
    disp.view(View)
    return disp


NOPARAMS = ('whoami', 'ping')


def element_json(k, e):
    d = {'jsonrpc': '2.0', 'method': e['m'], 'params': [k]}
    if e['m'] in NOPARAMS:
        del d['params']
    if not e['notif']:
        d['id'] = 'i%d' % k
    return d


async def drive(disp, text, gate, chooser):
    task = asyncio.ensure_future(disp.dispatch(text))
    marks, order = [], []

    async def quiesce():
        for _ in range(12):
            await asyncio.sleep(0)
    await quiesce()
    marks.append(len(gate.log))
    guard = 0
    while not task.done():
        guard += 1
        if guard > 200:
            task.cancel()
            raise RuntimeError('scheduler stuck: pending=%r' % ([p[0] for p in gate.pending],))
        if not gate.pending:
            await quiesce()
            continue
        idx = chooser([p[0] for p in gate.pending])
        if idx is None:
            task.cancel()
            return None, marks, order, 'infeasible'
        elem, fut = gate.pending.pop(idx)
        fut.set_result(None)
        order.append(elem)
        await quiesce()
        marks.append(len(gate.log))
    return task.result(), marks, order, 'done'


def run_alone(shape, k):
    gate = Gate()
    disp = build(shape, gate, True)
    text = json.dumps(element_json(k, shape[k]))
    r, marks, order, status = loop().run_until_complete(drive(disp, text, gate, lambda pend: 0))
    evs = [e for _, e in gate.log]
    segs, prev = [], 0
    for m in marks:
        segs.append(evs[prev:m])
        prev = m
    if prev < len(evs):
        segs[-1].extend(evs[prev:])
    if segs and segs[0][:1] == [['enter-plain']]:
        # the plain-function middleware runs when the dispatcher CALLS the chain (for a concurrent batch: for every element, before
        # any of them is awaited); what follows starts when the awaitable is awaited - a segment boundary without a Future
        segs = [segs[0][:1], segs[0][1:]] + segs[1:]
    return segs, (None if r is None else json.loads(r[0]))


def run_batch(shape, concurrent, choices):
    gate = Gate()
    disp = build(shape, gate, concurrent)
    text = json.dumps([element_json(k, e) for k, e in enumerate(shape)])
    it = iter(choices) if choices is not None else None

    def chooser(pend):
        if it is None:
            return 0 if len(pend) >= 1 else None
        want = next(it, None)
        if want is None or want not in pend:
            return None
        return pend.index(want)
    r, marks, order, status = loop().run_until_complete(drive(disp, text, gate, chooser))
    return (None if r is None else json.loads(r[0])), list(gate.log), order, status, max_pending_seen(gate)


def max_pending_seen(gate):
    return None


METHODS = ['ok', 'fail', 'boom', 'plain', 'nosuch', 'vok', 'vfail', 'whoami', 'ping']


def shapes(tier, rnd):
    out = []
    base = [
        [('ok', 2, 'method', False), ('ok', 1, 'method', False)],
        [('ok', 2, 'method', False), ('fail', 1, 'method', False), ('plain', 0, 'method', False)],
        [('ok', 1, 'method', True), ('ok', 2, 'method', False), ('boom', 1, 'method', False)],
        [('ok', 2, 'mw_pre', False), ('ok', 1, 'mw_post', False), ('fail', 1, 'method', False)],
        [('fail', 2, 'eh', False), ('nosuch', 1, 'eh', False), ('ok', 1, 'method', False)],
        [('ok', 1, 'method', True), ('fail', 1, 'method', True), ('ok', 1, 'method', True)],
        [('ok', 2, 'method', False), ('ok', 2, 'method', False), ('ok', 2, 'method', False)],
        [('nosuch', 0, 'method', False), ('ok', 2, 'mw_post', True), ('boom', 2, 'eh', False)],
        [('ok', 1, 'method', False)],
        [('plain', 0, 'method', False), ('plain', 0, 'method', True)],
        [('ok', 2, 'method', False), ('ok', 0, 'method', False), ('ok', 1, 'method', False)],
        [('vok', 1, 'method', False), ('vok', 0, 'method', False)],
        [('vok', 2, 'method', False), ('vfail', 1, 'method', False), ('vok', 1, 'method', True)],
        # two and more elements failing with the SAME code under generic + per-code handlers (each element goes through all of them)
        [('fail', 1, 'eh', False), ('fail', 1, 'eh', False)],
        [('fail', 0, 'eh', True), ('fail', 1, 'eh', False), ('ok', 1, 'method', False)],
        [('boom', 1, 'eh', False), ('ok', 0, 'method', False), ('boom', 0, 'eh', False), ('boom', 1, 'eh', True)],
        [('fail', 1, 'method', False), ('vfail', 1, 'eh', False), ('fail', 0, 'eh', False)],
        [('whoami', 1, 'method', False), ('ping', 1, 'method', False)],
        [('ping', 1, 'method', False), ('whoami', 0, 'method', False), ('ok', 1, 'method', False)],
        [('whoami', 0, 'method', True), ('ok', 1, 'mw_pre', False), ('ping', 0, 'method', True)],
    ]
    out += base
    # batches made of notifications only (nothing is answered - the mode still decides whether they overlap), suspending
    for ms in (('ok', 'ok'), ('ok', 'fail'), ('vok', 'ok'), ('ok', 'plain', 'ok'), ('fail', 'ok', 'boom'), ('ok', 'ok', 'ok'), ('nosuch', 'ok', 'vok')):
        for w in ('method', 'mw_pre', 'mw_post', 'eh'):
            sh = []
            for j, m in enumerate(ms):
                susp = 0 if (m in ('plain', 'nosuch') and w == 'method') else (2 if j == 0 else 1)
                sh.append((m, susp, w, True))
            out.append(sh)
    n_rand = 30 if tier == 'quick' else 160
    for _ in range(n_rand):
        n = rnd.choice([2, 3, 3] if tier == 'quick' else [2, 3, 4, 4])
        sh = []
        for _ in range(n):
            m = rnd.choice(METHODS)
            if m in NOPARAMS and any(x[0] == m for x in sh):
                m = 'ok'
            w = rnd.choice(['method', 'method', 'mw_pre', 'mw_post', 'eh'])
            s = rnd.choice([0, 1, 2, 2 if n < 4 else 1])
            if m in ('plain', 'nosuch') and w == 'method':
                s = 0
            sh.append((m, s, w, rnd.random() < 0.25))
        out.append(sh)
    res = [[{'m': m, 'susp': s, 'where': w, 'notif': nf} for m, s, w, nf in sh] for sh in out]
    # every third shape additionally runs under a plain-function middleware
    for i, sh in enumerate(res):
        if i % 3 == 1:
            for e in sh:
                e['plain_mw'] = True
    return res


def actual_susp(shape):
    """How many suspension points each element really goes through (taken from its alone-run)."""
    out = []
    for k in range(len(shape)):
        segs = run_alone(shape, k)[0]
        out.append(len(segs) - 1 - (1 if segs[0] == [['enter-plain']] else 0))
    return out


def interleavings(counts, limit, rnd):
    pool = [k for k, c in enumerate(counts) for _ in range(c)]
    seen = set()
    allp = set(itertools.permutations(pool)) if len(pool) <= 8 else None
    if allp is not None:
        lst = sorted(allp)
        if len(lst) > limit:
            lst = rnd.sample(lst, limit)
        return [list(p) for p in lst]
    out = []
    while len(out) < limit:
        p = pool[:]
        rnd.shuffle(p)
        if tuple(p) not in seen:
            seen.add(tuple(p))
            out.append(p)
    return out


def generate(seed, tier):
    rnd = random.Random(seed)
    cases = []
    for shape in shapes(tier, rnd):
        counts = actual_susp(shape)
        for ch in interleavings(counts, 400 if tier == 'quick' else 2600, rnd):
            cases.append({'shape': shape, 'sequential': False, 'choices': ch})
        cases.append({'shape': shape, 'sequential': True, 'choices': None})
    return cases


_alone_cache = {}


def observe(case):
    shape = case['shape']
    key = json.dumps(shape, sort_keys=True)
    if key not in _alone_cache:
        _alone_cache[key] = [run_alone(shape, k) for k in range(len(shape))]
    alone = _alone_cache[key]
    doc, trace, order, status, _ = run_batch(shape, not case['sequential'], case['choices'])
    return {'alone': alone, 'doc': doc, 'trace': trace, 'order': order, 'status': status}


def encode(case, obs):
    elems = clist('(%s, %s)' % (clist(clist(cjson(e) for e in seg) for seg in segs), copt(resp, cjson)) for segs, resp in obs['alone'])
    trace = clist('(%d%%nat, %s)' % (k, cjson(e)) for k, e in obs['trace'])
    ch = obs['order'] if case['sequential'] else case['choices']
    if not case['sequential'] and obs['alone'] and obs['alone'][0][0] and obs['alone'][0][0][0] == [['enter-plain']]:
        ch = list(range(len(case['shape']))) + list(ch)       # the awaitables are started in request order
    if obs['status'] != 'done':
        raise ValueError('schedule could not be followed: %s' % obs['status'])
    return ('{| elems := %s; registered := %s; sequential := %s; choices := %s; obs_doc := %s; obs_trace := %s |}'
            % (elems, clist(cbool(e['m'] != 'nosuch') for e in case['shape']), cbool(case['sequential']), clist('%d%%nat' % k for k in ch), copt(obs['doc'], cjson), trace))


def case_key(case):
    return json.dumps(case, sort_keys=True)


def case_from_json(c):
    return c


def distribution(cases, obs):
    d = {}
    for c, o in zip(cases, obs):
        k = 'n=%d mode=%s steps=%d' % (len(c['shape']), 'seq' if c['sequential'] else 'conc', len(o['order']))
        d[k] = d.get(k, 0) + 1
    return d
