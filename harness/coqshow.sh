#!/bin/bash
# usage: coqshow.sh <file.v> <line>   -- shows the goal just before <line> (line must start a sentence)
f="$1"; n="$2"
d=$(mktemp -d /var/tmp/showXXXXXX); t=$d/Show_tmp.v
head -n $((n-1)) "$f" > "$t"
echo "Show. " >> "$t"
cd /verif/coq && timeout 120 coqc -Q theories PJ -w -all "$t" 2>&1 | tail -${3:-40}
rm -rf "$d"
