#!/bin/bash
# runs every registered quick (or $1=thorough) check on the current tree; prints one summary line per property
cd "$(dirname "$0")/.."
tier="${1:-quick}"
rc_all=0
for p in C01 C02 C03 C04 C05 C06 C07 C08 C09 C10 C11 C12 C13 C14 C15 C16 C17 C18 C19 C20; do
  out=$(./check $p --tier $tier 2>&1); rc=$?
  echo "$p exit=$rc $(echo "$out" | grep -v '^KNOWN-FINDING' | tail -1 | cut -c1-170)"
  echo "$out" | grep -E '^(VIOLATION|ERROR)' | cut -c1-200
  [ $rc -ne 0 ] && rc_all=1
done
exit $rc_all
