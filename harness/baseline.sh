#!/bin/bash
# runs the repository's pinned baseline (no hooks exist, so nothing to switch off) and compares with BASELINE.json
REPO="${VERIF_REPO:-/repo}"
OUT="$(mktemp -d /var/tmp/pjrpc-baseline.XXXXXX)"
cd "$REPO" && /venv/bin/python -m pytest -ra -q -p no:cacheprovider --timeout=900 --continue-on-collection-errors --junitxml="$OUT/junit.xml" >"$OUT/log.txt" 2>&1
/venv/bin/python - "$OUT/junit.xml" <<'PY'
import json, sys, xml.etree.ElementTree as ET
base = json.load(open('/root/.vp/BASELINE.json'))
want = set(base['stable_pass'])
t = ET.parse(sys.argv[1]).getroot()
passed = set()
for tc in t.iter('testcase'):
    name = '%s::%s' % (tc.get('classname'), tc.get('name'))
    if not any(c.tag in ('failure', 'error', 'skipped') for c in tc):
        passed.add(name)
missing = sorted(want - passed)
print('baseline: %d of %d stable tests pass; %d pass in total' % (len(want & passed), len(want), len(passed)))
for m in missing:
    print('  NOW FAILING:', m)
sys.exit(1 if missing else 0)
PY
rc=$?
rm -rf "$OUT"
exit $rc
