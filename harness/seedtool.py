#!/usr/bin/env python3
"""Seeded-change bookkeeping (not part of any registered check).

  seedtool.py import Cxx            confirm the sub-agent's mutants in /tmp/mut/Cxx/_mutants/{A,B} in that scratch
                                    worktree (suite unchanged, demo fails with / passes without) and keep them as
                                    /verif/seeded/Cxx-A, Cxx-B
  seedtool.py import2 Cxx           same for the second round: /tmp/mut2/Cxx/_mutants/{C,D} -> seeded/Cxx-C, Cxx-D
  seedtool.py run <seed-id> [Cyy..] apply seeded/<seed-id>/patch.diff to /repo, run the quick checks of the listed
                                    properties (default: the seed's own), undo, record seeded/<seed-id>/result.json
"""
import json
import os
import shutil
import subprocess
import sys
import xml.etree.ElementTree as ET

VERIF = os.path.dirname(os.path.dirname(os.path.abspath(__file__)))
SEEDED = os.path.join(VERIF, 'seeded')


def sh(cmd, cwd=None, env=None, timeout=3600):
    p = subprocess.run(cmd, shell=True, cwd=cwd, env=env, stdout=subprocess.PIPE, stderr=subprocess.STDOUT, text=True,
                       timeout=timeout, errors='replace')
    return p.returncode, p.stdout


def suite(wt):
    env = dict(os.environ, PYTHONPATH=wt, PYTHONHASHSEED='0')
    out = '/var/tmp/seed-junit-%d.xml' % os.getpid()
    sh('/venv/bin/python -m pytest -q -p no:cacheprovider --timeout=900 --continue-on-collection-errors --junitxml=%s' % out, cwd=wt, env=env)
    base = json.load(open('/root/.vp/BASELINE.json'))
    passed = set()
    for tc in ET.parse(out).getroot().iter('testcase'):
        if not any(c.tag in ('failure', 'error', 'skipped') for c in tc):
            passed.add('%s::%s' % (tc.get('classname'), tc.get('name')))
    os.remove(out)
    missing = sorted(set(base['stable_pass']) - passed)
    return len(passed), missing


def demo(wt, path):
    env = dict(os.environ, PYTHONPATH=wt, PYTHONHASHSEED='0')
    rc, out = sh('/venv/bin/python %s' % path, cwd=wt, env=env, timeout=600)
    return rc, out[-1500:]


def do_import(pid, root='/tmp/mut', variants=('A', 'B')):
    wt = '%s/%s' % (root, pid)
    for v in variants:
        src = os.path.join(wt, '_mutants', v)
        if not os.path.exists(os.path.join(src, 'patch.diff')):
            print(pid, v, 'missing')
            continue
        sh('git checkout -- .', cwd=wt)
        rc0, out0 = demo(wt, os.path.join(src, 'demo.py'))
        rca, outa = sh('git apply %s' % os.path.join(src, 'patch.diff'), cwd=wt)
        if rca != 0:
            print(pid, v, 'patch does not apply', outa)
            continue
        rc1, out1 = demo(wt, os.path.join(src, 'demo.py'))
        npass, missing = suite(wt)
        sh('git checkout -- .', cwd=wt)
        ok = rc0 == 0 and rc1 != 0 and not missing
        print('%s-%s: demo clean rc=%d, demo mutated rc=%d, suite passed=%d, baseline tests now failing=%d -> %s'
              % (pid, v, rc0, rc1, npass, len(missing), 'KEEP' if ok else 'REJECT'))
        if not ok:
            continue
        dst = os.path.join(SEEDED, '%s-%s' % (pid, v))
        os.makedirs(dst, exist_ok=True)
        shutil.copy(os.path.join(src, 'patch.diff'), dst)
        shutil.copy(os.path.join(src, 'demo.py'), dst)
        meta = {}
        try:
            meta = json.load(open(os.path.join(src, 'meta.json')))
        except Exception:
            pass
        head = sh('git rev-parse HEAD', cwd=wt)[1].strip()
        meta.update({'property': pid, 'origin': 'independent sub-agent given only the property text',
                     'base_commit': head,
                     'confirmed': {'suite_with_change': '%d passed, every baseline stable_pass test passes' % npass,
                                   'demo_without_change_rc': rc0, 'demo_with_change_rc': rc1,
                                   'demo_with_change_tail': out1[-600:],
                                   'how': 'harness/seedtool.py import %s (scratch worktree %s)' % (pid, wt)}})
        json.dump(meta, open(os.path.join(dst, 'meta.json'), 'w'), indent=1)


def do_run(seed, props):
    # SEED_REPO / SEED_VERIF: run against a scratch worktree of /repo with a scratch copy of /verif (parallel lanes of the
    # seed matrix); the result is recorded under /verif/seeded all the same
    REPO = os.environ.get('SEED_REPO', '/repo')
    VERIF_RUN = os.environ.get('SEED_VERIF', VERIF)
    d = os.path.join(SEEDED, seed)
    meta = json.load(open(os.path.join(d, 'meta.json')))
    props = props or [meta['property']]
    rc, out = sh('git -C %s status --porcelain' % REPO)
    if out.strip():
        print('refusing: %s is not clean:\n' % REPO + out)
        return 2
    rc, out = sh('git -C %s apply %s' % (REPO, os.path.join(d, 'patch.diff')))
    if rc != 0:
        print('patch does not apply:', out)
        return 2
    res = {}
    try:
        for p in props:
            rc, out = sh('./check %s --tier quick' % p, cwd=VERIF_RUN, env=dict(os.environ, VERIF_SEED=os.environ.get('VERIF_SEED', '0'), VERIF_REPO=REPO,
                                                                                VERIF_EVIDENCE_DIR='/var/tmp/verif-seed-evidence' + ('-' + os.path.basename(VERIF_RUN) if VERIF_RUN != VERIF else '')))
            lines = [l for l in out.splitlines() if l.startswith(('VIOLATION', 'KNOWN-FINDING', 'ERROR', p))]
            res[p] = {'exit': rc, 'lines': lines[-6:]}
            rep = None
            for l in lines:
                if l.startswith('VIOLATION') and 'replay=' in l:
                    rp = l.split('replay=')[1].split()[0]
                    try:
                        rj = json.load(open(rp))
                        rep = {'kind': rj.get('kind'), 'case': rj.get('case'), 'what': rj.get('what')}
                    except Exception:
                        pass
            if rep:
                res[p]['replay'] = rep
            print(seed, p, 'exit', rc, '|'.join(lines[-3:])[:400])
    finally:
        sh('git -C %s checkout -- .' % REPO)
    old = {}
    rp = os.path.join(os.environ['SEED_RESULT_DIR'], seed + '.json') if os.environ.get('SEED_RESULT_DIR') else os.path.join(d, 'result.json')
    if os.path.exists(rp):
        old = json.load(open(rp))
    old.update(res)
    json.dump(old, open(rp, 'w'), indent=1, default=repr)
    return 0


if __name__ == '__main__':
    if sys.argv[1] == 'import':
        for pid in sys.argv[2:]:
            do_import(pid)
    elif sys.argv[1] == 'import2':
        for pid in sys.argv[2:]:
            do_import(pid, '/tmp/mut2', ('C', 'D'))
    elif sys.argv[1] == 'import3':
        for pid in sys.argv[2:]:
            do_import(pid, '/tmp/mut3', ('E', 'F'))
    elif sys.argv[1] == 'import4':
        for pid in sys.argv[2:]:
            do_import(pid, '/tmp/mut4', ('G', 'H'))
    elif sys.argv[1] == 'import5':
        for pid in sys.argv[2:]:
            do_import(pid, '/tmp/mut5', ('I', 'J'))
    elif sys.argv[1] == 'import6':
        for pid in sys.argv[2:]:
            do_import(pid, '/tmp/mut6', ('K', 'L'))
    elif sys.argv[1] == 'import7':
        for pid in sys.argv[2:]:
            do_import(pid, '/tmp/mut7', ('M', 'N'))
    elif sys.argv[1] == 'import8':
        for pid in sys.argv[2:]:
            do_import(pid, '/tmp/mut8', ('O', 'P'))
    elif sys.argv[1] == 'run':
        sys.exit(do_run(sys.argv[2], sys.argv[3:]))
