import json, inspect
import pjrpc
from pjrpc.server import Dispatcher, Method, ViewMixin, MethodRegistry
log=[]
def mkd(*fs, **kw):
    d = Dispatcher()
    for f in fs: d.add(f, **kw)
    return d
def call(d, m, params, ctx=None):
    req = {"jsonrpc":"2.0","method":m,"id":1}
    if params is not None: req["params"]=params
    r = d.dispatch(json.dumps(req), context=ctx)
    return json.loads(r[0]) if r else None
def f1(a, **kw): return ['f1', a, kw]
def f2(*args): return ['f2', list(args)]
def f3(a, /, b): return ['f3', a, b]
def f4(a, b=2, *, c, d=4): return ['f4', a,b,c,d]
def f5(a, *args, k=0, **kw): return ['f5', a, list(args), k, kw]
d = mkd(f1,f2,f3,f4,f5)
for m,p in [('f1',{"a":1,"b":2}),('f1',[1]),('f2',[1,2]),('f2',[]),('f3',[1,2]),('f3',{"a":1,"b":2}),('f4',[1]),('f4',{"a":1,"c":3}),('f4',[1,2,3]),('f5',[1,2,3]),('f5',{"a":1,"z":2}),('f5',[1])]:
    print(m,p,'->',call(d,m,p))
# context
def g1(ctx, a): return ['g1', str(ctx), a]
def g2(a, ctx): return ['g2', a, str(ctx)]
def g3(a, ctx, **kw): return ['g3', a, str(ctx), kw]
d = Dispatcher(); d.add(g1, context='ctx'); d.add(g2, context='ctx'); d.add(g3, context='ctx')
d.add(g1, name='g1p', context='ctx', positional=True)
for m,p in [('g1',[1]),('g1',{"a":1}),('g1',{"a":1,"ctx":"EVIL"}),('g1',["EVIL",1]),('g2',[1]),('g2',[1,"EVIL"]),('g3',{"a":1,"ctx":"EVIL"}),('g1p',[1]),('g1p',{"a":1}),('g1p',{"a":1,"ctx":"EVIL"})]:
    print(m,p,'->',call(d,m,p,ctx='CTX'))
# view
class V(ViewMixin):
    def __init__(self, context=None): self.c = context
    def pub(self, a): return ['pub', str(self.c), a]
    def _priv(self): return 'priv'
    x = 5
    @staticmethod
    def st(a): return ['st', a]
reg = MethodRegistry(prefix='p'); reg.view(V, context='c', prefix='v')
d = Dispatcher(); d.add_methods(reg)
print(sorted(d.registry.keys()))
for m,p in [('p.v.pub',[1]),('p.v._priv',[]),('p.v.x',[]),('p.v.st',[1]), ('p.v.__init__', [])]:
    print(m,p,'->',call(d,m,p,ctx='CTX'))
from pjrpc.server.validators import base
print(base.BaseValidator._signature.cache_info())
for i in range(5): call(d,'p.v.pub',[1],ctx=object())
print(base.BaseValidator._signature.cache_info())
