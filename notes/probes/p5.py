import json, asyncio, time
import pjrpc
from pjrpc.client import AbstractClient, AbstractAsyncClient, retry, tracer
from unittest import mock
def t(f, *a, **k):
    try: return ('ok', f(*a, **k))
    except BaseException as e: return (type(e).__name__, str(e)[:90])
class Tr(tracer.Tracer):
    def __init__(s, name, log): s.n=name; s.log=log
    def on_request_begin(s, ctx, req): s.log.append((s.n,'begin',id(ctx)%1000))
    def on_request_end(s, ctx, req, resp): s.log.append((s.n,'end',id(ctx)%1000, None if resp is None else 'resp'))
    def on_error(s, ctx, req, err): s.log.append((s.n,'error',id(ctx)%1000, type(err).__name__))
class Loop(AbstractClient):
    def __init__(self, script, **kw):
        super().__init__(**kw); self.wire=[]; self.script=list(script)
    def _request(self, text, is_notification=False, **kw):
        self.wire.append(text)
        x = self.script.pop(0)
        if isinstance(x, BaseException): raise x
        return x
OK = json.dumps({'jsonrpc':'2.0','id':1,'result':'v'})
E = lambda c: json.dumps({'jsonrpc':'2.0','id':1,'error':{'code':c,'message':'m'}})
class MyTimeout(TimeoutError): pass
def run(script, strat, kind='call', **kw):
    log=[]; sleeps=[]
    c = Loop(script, retry_strategy=strat, tracers=[Tr('A',log),Tr('B',log)])
    with mock.patch('time.sleep', lambda d: sleeps.append(d)):
        if kind=='call': r = t(c.call,'m')
        elif kind=='notify': r = t(c.notify,'m')
        elif kind=='batch': r = t(lambda: c.batch.add('m').call())
        elif kind=='send': r = t(lambda: c.send(pjrpc.Request('m',id=1), **kw))
    return r, len(c.wire), sleeps, [(x[0],x[1])+tuple(x[3:]) for x in log], len(set(x[2] for x in log))
S = retry.RetryStrategy(backoff=retry.ExponentialBackoff(attempts=3, base=1, factor=2, max_value=3, jitter=lambda: 0.5), codes={2000}, exceptions={TimeoutError})
print(run([E(2000),E(2000),OK], S))
print(run([E(2000)]*5, S))
print(run([TimeoutError('x'),MyTimeout('y'),E(2000),OK], S))
print(run([TimeoutError('x')]*5, S))
print(run([E(2001),OK], S))
print(run([ConnectionError('c'),OK], S))
print('notify', run([None], S, 'notify'))
print('notify', run([None,None,None,None,None], retry.RetryStrategy(backoff=retry.PeriodicBackoff(attempts=2, interval=1), exceptions={Exception}), 'notify'))
print('batch', run([json.dumps({'jsonrpc':'2.0','id':None,'error':{'code':2000,'message':'m'}}), json.dumps([{'jsonrpc':'2.0','id':1,'result':'v'}])], S, 'batch'))
print('batch-inner', run([json.dumps([{'jsonrpc':'2.0','id':1,'error':{'code':2000,'message':'m'}}]), json.dumps([{'jsonrpc':'2.0','id':1,'result':'v'}])], S, 'batch'))
print('per-req', run([E(2000),OK], None, 'send', _retry_strategy=S))
print('disabled', run([E(2000),OK], S, 'send', _retry_strategy=None))
print('fib', list(retry.FibonacciBackoff(attempts=7, multiplier=1, max_value=None)()), list(retry.FibonacciBackoff(attempts=4)()), list(retry.ExponentialBackoff(attempts=4)()), list(retry.PeriodicBackoff(attempts=3, interval=0.25, jitter=lambda: 0.5)()))
print('undecodable', run(['not json'], S))
print('identity', run([json.dumps({'jsonrpc':'2.0','id':2,'result':'v'})], S))
print('base', run([KeyboardInterrupt()], S))
print('zero', run([E(2000),OK], retry.RetryStrategy(backoff=retry.PeriodicBackoff(attempts=0), codes={2000})))
