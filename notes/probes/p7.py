import json, asyncio
import pjrpc
from pjrpc.server.integration import flask as fl, werkzeug as wz, aiohttp as ah
import flask, werkzeug
from werkzeug.test import Client
from aiohttp import web
from aiohttp.test_utils import TestClient, TestServer
def ping(): return 'pong'
body = json.dumps({'jsonrpc':'2.0','method':'ping','id':1})
cts = ['application/json','application/json-rpc','application/jsonrequest','application/json; charset=utf-8','application/json-rpc;charset=UTF-8','Application/JSON','application/jsonx','application/foo+json','text/plain',None,'', 'application/json;']
bodies = [body.encode(), b'\xff\xfe', json.dumps({'jsonrpc':'2.0','method':'ping'}).encode(), b'[]', b'{']
def sbe(codes): return 200 if all(c==0 for c in codes) else 418
# flask
app = flask.Flask('x'); j = fl.JsonRPC('/api', status_by_error=sbe); j.dispatcher.add(ping); j.init_app(app)
fc = app.test_client()
# werkzeug
w = wz.JsonRPC('/api'); w.dispatcher.add(ping)
wc = Client(w)
def tw(ct, b):
    try:
        r = wc.post('/api', data=b, content_type=ct) if ct is not None else wc.post('/api', data=b)
        return (r.status_code, r.headers.get('Content-Type'), r.get_data()[:60])
    except BaseException as e: return ('RAISED', type(e).__name__)
def tf(ct, b):
    r = fc.post('/api', data=b, content_type=ct) if ct is not None else fc.post('/api', data=b)
    return (r.status_code, r.headers.get('Content-Type'), r.get_data()[:60])
async def aio():
    a = ah.Application('/api', status_by_error=sbe); a.dispatcher.add(ping)
    out={}
    async with TestClient(TestServer(a.app)) as c:
        for ct in cts:
            for b in bodies:
                h = {'Content-Type': ct} if ct is not None else {}
                r = await c.post('/api', data=b, headers=h, skip_auto_headers=['Content-Type'])
                out[(ct,b)] = (r.status, r.headers.get('Content-Type'), (await r.read())[:60])
    return out
ao = asyncio.run(aio())
for ct in cts:
    for b in bodies[:2] if ct not in ('application/json',) else bodies:
        print(repr(ct), b[:20], '\n   flask', tf(ct,b), '\n   wz   ', tw(ct,b), '\n   aio  ', ao[(ct,b)])
