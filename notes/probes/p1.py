import json, asyncio, sys
import pjrpc
from pjrpc.server import Dispatcher, AsyncDispatcher
def mk(cls, **kw):
    d = cls(**kw)
    def echo(*a, **k): return [list(a), k]
    def one(a): return a
    def boom(): raise ValueError("SECRET")
    def perr(): raise pjrpc.exc.JsonRpcError(code=5, message="m", data=None)
    def tye(a): raise TypeError("inner")
    d.add(one); d.add(boom); d.add(perr); d.add(tye)
    return d
def run(d, text):
    try:
        r = d.dispatch(text)
        if asyncio.iscoroutine(r): r = asyncio.run(r)
        return r
    except BaseException as e:
        return ('RAISED', type(e).__name__, str(e)[:80])
texts = [
 '', '{}', '[]', '1', 'null', '"x"', '[1]', '[[]]', 'nope',
 '1'+'0'*5000,
 '{"jsonrpc":"2.0","method":"one","params":[' + '1'+'0'*5000 + '],"id":1}',
 '[{"jsonrpc":"2.0","method":"one","params":[1]}]',
 '[{"jsonrpc":"2.0","method":"one","params":[1]},{"jsonrpc":"2.0","method":"nope"}]',
 '{"jsonrpc":"2.0","method":"one","params":[1],"id":true}',
 '{"jsonrpc":"2.0","method":"one","params":[1],"id":1.5}',
 '{"jsonrpc":"2.0","method":"one","params":[1],"id":0}',
 '{"jsonrpc":"2.0","method":"one","params":[1],"id":""}',
 '{"jsonrpc":"2.0","method":"one","params":[NaN],"id":1}',
 '{"jsonrpc":"2.0","method":"one","params":[Infinity],"id":1}',
 '{"jsonrpc":"2.0","method":"one","params":["\\ud800"],"id":1}',
 '{"jsonrpc":"2.0","method":"boom","id":1}',
 '{"jsonrpc":"2.0","method":"perr","id":1}',
 '{"jsonrpc":"2.0","method":"tye","params":[1],"id":1}',
 '{"jsonrpc":"2.0","method":"one","params":{"a":1,"b":2},"id":1}',
 '{"jsonrpc":"2.0","method":"one","params":null,"id":1}',
 '{"jsonrpc":"2.0","method":"one","params":[1],"id":null}',
 '{"jsonrpc":"2.0","method":"one","params":[1],"id":1,"extra":1}',
 '{"jsonrpc":2.0,"method":"one","params":[1],"id":1}',
 '[{"jsonrpc":"2.0","method":"one","params":[1],"id":1},{"jsonrpc":"2.0","method":"one","params":[1],"id":1}]',
 '[{"jsonrpc":"2.0","method":"one","params":[1],"id":1},{"jsonrpc":"2.0","method":"one","params":[1],"id":true}]',
 '[{"jsonrpc":"2.0","method":"one","params":[1],"id":1},{"jsonrpc":"2.0","method":"one","params":[1],"id":"1"}]',
 '[{"jsonrpc":"2.0","method":"one","params":[1],"id":1}, 5]',
 '﻿{}', ' \n{"jsonrpc":"2.0","method":"one","params":[1],"id":1} ',
 '{"jsonrpc":"2.0","method":"one","params":[1],"id":1} x',
 '{"jsonrpc":"2.0","jsonrpc":"1.0","method":"one","params":[1],"id":1}',
 '['*70 + ']'*70,
]
for cls in (Dispatcher, AsyncDispatcher):
    for mbs in (None, 0, 1):
        d = mk(cls, max_batch_size=mbs)
        for t in texts:
            r = run(d, t)
            if cls is Dispatcher and mbs is None or (isinstance(r, tuple) and r and r[0]=='RAISED'):
                print(cls.__name__, mbs, repr(t[:70]), '->', (r if not isinstance(r, tuple) or r[0]=='RAISED' else (r[0][:150], r[1])))
