import json, asyncio
import pjrpc
from pjrpc.client import AbstractClient, AbstractAsyncClient, retry
from pjrpc.common import generators
from pjrpc.server import Dispatcher
def t(f, *a, **k):
    try: return ('ok', f(*a, **k))
    except BaseException as e: return (type(e).__name__, str(e)[:90])
d = Dispatcher()
calls=[]
def add(a, b): calls.append(('add',a,b)); return a+b
def ping(): calls.append(('ping',)); return 'pong'
def fail(): raise pjrpc.exc.MethodNotFoundError(data='x')
def fail2(): raise pjrpc.exc.JsonRpcError(code=77, message='seventyseven', data={'k':[1]})
def boom(): raise KeyError('s3cr3t')
for f in (add,ping,fail,fail2,boom): d.add(f)
class Loop(AbstractClient):
    def __init__(self, script=None, **kw):
        super().__init__(**kw); self.wire=[]; self.script=script
    def _request(self, text, is_notification=False, **kw):
        self.wire.append((text, is_notification))
        if self.script is not None:
            x = self.script.pop(0)
            if isinstance(x, BaseException): raise x
            return x
        r = d.dispatch(text)
        return r[0] if r else None
c = Loop()
print(t(c.call,'add',1,2), t(c.proxy.add,1,2), t(c.proxy.add,a=1,b=2), t(c,'add',1,2), t(c.notify,'add',1,2), t(lambda: c.send(pjrpc.Request('add',[1,2],id='x')).result))
print(c.wire)
print(t(c.call,'fail'), t(c.call,'fail2'), t(c.call,'boom'), t(c.call,'nosuch'))
try: c.call('fail2')
except Exception as e: print(type(e).__mro__[0:3], e.code, e.message, e.data)
c.wire.clear()
print(t(lambda: c.batch.add('add',1,2).add('ping').call()))
print(t(lambda: c.batch('add',1,2)('ping').call()))
print(t(lambda: c.batch[('add',1,2),('ping',)]))
print(t(lambda: c.batch.proxy.add(1,2).ping().call()))
print(t(lambda: c.batch.notify('add',1,2).notify('ping').call()))
print(t(lambda: c.batch.add('add',1,2).notify('ping').add('fail2').call()))
print(t(lambda: c.batch.add('add',1,2).add('fail2').send(c.batch._requests)))
print(c.wire)
c2 = Loop(id_gen_impl=generators.uuid)
print(t(c2.call,'ping'))
c3 = Loop(id_gen_impl=lambda: generators.randint(1,1))
print(t(c3.call,'ping'), t(lambda: c3.batch.add('ping').add('ping').call()))
c4 = Loop(id_gen_impl=generators.random)
print(t(c4.call,'ping'), c4.wire)
# C08 relate
def scripted(resp, strict=True):
    c = Loop(script=[json.dumps(resp)], strict=strict)
    return c
R = lambda id, v: {'jsonrpc':'2.0','id':id,'result':v}
for strict in (True, False):
    print('strict', strict)
    for rid in (1, 2, None, "1", True, 1.0):
        c = scripted(R(rid,'v'), strict); print('  single', repr(rid), t(c.call,'ping'))
    for resp in ([R(1,'a'),R(2,'b')], [R(2,'b'),R(1,'a')], [R(1,'a')], [R(1,'a'),R(2,'b'),R(3,'c')], [R(1,'a'),R(1,'b')], [R("1",'a'),R(2,'b')], [R(True,'a'),R(2,'b')], [R(None,'a'),R(2,'b'),R(1,'c')], {'jsonrpc':'2.0','id':None,'error':{'code':-32600,'message':'bad'}}, [], 5, {}):
        c = scripted(resp, strict); print('  batch', json.dumps(resp)[:80], t(lambda: c.batch.add('x').add('y').call()))
