import json
import pjrpc
from pjrpc.client.backend import requests as rq
from pjrpc.client.integrations.pytest import PjRpcRequestsMocker
def t(f, *a, **k):
    try: return ('ok', f(*a, **k))
    except BaseException as e: return (type(e).__name__, str(e)[:90])
c = rq.Client('http://e1/api'); c2 = rq.Client('http://e2/api')
with PjRpcRequestsMocker() as m:
    m.add('http://e1/api','a', result=1); m.add('http://e1/api','a', result=2, once=True); m.add('http://e1/api','a', error=pjrpc.exc.JsonRpcError(code=5,message='five'))
    print([t(c.call,'a') for _ in range(6)])
    print(t(c.call,'b'), t(c2.call,'a'))
    print(t(lambda: c.send(pjrpc.Request('a',id=0))), t(lambda: c.send(pjrpc.Request('a',id=''))), t(lambda: c.send(pjrpc.Request('a',[1,2],id='x')).id))
    print(t(c.notify,'a'))
    print(t(lambda: c.batch.add('a',1).notify('a',2).add('b').call()))
    print(m.calls['http://e1/api'][('2.0','a')].call_args_list[-4:])
    print(t(m.remove,'http://e2/api','zz'), dict(m._matches).keys(), t(c2.call,'a'))
    m.replace('http://e1/api','a', result='R', idx=0); print([t(c.call,'a') for _ in range(3)])
    m.add('http://e1/api','cb', callback=lambda *a, **k: [list(a), k]); print(t(c.call,'cb',1,2), t(c.proxy.cb,x=1))
    m.add('http://e3/api','o', result=1, once=True); c3 = rq.Client('http://e3/api'); print(t(c3.call,'o'), t(c3.call,'o'), dict(m._matches).keys())
    print(t(m.remove,'http://e1/api','a'), t(c.call,'a'), t(m.remove,'http://e1/api'), t(c.call,'a'))
