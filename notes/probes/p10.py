import asyncio, json, itertools, logging
logging.disable(logging.CRITICAL)
import pjrpc
from pjrpc.server import AsyncDispatcher
def run_schedule(n_elems, susp, schedule, concurrent=True):
    """schedule: list of element indices, each occurrence resumes that element once"""
    log=[]; waiting={}
    async def main():
        loop = asyncio.get_running_loop()
        d = AsyncDispatcher(concurrent_batch=concurrent)
        async def point(i, k):
            f = loop.create_future(); waiting[i]=f; log.append(('susp',i,k)); await f; log.append(('res',i,k))
        async def m(i):
            log.append(('start',i))
            for k in range(susp): await point(i,k)
            log.append(('end',i)); return i*10
        d.add(m)
        text = json.dumps([{"jsonrpc":"2.0","method":"m","params":[i],"id":i} for i in range(n_elems)])
        task = asyncio.ensure_future(d.dispatch(text))
        async def settle():
            for _ in range(20): await asyncio.sleep(0)
        await settle()
        for i in schedule:
            if i not in waiting: return ('blocked', i, list(log))
            waiting.pop(i).set_result(None); await settle()
        if not task.done(): return ('notdone', list(log))
        return task.result()
    return asyncio.run(main()), log
def scheds(n, s):
    base = [i for i in range(n) for _ in range(s)]
    return sorted(set(itertools.permutations(base)))
S = scheds(3,2); print(len(S))
outs=set()
for sc in S:
    r, log = run_schedule(3,2,sc); outs.add(r[0] if isinstance(r, tuple) and isinstance(r[0], str) else str(r))
print(outs)
r, log = run_schedule(2,1,(1,0)); print(r, log)
r, log = run_schedule(2,1,(0,1), concurrent=False); print(r, log)
