import json, copy
import pjrpc
from pjrpc.server import Method, Dispatcher
from pjrpc.server.specs import openapi, openrpc, JSONEncoder
from pjrpc.server.specs.extractors.pydantic import PydanticSchemaExtractor
from pjrpc.server.specs.extractors.docstring import DocstringSchemaExtractor
import pydantic as pd
class M(pd.BaseModel):
    x: int
class E1(pjrpc.exc.JsonRpcError): code=2001; message='e1'
class E2(pjrpc.exc.JsonRpcError): code=2002; message='e2'
shared=[E1]
@openapi.annotate(errors=shared, component_name_prefix='Pfx', tags=['t1'])
def m1(a: int, b: M = None) -> M:
    """m1 doc.

    :raises E2: something
    """
@openapi.annotate(errors=shared)
def m2(ctx, c: str, *, d: int = 1, **kw) -> None:
    """m2"""
def t(f, *a, **k):
    try: return ('ok', f(*a, **k))
    except BaseException as e: return (type(e).__name__, str(e)[:90])
spec = openapi.OpenAPI(info=openapi.Info(version='1', title='t'), schema_extractors=[PydanticSchemaExtractor(), DocstringSchemaExtractor()])
ms = {'': [Method(m1), Method(m2, context='ctx')]}
d1 = spec.schema('/api', ms)
print(shared)
d2 = spec.schema('/api', ms)
print(shared, d1==d2)
print(list(d1['paths']), list(d1['components']['schemas']))
print(json.dumps(d1['paths']['/api#m2']['post']['requestBody']['content']['application/json']['schema'])[:300])
print(json.dumps(d1['components']['schemas'].get('PfxM2Parameters') or d1['components']['schemas'].get('M2Parameters')))
print([k for k in d1['paths']['/api#m2']['post']['responses']], d1['paths']['/api#m2']['post']['responses']['200']['description'])
rpc = openrpc.OpenRPC(info=openrpc.Info(version='1', title='t'))
print(t(rpc.schema, '/', {'': [Method(m1)]}))
rpc = openrpc.OpenRPC(info=openrpc.Info(version='1', title='t'), schema_extractor=PydanticSchemaExtractor())
r = t(rpc.schema, '/', ms)
print(json.dumps(r[1], cls=JSONEncoder)[:1500] if r[0]=='ok' else r)
