import json, itertools
import pjrpc
from pjrpc.common import UNSET
from pjrpc import Request, Response, BatchRequest, BatchResponse
from pjrpc.common.exceptions import JsonRpcError, DeserializationError, IdentityError
def t(f, *a, **k):
    try: return ('ok', f(*a, **k))
    except BaseException as e: return (type(e).__name__, str(e)[:60])
A = object()
vals = [A, None, True, False, 0, 1, -1, 1.0, 1.5, '', 'x', '2.0', [], [1], {}, {'a':1}]
# Response product
bad = {}
n=0
for jr, id_, res, err in itertools.product([A,'2.0','1.0',2.0,None], vals, [A,None,0,'',[],False,1,'x'], [A,None,0,{}, {'code':1,'message':'m'},{'code':0,'message':'m'},{'code':1,'message':''},{'code':True,'message':'m'},{'code':1.0,'message':'m'},{'code':1,'message':'m','data':None},{'code':-32700,'message':'x'}]):
    d = {}
    for k,v in (('jsonrpc',jr),('id',id_),('result',res),('error',err)):
        if v is not A: d[k]=v
    r = t(Response.from_json, d); n+=1
    if r[0] not in ('ok','DeserializationError'):
        bad.setdefault(r[0], []).append(d)
print(n, {k:(len(v), v[:4]) for k,v in bad.items()})
print(t(Response.from_json, {'jsonrpc':'2.0','id':1,'result':5,'error':{'code':1,'message':'m'}}))
print(t(Response.from_json, {'jsonrpc':'2.0','id':1,'result':None,'error':{'code':1,'message':'m'}}))
print(t(Response.from_json, {'jsonrpc':'2.0','id':True,'result':None}))
print(t(Response.from_json, {'jsonrpc':'2.0','id':1,'error':{'code':True,'message':'m'}}))
print(t(JsonRpcError.from_json, {'code':0,'message':'m'}), t(JsonRpcError.from_json, {'code':5,'message':''}))
print(t(JsonRpcError.from_json, {'code':-32700,'message':''}), t(lambda: JsonRpcError.from_json({'code':-32700,'message':''}).to_json()))
print(t(lambda: JsonRpcError.from_json({'code':-32700,'message':'custom','data':None}).to_json()), type(JsonRpcError.from_json({'code':-32700,'message':'custom'})).__name__)
# Request
for d in [{'jsonrpc':'2.0','method':'m','id':True}, {'jsonrpc':'2.0','method':'m','params':()}, {'jsonrpc':'2.0','method':'','id':1}, {'jsonrpc':'2.0','method':'m','params':{}}, {'jsonrpc':'2.0','method':'m','params':[]}]:
    r = t(Request.from_json, d); print(d, r, r[1].to_json() if r[0]=='ok' else '')
print(Request('m', None).to_json(), Request('m', {}).to_json(), Request('m', (), 0).to_json(), Request('m', [0], '').to_json())
print(Request.from_json(Request('m', {}, 1).to_json()).params)
# batch
b = BatchRequest(Request('a', id=1))
print(t(b.append, Request('b', id=1)), len(b), b._ids)
print(t(b.extend, [Request('b', id=2), Request('c', id=2)]), len(b), b._ids)
print(t(b.extend, [Request('b', id=3), Request('c', id=True)]), len(b), b._ids)
gen = (Request('z', id=i) for i in (7,8))
print(t(b.extend, gen), len(b), b._ids)
print(t(BatchRequest.from_json, []), t(BatchResponse.from_json, []), t(BatchResponse.from_json, {'jsonrpc':'2.0','id':None,'error':{'code':1,'message':'m'}}))
print(t(BatchResponse.from_json, {'jsonrpc':'2.0','id':1,'error':{'code':1,'message':'m'}}))
print(t(BatchResponse.from_json, {'jsonrpc':'2.0','id':None,'error':{'code':0,'message':'m'}}))
print(t(BatchResponse.from_json, 5), t(BatchResponse.from_json, {}), t(BatchResponse.from_json, [5]))
print(t(lambda: json.dumps(BatchResponse(error=pjrpc.exc.ServerError()), cls=pjrpc.JSONEncoder)))
