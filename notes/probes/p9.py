import json, logging
logging.disable(logging.CRITICAL)
import pjrpc
from pjrpc.server import Dispatcher
from pjrpc.server.validators import jsonschema as js, pydantic as pv
d = Dispatcher()
v = js.JsonSchemaValidator()
ran=[]
@v.validate(schema={'type':'object','properties':{'a':{'type':'integer','minimum':0},'b':{'type':'string','enum':['x','y']}},'required':['a'],'additionalProperties':False})
def f(a, b='x'): ran.append((a,b)); return [a,b]
d.add(f)
p = pv.PydanticValidator()
@p.validate
def g(a: int, b: str = 'x'): ran.append((a,b)); return [a,b]
d.add(g)
def call(m, params):
    r = d.dispatch(json.dumps({"jsonrpc":"2.0","method":m,"id":1,"params":params}))
    return json.loads(r[0])
for m,pr in [('f',[1]),('f',[-1]),('f',{"a":1,"b":"z"}),('f',[1,'y']),('f',["1"]),('f',[True]),('f',[1.0]),('f',{"a":1,"c":2}),('g',[1]),('g',["1"]),('g',["zz"])]:
    r = call(m,pr); print(m, pr, '->', json.dumps(r)[:230])
print(ran)
