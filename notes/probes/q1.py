import itertools, json, logging
from fractions import Fraction as F
logging.disable(logging.CRITICAL)
# (b) exactness of float arithmetic on the dyadic domain
vals = [F(n, d) for n in range(0, 16) for d in (1, 2, 4)]
bad = 0; tot = 0
for base in vals:
    for factor in vals:
        for n in range(0, 7):
            for j in (F(0), F(1,4), F(3,2)):
                exact = base * factor**n + j
                fl = float(base) * (float(factor) ** n) + float(j)
                tot += 1
                if F(fl) != exact: bad += 1
print('float exactness: bad', bad, 'of', tot)
# also int params (Python ints stay exact) and max cap
# (c) signature space
kinds = ['PO','PK','VP','KO','VK']
order = {'PO':0,'PK':1,'VP':2,'KO':3,'VK':4}
def wf(sig):
    ks=[k for k,_ in sig]
    if any(order[a]>order[b] for a,b in zip(ks,ks[1:])): return False
    if ks.count('VP')>1 or ks.count('VK')>1: return False
    # defaults: among PO/PK, no non-default after default; VP/VK no default
    seen=False
    for k,d in sig:
        if k in ('VP','VK') and d: return False
        if k in ('PO','PK'):
            if d: seen=True
            elif seen: return False
    return True
counts={}
for n in range(0,5):
    c=0
    for ks in itertools.product(kinds, repeat=n):
        for ds in itertools.product([False,True], repeat=n):
            if wf(list(zip(ks,ds))): c+=1
    counts[n]=c
print('wf signatures by arity', counts)
# inputs per signature: positional lists len 0..5 (6) + mappings over subsets of names+unknown+ctx (2^(n+2))
tot=sum(counts[n]*(6+2**(n+2)) for n in counts); print('cases w/o ctx modes', tot)
# (g) middleware constant id in batch
import pjrpc
from pjrpc.server import Dispatcher
def mw(request, context, handler): return pjrpc.Response(id=7, result='short')
d = Dispatcher(middlewares=[mw]); d.add(lambda: 1, name='m')
try: print(d.dispatch(json.dumps([{"jsonrpc":"2.0","method":"m","id":1},{"jsonrpc":"2.0","method":"m","id":2}])))
except Exception as e: print('RAISED', type(e).__name__, e)
print(d.dispatch(json.dumps({"jsonrpc":"2.0","method":"m","id":1})))
# error handler returning error with different code; handlers keyed by original code
log=[]
def h(tag):
    def f(req, ctx, err): log.append((tag, err.code)); return pjrpc.exc.JsonRpcError(code=err.code+1, message='x')
    return f
d = Dispatcher(error_handlers={None:[h('g1'),h('g2')], -32601:[h('c1')], -32600:[h('never')], -32599:[h('wrongkey')]})
print(d.dispatch(json.dumps({"jsonrpc":"2.0","method":"nope","id":1})), log)
