From Coq Require Import ZArith List String Bool.
From Proto Require Import Bind.
Import ListNotations.
Fixpoint aval_eqb (a b : aval) {struct a} : bool :=
  match a, b with
  | AI x, AI y => Z.eqb x y
  | ATup x, ATup y => (fix go (x y : list aval) := match x, y with [], [] => true | a::x', b::y' => aval_eqb a b && go x' y' | _,_ => false end) x y
  | AMap x, AMap y => (fix go (x y : list (string*aval)) := match x, y with [], [] => true | (k,a)::x', (k',b)::y' => String.eqb k k' && aval_eqb a b && go x' y' | _,_ => false end) x y
  | _, _ => false end.
Fixpoint list_eqb {A} (f : A -> A -> bool) (x y : list A) := match x, y with [], [] => true | a::x', b::y' => f a b && list_eqb f x' y' | _,_ => false end.
Definition kv_eqb (a b : string*aval) := String.eqb (fst a) (fst b) && aval_eqb (snd a) (snd b).
Definition slot_eqb (a b : slotv) := match a, b with
  | Given x, Given y => aval_eqb x y | Default, Default => true
  | Star x, Star y => list_eqb aval_eqb x y | StarStar x, StarStar y => list_eqb kv_eqb x y | _,_ => false end.
Definition env_eqb (a b : env) := list_eqb (fun x y => String.eqb (fst x) (fst y) && slot_eqb (snd x) (snd y)) a b.
Definition oenv_eqb (a b : option env) := match a, b with Some x, Some y => env_eqb x y | None, None => true | _,_ => false end.
Definition verdict_eqb (a b : verdict) := match a, b with Ran x, Ran y => env_eqb x y | InvalidParams, InvalidParams => true | ServerError, ServerError => true | _,_ => false end.
Definition mismatches (cs : list (sig * (list aval + list (string*aval)) * option env * verdict)) : list nat * list nat :=
  let idx := seq 0 (List.length cs) in
  let z := combine idx cs in
  (map fst (filter (fun '(i, (s,p,d,v)) => negb (oenv_eqb (direct_call s p) d)) z),
   map fst (filter (fun '(i, (s,p,d,v)) => negb (verdict_eqb (pjrpc_call s p) v)) z)).
