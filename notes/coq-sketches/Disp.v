From Coq Require Import ZArith List String Ascii Bool.
From Proto Require Import Json.
Import ListNotations.
Open Scope string_scope. Open Scope Z_scope.

(* ---- requests (faithful to the pinned tree: bool passes isinstance(id, int)) ---- *)
Inductive idv := IInt (z : Z) | IBool (b : bool) | IStr (s : string).
Definition id_json (i : option idv) : json :=
  match i with None => JNull | Some (IInt z) => JInt z | Some (IBool b) => JBool b | Some (IStr s) => JStr s end.
(* Python ==/hash on ids: True == 1, False == 0 *)
Definition id_num (i : idv) : option Z := match i with IInt z => Some z | IBool b => Some (if b then 1 else 0)%Z | IStr _ => None end.
Definition id_eqb (a b : idv) : bool :=
  match id_num a, id_num b with
  | Some x, Some y => Z.eqb x y
  | None, None => match a, b with IStr s, IStr t => String.eqb s t | _, _ => false end
  | _, _ => false end.
Record request := { r_method : string; r_params : json; r_id : option idv }.

Definition req_from_json (j : json) : option request :=       (* None = DeserializationError *)
  match j with
  | JObj kvs =>
    match get "jsonrpc" kvs with
    | Some v => if negb (json_eqb v (JStr "2.0")) then None else
      let oid := match get "id" kvs with
                 | None | Some JNull => Some None
                 | Some (JInt z) => Some (Some (IInt z)) | Some (JBool b) => Some (Some (IBool b))
                 | Some (JStr s) => Some (Some (IStr s)) | Some _ => None end in
      match oid with None => None | Some i =>
        match get "method" kvs with
        | Some (JStr m) =>
            match get "params" kvs with
            | None => Some {| r_method := m; r_params := JArr []; r_id := i |}
            | Some (JArr l) => Some {| r_method := m; r_params := JArr l; r_id := i |}
            | Some (JObj d) => Some {| r_method := m; r_params := JObj d; r_id := i |}
            | Some _ => None end
        | _ => None end end
    | None => None end
  | _ => None end.

Fixpoint mapM {A B} (f : A -> option B) (l : list A) : option (list B) :=
  match l with [] => Some [] | x :: r => match f x, mapM f r with Some y, Some ys => Some (y :: ys) | _, _ => None end end.
Fixpoint dup_ids (seen : list idv) (l : list request) : bool :=
  match l with [] => false
  | r :: q => match r_id r with None => dup_ids seen q
              | Some i => if existsb (id_eqb i) seen then true else dup_ids (i :: seen) q end end.

(* ---- methods: behaviour kinds used by the harness; general theorems quantify over arbitrary impls ---- *)
Inductive outcome := ORet (v : json) | ORpc (code : Z) (msg : string) (data : option json) | OExc.
(* None = params do not bind *)
Definition impl := json -> option outcome.
Definition m_one : impl := fun p => match p with
  | JArr [x] => Some (ORet x)
  | JObj [(k, x)] => if String.eqb k "a" then Some (ORet x) else None
  | _ => None end.
Definition m_noargs (o : outcome) : impl := fun p => match p with JArr [] | JObj [] => Some o | _ => None end.
Definition registry : list (string * impl) :=
  [("one", m_one); ("boom", m_noargs OExc); ("perr", m_noargs (ORpc 5%Z "m" (Some JNull)));
   ("perr2", m_noargs (ORpc (-32001)%Z "x" None)); ("nul", m_noargs (ORet JNull))].
Fixpoint lookup (k : string) (l : list (string * impl)) := match l with [] => None | (k',v)::r => if String.eqb k k' then Some v else lookup k r end.

Inductive event := Call (m : string) (p : json).
Definition TEXT := JStr "<text>".
Definition err_obj (code : Z) (msg : string) (data : option json) : json :=
  JObj ([("code", JInt code); ("message", JStr msg)] ++ match data with Some d => [("data", d)] | None => [] end).
Definition resp_err (i : option idv) code msg data := JObj [("jsonrpc", JStr "2.0"); ("id", id_json i); ("error", err_obj code msg data)].
Definition resp_ok (i : option idv) v := JObj [("jsonrpc", JStr "2.0"); ("id", id_json i); ("result", v)].

(* _handle_request: (response doc or UNSET, error code, events) *)
Definition handle (r : request) : option (json * Z) * list event :=
  let answer (d : json) (c : Z) := match r_id r with None => None | Some _ => Some (d, c) end in
  match lookup (r_method r) registry with
  | None => (answer (resp_err (r_id r) (-32601) "Method not found" (Some TEXT)) (-32601), [])
  | Some f =>
    match f (r_params r) with
    | None => (answer (resp_err (r_id r) (-32602) "Invalid params" (Some (JArr [TEXT]))) (-32602), [])
    | Some o =>
        let ev := [Call (r_method r) (r_params r)] in
        match o with
        | ORet v => (answer (resp_ok (r_id r) v) 0, ev)
        | ORpc c m d => (answer (resp_err (r_id r) c m d) c, ev)
        | OExc => (answer (resp_err (r_id r) (-32000) "Server error" None) (-32000), ev)
        end
    end
  end.

Inductive load_result := LOk (v : json) | LDecodeError | LRaise.
Inductive dres := DNone | DSome (doc : json) (codes : list Z) | DRaised.
Definition invalid_request := DSome (resp_err None (-32600) "Invalid Request" (Some TEXT)) [(-32600)%Z].
Fixpoint cat_some {A} (l : list (option A)) : list A := match l with [] => [] | Some x :: r => x :: cat_some r | None :: r => cat_some r end.

Definition dispatch (max_batch : option Z) (l : load_result) : dres * list event :=
  match l with
  | LRaise => (DRaised, [])
  | LDecodeError => (DSome (resp_err None (-32700) "Parse error" (Some TEXT)) [(-32700)%Z], [])
  | LOk (JArr elems) =>
      match elems with [] => (invalid_request, []) | _ =>
      match mapM req_from_json elems with
      | None => (invalid_request, [])
      | Some reqs =>
          if dup_ids [] reqs then (invalid_request, []) else
          let too_large := match max_batch with
                           | Some m => negb (Z.eqb m 0) && Z.ltb m (Z.of_nat (List.length reqs))
                           | None => false end in
          if too_large then (invalid_request, []) else
          let rs := map handle reqs in
          let resps := cat_some (map fst rs) in
          (DSome (JArr (map fst resps)) (map snd resps), List.concat (map snd rs))     (* pinned: [] for all-notifications *)
      end end
  | LOk v =>
      match req_from_json v with
      | None => (invalid_request, [])
      | Some r => match handle r with
                  | (Some (d, c), ev) => (DSome d [c], ev)
                  | (None, ev) => (DNone, ev) end
      end
  end.

(* comparison: object keys in the order the source builds them, so plain structural equality suffices *)
Definition dres_eqb (a b : dres) : bool :=
  match a, b with
  | DNone, DNone => true | DRaised, DRaised => true
  | DSome d c, DSome d' c' => json_eqb d d' && (if list_eq_dec Z.eq_dec c c' then true else false)
  | _, _ => false end.
Definition ev_eqb (a b : event) := match a, b with Call m p, Call m' p' => String.eqb m m' && json_eqb p p' end.
Fixpoint evs_eqb (a b : list event) := match a, b with [], [] => true | x::a', y::b' => ev_eqb x y && evs_eqb a' b' | _,_ => false end.
Definition mismatches (cs : list (option Z * load_result * dres * list event)) : list nat :=
  map fst (filter (fun '(i, (mb, l, d, ev)) => let '(d', ev') := dispatch mb l in negb (dres_eqb d' d && evs_eqb ev' ev))
                  (combine (seq 0 (List.length cs)) cs)).
