From Coq Require Import ZArith List String Ascii Bool Lia.
From Proto Require Import Json Msg.
Import ListNotations.
Open Scope string_scope.

Ltac inv_res :=
  repeat match goal with
  | H : Ok _ = Ok _ |- _ => inversion H; subst; clear H
  | H : Raise _ = Ok _ |- _ => discriminate H
  | H : Ok _ = Raise _ |- _ => discriminate H
  | H : Raise _ = Raise _ |- _ => inversion H; subst; clear H
  end.
(* destruct the innermost match scrutinee in hypothesis or goal *)
Ltac dm :=
  match goal with
  | |- context [match ?x with _ => _ end] => lazymatch x with context [match _ with _ => _ end] => fail | _ => destruct x eqn:? end
  | H : context [match ?x with _ => _ end] |- _ => lazymatch x with context [match _ with _ => _ end] => fail | _ => destruct x eqn:? end
  end.

Lemma parse_id_exn o x : parse_id o = Raise x -> x = XDeser.
Proof. unfold parse_id; intros H; repeat dm; inv_res; reflexivity. Qed.
Lemma parse_id_ok o i : parse_id o = Ok i -> valid_id o = true.
Proof. unfold parse_id, valid_id; intros H; repeat dm; inv_res; reflexivity. Qed.

Lemma err_exn j x : err_from_json j = Raise x -> x = XDeser \/ x = XAssert.
Proof. unfold err_from_json, bind; intros H; repeat dm; inv_res; auto. Qed.
Lemma err_ok j e : err_from_json j = Ok e -> valid_error j = true.
Proof. unfold err_from_json, valid_error, bind; intros H; repeat dm; inv_res; try reflexivity; try discriminate. Qed.

Theorem resp_total_modulo_assert j x : resp_from_json j = Raise x -> x = XDeser \/ x = XAssert.
Proof.
  unfold resp_from_json, bind; intros H.
  repeat (dm; inv_res); auto;
  repeat match goal with
  | H : parse_id _ = Raise _ |- _ => apply parse_id_exn in H; subst
  | H : err_from_json _ = Raise _ |- _ => apply err_exn in H
  end; auto.
Qed.

Theorem resp_strict j r : resp_from_json j = Ok r -> valid_response j = true.
Proof.
  unfold resp_from_json, valid_response, bind; intros H.
  repeat (dm; inv_res); try discriminate;
  repeat match goal with
  | H : parse_id _ = Ok _ |- _ => apply parse_id_ok in H
  | H : err_from_json _ = Ok _ |- _ => apply err_ok in H
  | H : negb _ = false |- _ => apply negb_false_iff in H
  end; cbn; repeat match goal with H : _ = true |- _ => rewrite H end; reflexivity.
Qed.

(* the full-strength totality claim is false of the faithful model of the pinned tree: *)
Theorem resp_total_refuted : exists j, resp_from_json j = Raise XAssert.
Proof. exists (JObj [("jsonrpc", JStr "2.0"); ("result", JInt 0); ("error", JObj [("code", JInt 1); ("message", JStr "m")])]). vm_compute. reflexivity. Qed.
Print Assumptions resp_strict.
Print Assumptions resp_total_refuted.
