import json, itertools, random, logging, asyncio, sys, math
logging.disable(logging.CRITICAL)
import pjrpc
from pjrpc.server import Dispatcher, AsyncDispatcher
random.seed(int(sys.argv[1]) if len(sys.argv)>1 else 0)
A=object()
def mk(cls, mb, log):
    d=cls(max_batch_size=mb)
    def one(a): log.append(('one',None)); return a
    def boom(): log.append(('boom',None)); raise KeyError('S3CR3T')
    def perr(): log.append(('perr',None)); raise pjrpc.exc.JsonRpcError(code=5,message='m',data=None)
    def perr2(): log.append(('perr2',None)); raise pjrpc.exc.JsonRpcError(code=-32001,message='x')
    def nul(): log.append(('nul',None)); return None
    for f in (one,boom,perr,perr2,nul): d.add(f)
    return d
J=[A,'2.0','1.0',2.0,None]
I=[A,None,0,1,-1,2**64,'','a','1',True,1.5,[],{}]
M=[A,'one','boom','perr','perr2','nul','nosuch','',1,None]
P=[A,[],[1],[1,2],{},{'a':1},{'a':1,'b':2},{'b':1},None,1,'x',[None],[[1,{'k':'v'}]]]
def obj(j,i,m,p):
    d={}
    for k,v in (('jsonrpc',j),('id',i),('method',m),('params',p)):
        if v is not A: d[k]=v
    return d
singles=[obj(*t) for t in itertools.product(J,I,M,P)]
random.shuffle(singles)
texts=[json.dumps(s) for s in singles[:1500]]
# valid-heavy elements for batches
def el():
    r=random.random()
    if r<0.1: return random.choice([1,None,'x',[],{},obj(*[random.choice(X) for X in (J,I,M,P)])])
    return obj('2.0', random.choice([A,A,None,0,1,2,3,'1','a',True]), random.choice(['one','one','boom','perr','perr2','nul','nosuch']), random.choice([A,[],[1],{'a':2},[1,2],{'b':1}]))
for n in range(0,6):
    for _ in range(150): texts.append(json.dumps([el() for _ in range(n)]))
texts += ['', 'nope', '{', '[1,', '﻿{}', '{"jsonrpc":"2.0","method":"nul","id":1} x', '1'+'0'*5000, '{"jsonrpc":"2.0","method":"one","params":['+'1'*4400+'],"id":1}', '"x"', 'null', '1', '[[]]', ' [ ] ']
def canon_data(doc):
    # abstract library-generated human-readable texts
    def fix(r):
        if isinstance(r,dict) and 'error' in r and isinstance(r['error'],dict):
            e=r['error']; c=e.get('code')
            if c in (-32700,-32600,-32601) and isinstance(e.get('data'),str): e['data']='<text>'
            if c==-32602 and isinstance(e.get('data'),list) and all(isinstance(x,str) for x in e['data']): e['data']=['<text>']*len(e['data'])
        return r
    return [fix(r) for r in doc] if isinstance(doc,list) else fix(doc)
def cs(s):
    b=s.encode('utf-8')
    if all(32<=c<127 and c!=34 for c in b): return '"%s"'%s
    return '(bs [%s]%%nat)'%';'.join(map(str,b))
def cj(v):
    if v is None: return 'JNull'
    if v is True: return '(JBool true)'
    if v is False: return '(JBool false)'
    if isinstance(v,int): return '(JInt (%d))'%v
    if isinstance(v,float): return '(JFloat %s)'%cs(repr(v))
    if isinstance(v,str): return '(JStr %s)'%cs(v)
    if isinstance(v,list): return '(JArr [%s])'%'; '.join(cj(x) for x in v)
    if isinstance(v,dict): return '(JObj [%s])'%'; '.join('(%s, %s)'%(cs(k),cj(x)) for k,x in v.items())
cases=[]; stats={}
for text in texts:
    try: l=('LOk', json.loads(text))
    except json.JSONDecodeError: l=('LDecodeError',)
    except ValueError: l=('LRaise',)
    for cls in (Dispatcher, AsyncDispatcher):
        for mb in (None,0,1,3):
            log=[]; d=mk(cls,mb,log)
            try:
                r=d.dispatch(text)
                if asyncio.iscoroutine(r): r=asyncio.run(r)
                obs=('DNone',) if r is None else ('DSome', canon_data(json.loads(r[0])), list(r[1]))
            except BaseException as e: obs=('DRaised',)
            cases.append((mb,l,obs,log,cls.__name__,text))
            k=(l[0],obs[0]); stats[k]=stats.get(k,0)+1
print(len(cases), stats, file=sys.stderr)
# the call log here records only the method name; model events carry params, so compare names only -> encode params from request is not available; use name-only events
def coq_case(c):
    mb,l,obs,log,_,_=c
    mbs='None' if mb is None else '(Some %d)'%mb
    ls='LDecodeError' if l[0]=='LDecodeError' else 'LRaise' if l[0]=='LRaise' else '(LOk %s)'%cj(l[1])
    os_='DNone' if obs[0]=='DNone' else 'DRaised' if obs[0]=='DRaised' else '(DSome %s [%s])'%(cj(obs[1]),'; '.join('(%d)'%x for x in obs[2]))
    ev='[%s]'%'; '.join('"%s"'%n for n,_ in log)
    return '(%s, %s, %s, %s)'%(mbs,ls,os_,ev)
SH=400
for si in range(math.ceil(len(cases)/SH)):
    with open('dcases_%d.v'%si,'w') as f:
        f.write('From Coq Require Import ZArith List String Ascii Bool.\nFrom Proto Require Import Json Disp DispCorr.\nImport ListNotations.\nOpen Scope string_scope. Open Scope Z_scope.\n')
        f.write('Definition cases : list (option Z * load_result * dres * list string) := [\n'+';\n'.join(coq_case(c) for c in cases[si*SH:(si+1)*SH])+'].\nSet Printing Width 100000.\nEval vm_compute in (mismatches_n cases).\n')
json.dump([(c[0],c[1],c[2],c[3],c[4],c[5][:300]) for c in cases], open('dcases.json','w'))
