import itertools, json, logging, sys
logging.disable(logging.CRITICAL)
import pjrpc
from pjrpc.server import Dispatcher
kinds = ['PO','PK','VP','KO','VK']; order = {k:i for i,k in enumerate(kinds)}
def wf(sig):
    ks=[k for k,_ in sig]
    if any(order[a]>order[b] for a,b in zip(ks,ks[1:])): return False
    if ks.count('VP')>1 or ks.count('VK')>1: return False
    seen=False
    for k,d in sig:
        if k in ('VP','VK') and d: return False
        if k in ('PO','PK'):
            if d: seen=True
            elif seen: return False
    return True
NAMES='abcd'
def src(sig):
    parts=[]; po_done=False; star_done=False
    for i,(k,d) in enumerate(sig):
        n=NAMES[i]
        if k!='PO' and not po_done and any(kk=='PO' for kk,_ in sig[:i]): parts.append('/'); po_done=True
        if k=='KO' and not star_done and not any(kk=='VP' for kk,_ in sig): parts.append('*'); star_done=True
        if k=='VP': parts.append('*'+n); star_done=True
        elif k=='VK': parts.append('**'+n)
        else: parts.append(n+('="D"' if d else ''))
    if any(kk=='PO' for kk,_ in sig) and not po_done: parts.append('/')
    return 'def f(%s):\n    return [%s]' % (', '.join(parts), ', '.join('(%r, %s)'%(NAMES[i],NAMES[i]) for i in range(len(sig))))
def canon_env(sig, ret):
    out=[]
    for (k,d),(n,v) in zip(sig, ret):
        if k=='VP': out.append((n,'Star',[cv(x) for x in v]))
        elif k=='VK': out.append((n,'StarStar',[(kk,cv(x)) for kk,x in v.items()]))
        elif v=="D": out.append((n,'Default',None))
        else: out.append((n,'Given',cv(v)))
    return out
def cv(v):
    if isinstance(v,int): return ('AI',v)
    if isinstance(v,(list,tuple)): return ('ATup',[cv(x) for x in v])
    if isinstance(v,dict): return ('AMap',[(k,cv(x)) for k,x in v.items()])
    raise Exception(v)
def coq_av(c):
    t=c[0]
    if t=='AI': return '(AI %d)'%c[1]
    if t=='ATup': return '(ATup [%s])'%'; '.join(coq_av(x) for x in c[1])
    if t=='AMap': return '(AMap [%s])'%'; '.join('("%s", %s)'%(k,coq_av(x)) for k,x in c[1])
def coq_env(e):
    items=[]
    for n,t,v in e:
        if t=='Star': s='Star [%s]'%'; '.join(coq_av(x) for x in v)
        elif t=='StarStar': s='StarStar [%s]'%'; '.join('("%s", %s)'%(k,coq_av(x)) for k,x in v)
        elif t=='Default': s='Default'
        else: s='Given %s'%coq_av(v)
        items.append('("%s", %s)'%(n,s))
    return '[%s]'%'; '.join(items)
cases=[]
maxn=int(sys.argv[1]) if len(sys.argv)>1 else 3
for n in range(0,maxn+1):
    for ks in itertools.product(kinds, repeat=n):
        for ds in itertools.product([False,True], repeat=n):
            sig=list(zip(ks,ds))
            if not wf(sig): continue
            ns={}; exec(src(sig), ns); f=ns['f']
            d=Dispatcher(); d.add(f)
            names=list(NAMES[:n])+['zz']
            inputs=[('L',[10+i for i in range(m)]) for m in range(0,n+3)]
            for r in range(0,len(names)+1):
                for sub in itertools.combinations(names,r):
                    inputs.append(('D',{k:20+i for i,k in enumerate(sub)}))
            for tag,p in inputs:
                try: direct=('Some',canon_env(sig, f(*p) if tag=='L' else f(**p)))
                except TypeError: direct=('None',)
                resp=json.loads(d.dispatch(json.dumps({"jsonrpc":"2.0","id":1,"method":"f","params":p}))[0])
                if 'result' in resp: pj=('Ran',canon_env(sig,[tuple(x) for x in resp['result']]))
                elif resp['error']['code']==-32602: pj=('InvalidParams',)
                elif resp['error']['code']==-32000: pj=('ServerError',)
                else: raise Exception(resp)
                cases.append((sig,tag,p,direct,pj))
print(len(cases), file=sys.stderr)
def coq_sig(sig): return '[%s]'%'; '.join('{| pname := "%s"; pkind := %s; pdef := %s |}'%(NAMES[i],k,'true' if d else 'false') for i,(k,d) in enumerate(sig))
def coq_params(tag,p):
    if tag=='L': return '(inl [%s])'%'; '.join('AI %d'%x for x in p)
    return '(inr [%s])'%'; '.join('("%s", AI %d)'%(k,v) for k,v in p.items())
def coq_direct(d): return 'None' if d[0]=='None' else '(Some %s)'%coq_env(d[1])
def coq_pj(v): return v[0] if v[0]!='Ran' else '(Ran %s)'%coq_env(v[1])
import math
SH=500
for si in range(math.ceil(len(cases)/SH)):
    with open('bcases_%d.v'%si,'w') as fo:
        fo.write('From Coq Require Import ZArith List String Bool.\nFrom Proto Require Import Bind BindEq.\nImport ListNotations.\nOpen Scope string_scope. Open Scope Z_scope.\n')
        fo.write('Definition cases : list (sig * (list aval + list (string*aval)) * option env * verdict) := [\n')
        fo.write(';\n'.join('(%s, %s, %s, %s)'%(coq_sig(s),coq_params(t,p),coq_direct(d),coq_pj(v)) for s,t,p,d,v in cases[si*SH:(si+1)*SH]))
        fo.write('].\nSet Printing Width 100000.\nEval vm_compute in (mismatches cases).\n')
json.dump([(s,t,p,d,v) for s,t,p,d,v in cases], open('bcases.json','w'))
