From Coq Require Import ZArith List String Ascii Bool Lia.
From Proto Require Import Json.
Import ListNotations.
Open Scope string_scope.

Inductive exn := XDeser | XIdentity | XAssert.
Inductive res (A : Type) := Ok (a : A) | Raise (x : exn).
Arguments Ok {A}. Arguments Raise {A}.
Definition bind {A B} (m : res A) (f : A -> res B) : res B := match m with Ok a => f a | Raise x => Raise x end.
Notation "'do' x <- m ; k" := (bind m (fun x => k)) (at level 200, x name, m at level 100, k at level 200).

(* Python truthiness of a JSON value *)
Definition truthy (j : json) : bool :=
  match j with
  | JNull => false | JBool b => b | JInt z => negb (Z.eqb z 0) | JFloat t => negb (String.eqb t "0.0" || String.eqb t "-0.0")
  | JStr s => negb (String.eqb s "") | JArr l => match l with [] => false | _ => true end
  | JObj l => match l with [] => false | _ => true end
  end.

Inductive idv := IInt (z : Z) | IBool (b : bool) | IStr (s : string).   (* pinned tree: bool passes isinstance(id,int) *)
Record rpc_error := { e_code : Z; e_code_is_bool : bool; e_msg : string; e_data : option json }.
Inductive response := RResult (i : option idv) (v : json) | RError (i : option idv) (e : rpc_error).

Definition parse_id (o : option json) : res (option idv) :=
  match o with
  | None | Some JNull => Ok None
  | Some (JInt z) => Ok (Some (IInt z))
  | Some (JBool b) => Ok (Some (IBool b))
  | Some (JStr s) => Ok (Some (IStr s))
  | Some _ => Raise XDeser
  end.

(* JsonRpcError.from_json for the base class with an empty registry slice: faithful incl. ctor assertions *)
Definition err_from_json (j : json) : res rpc_error :=
  match j with
  | JObj kvs =>
      match get "code" kvs with
      | None => Raise XDeser
      | Some c =>
        do cz <- match c with JInt z => Ok (z, false) | JBool b => Ok ((if b then 1 else 0)%Z, true) | _ => Raise XDeser end ;
        match get "message" kvs with
        | None => Raise XDeser
        | Some (JStr m) =>
            (* __init__: assert code or self.code ; assert message or self.message  (base class: None) *)
            if Z.eqb (fst cz) 0 then Raise XAssert else
            if String.eqb m "" then Raise XAssert else
            Ok {| e_code := fst cz; e_code_is_bool := snd cz; e_msg := m; e_data := get "data" kvs |}
        | Some _ => Raise XDeser
        end
      end
  | _ => Raise XDeser
  end.

Definition resp_from_json (j : json) : res response :=
  match j with
  | JObj kvs =>
      match get "jsonrpc" kvs with
      | None => Raise XDeser
      | Some v =>
        if negb (json_eqb v (JStr "2.0")) then Raise XDeser else
        do i <- parse_id (get "id" kvs) ;
        do e <- match get "error" kvs with None => Ok None | Some ej => do e <- err_from_json ej ; Ok (Some e) end ;
        match get "result" kvs, e with
        | None, None => Raise XDeser
        | Some r, Some e' => if truthy r then Raise XDeser else Raise XAssert  (* `if result and error` then ctor assert *)
        | Some r, None => Ok (RResult i r)
        | None, Some e' => Ok (RError i e')
        end
      end
  | _ => Raise XDeser
  end.

(* declarative grammar, written independently *)
Definition valid_id (o : option json) : bool :=
  match o with None | Some JNull | Some (JInt _) | Some (JStr _) | Some (JBool _) => true | _ => false end.
Definition valid_error (j : json) : bool :=
  match j with
  | JObj kvs => match get "code" kvs, get "message" kvs with
                | Some (JInt _ | JBool _), Some (JStr _) => true | _, _ => false end
  | _ => false end.
Definition valid_response (j : json) : bool :=
  match j with
  | JObj kvs =>
      match get "jsonrpc" kvs with Some v => json_eqb v (JStr "2.0") | None => false end
      && valid_id (get "id" kvs)
      && match get "result" kvs, get "error" kvs with
         | Some _, None => true | None, Some e => valid_error e | _, _ => false end
  | _ => false end.
