From Coq Require Import ZArith List String Ascii Bool.
Import ListNotations.
Open Scope string_scope.

Inductive kind := PO | PK | VP | KO | VK.
Record param := { pname : string; pkind : kind; pdef : bool }.
Definition sig := list param.

(* argument values: opaque ints are enough to see mis-binding; tuples/maps arise from .arguments *)
Inductive aval := AI (z : Z) | ATup (l : list aval) | AMap (kvs : list (string * aval)).
Inductive slotv := Given (v : aval) | Default | Star (l : list aval) | StarStar (kvs : list (string * aval)).
Definition env := list (string * slotv).

Definition kind_eqb a b := match a, b with PO,PO|PK,PK|VP,VP|KO,KO|VK,VK => true | _,_ => false end.
Definition is_positional p := match pkind p with PO | PK => true | _ => false end.
Definition has_kind k (s : sig) := existsb (fun p => kind_eqb (pkind p) k) s.
Fixpoint lookup {A} (k : string) (l : list (string * A)) : option A :=
  match l with [] => None | (k',v) :: r => if String.eqb k k' then Some v else lookup k r end.
Definition mem {A} k (l : list (string*A)) := match lookup k l with Some _ => true | None => false end.

(* ---------- CPython call binding ---------- *)
(* step 1: positional fill *)
Fixpoint fill_pos (ps : sig) (pos : list aval) : list (string * aval) * list aval :=
  match ps, pos with
  | p :: ps', a :: pos' => if is_positional p
                           then let '(b, rest) := fill_pos ps' pos' in ((pname p, a) :: b, rest)
                           else ([], pos)        (* first non-positional param: stop *)
  | _, _ => ([], pos)
  end.

Definition find_param (n : string) (s : sig) : option param :=
  find (fun p => String.eqb (pname p) n) s.

(* step 3: keywords; returns (named bindings, extra for **kw) or None on error *)
Fixpoint place_kw (s : sig) (bound : list (string*aval)) (kw : list (string*aval))
  : option (list (string*aval) * list (string*aval)) :=
  match kw with
  | [] => Some (bound, [])
  | (n, v) :: kw' =>
      let to_extra :=
        if has_kind VK s then
          match place_kw s bound kw' with Some (b, e) => Some (b, (n,v) :: e) | None => None end
        else None in
      match find_param n s with
      | Some p =>
          match pkind p with
          | PK | KO => if mem n bound then None
                       else match place_kw s (bound ++ [(n,v)]) kw' with Some r => Some r | None => None end
          | PO => to_extra
          | VP | VK => to_extra      
          end
      | None => to_extra
      end
  end.

Fixpoint finish (s : sig) (bound : list (string*aval)) (star : list aval) (extra : list (string*aval)) : option env :=
  match s with
  | [] => Some []
  | p :: s' =>
      let rest := finish s' bound star extra in
      let slot := match pkind p with
                  | VP => Some (Star star)
                  | VK => Some (StarStar extra)
                  | _ => match lookup (pname p) bound with
                         | Some v => Some (Given v)
                         | None => if pdef p then Some Default else None
                         end
                  end in
      match slot, rest with Some x, Some r => Some ((pname p, x) :: r) | _, _ => None end
  end.

Definition py_call (s : sig) (pos : list aval) (kw : list (string*aval)) : option env :=
  let '(b, rest) := fill_pos s pos in
  if (negb (has_kind VP s)) && (match rest with [] => false | _ => true end) then None else
  match place_kw s b kw with
  | None => None
  | Some (b', extra) => finish s b' rest extra
  end.

(* ---------- inspect.Signature.bind restricted to (args only) or (kwargs only) ---------- *)
Fixpoint bind_pos (ps : sig) (args : list aval) : option (list (string * aval)) :=
  match args with
  | [] =>  (* positional exhausted: remaining params must be optional *)
      (fix rest (ps : sig) (first : bool) : option (list (string*aval)) :=
         match ps with
         | [] => Some []
         | p :: ps' =>
            match pkind p with
            | VP => rest ps' false
            | VK => rest ps' false
            | _ => if pdef p then rest ps' false else None
            end
         end) ps true
  | a :: args' =>
      match ps with
      | [] => None
      | p :: ps' =>
          match pkind p with
          | VK | KO => None
          | VP => (* swallow all the rest, then remaining params must be optional *)
              match bind_pos ps' [] with Some r => Some ((pname p, ATup (a :: args')) :: r) | None => None end
          | _ => match bind_pos ps' args' with Some r => Some ((pname p, a) :: r) | None => None end
          end
      end
  end.

Fixpoint remove_key {A} k (l : list (string*A)) :=
  match l with [] => [] | (k',v)::r => if String.eqb k k' then remove_key k r else (k',v) :: remove_key k r end.

Fixpoint bind_kw_go (ps : sig) (kw : list (string*aval)) (vk : option string)
  : option (list (string*aval)) :=
  match ps with
  | [] => match kw with
          | [] => Some []
          | _ => match vk with Some n => Some [(n, AMap kw)] | None => None end
          end
  | p :: ps' =>
      match pkind p with
      | VK => bind_kw_go ps' kw (Some (pname p))
      | VP => bind_kw_go ps' kw vk
      | k => match lookup (pname p) kw with
             | Some v => if kind_eqb k PO then None
                         else match bind_kw_go ps' (remove_key (pname p) kw) vk with
                              | Some r => Some ((pname p, v) :: r) | None => None end
             | None => if pdef p then bind_kw_go ps' kw vk else None
             end
      end
  end.
Definition bind_kw ps kw := bind_kw_go ps kw None.

(* pjrpc Method.bind then call via partial *)
Inductive verdict := Ran (e : env) | InvalidParams | ServerError.
Definition pjrpc_call (s : sig) (params : list aval + list (string*aval)) : verdict :=
  let b := match params with inl l => bind_pos s l | inr d => bind_kw s d end in
  match b with
  | None => InvalidParams
  | Some args => match py_call s [] args with Some e => Ran e | None => ServerError end
  end.
Definition direct_call (s : sig) (params : list aval + list (string*aval)) : option env :=
  match params with inl l => py_call s l [] | inr d => py_call s [] d end.
