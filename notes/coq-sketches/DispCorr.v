From Coq Require Import ZArith List String Ascii Bool.
From Proto Require Import Json Disp.
Import ListNotations.
Definition bs (l : list nat) : string := fold_right (fun n s => String (ascii_of_nat n) s) EmptyString l.
Fixpoint names_eqb (a : list event) (b : list string) := match a, b with [], [] => true | Call m _ :: a', n :: b' => String.eqb m n && names_eqb a' b' | _,_ => false end.
Definition mismatches_n (cs : list (option Z * load_result * dres * list string)) : list nat :=
  map fst (filter (fun '(i, (mb, l, d, ev)) => let '(d', ev') := dispatch mb l in negb (dres_eqb d' d && names_eqb ev' ev))
                  (combine (seq 0 (List.length cs)) cs)).
