From Coq Require Import List Arith Lia Bool.
Import ListNotations.

(* A coroutine = remaining atomic segments (each emits events) and a final result. *)
Section S.
Variables (Ev Res : Type).
Record co := { segs : list (list Ev); res : Res }.
(* slot i : running coroutine or finished result *)
Inductive slot := Run (c : co) | Done (r : Res).
Definition st := list slot.

Definition step_slot (s : slot) : slot * list (Ev) :=
  match s with
  | Done r => (Done r, [])
  | Run c => match segs c with
             | [] => (Done (res c), [])
             | e :: rest => (Run {| segs := rest; res := res c |}, e)
             end
  end.

Fixpoint step_at (i : nat) (s : st) : st * list Ev :=
  match s, i with
  | [], _ => ([], [])
  | x :: xs, O => let '(x', e) := step_slot x in (x' :: xs, e)
  | x :: xs, S j => let '(xs', e) := step_at j xs in (x :: xs', e)
  end.

(* events tagged with element index *)
Fixpoint run (sched : list nat) (s : st) : st * list (nat * Ev) :=
  match sched with
  | [] => (s, [])
  | i :: r => let '(s1, e) := step_at i s in
              let '(s2, t) := run r s1 in (s2, map (pair i) e ++ t)
  end.

Definition proj (i : nat) (t : list (nat * Ev)) : list Ev :=
  map snd (filter (fun p => Nat.eqb (fst p) i) t).

Fixpoint slot_trace (s : slot) : list Ev :=
  match s with Done _ => [] | Run c => concat (segs c) end.
Definition slot_final (s : slot) : Res := match s with Done r => r | Run c => res c end.
Definition finished (s : st) := forallb (fun x => match x with Done _ => true | _ => false end) s.

Lemma step_slot_final x : slot_final (fst (step_slot x)) = slot_final x.
Proof. destruct x as [c|r]; cbn; [destruct (segs c); reflexivity | reflexivity]. Qed.
Lemma step_slot_trace x : snd (step_slot x) ++ slot_trace (fst (step_slot x)) = slot_trace x.
Proof. destruct x as [c|r]; cbn; [destruct (segs c); cbn; auto | reflexivity]. Qed.

Lemma step_at_final i : forall s, map slot_final (fst (step_at i s)) = map slot_final s.
Proof.
  induction i as [|j IH]; intros [|x xs]; cbn; auto.
  - destruct (step_slot x) eqn:E; cbn. f_equal. change s with (fst (s, l)). rewrite <- E. apply step_slot_final.
  - destruct (step_at j xs) eqn:E; cbn. f_equal. change s with (fst (s, l)). rewrite <- E. apply IH.
Qed.

(* results are schedule independent: after ANY schedule that finishes all, results = map res *)
Theorem results_order_independent sched s :
  map slot_final (fst (run sched s)) = map slot_final s.
Proof.
  revert s; induction sched as [|i r IH]; intros s; cbn; auto.
  destruct (step_at i s) eqn:E1. destruct (run r s0) eqn:E2. cbn.
  change s1 with (fst (s1, l0)). rewrite <- E2, IH.
  change s0 with (fst (s0, l)). rewrite <- E1. apply step_at_final.
Qed.
End S.
Print Assumptions results_order_independent.
