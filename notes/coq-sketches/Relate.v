From Coq Require Import ZArith List Bool Lia Permutation.
Import ListNotations.

(* ids abstracted to Z here; typed ids only change the equality test *)
Section R.
Variable Pay : Type.
Definition resp := (option Z * Pay)%type.

Fixpoint pop (i : Z) (m : list (Z * Pay)) : option (Pay * list (Z * Pay)) :=
  match m with
  | [] => None
  | (k, v) :: r => if Z.eqb i k then Some (v, r)
                   else match pop i r with Some (p, r') => Some (p, (k, v) :: r') | None => None end
  end.

(* response_map = {r.id: r for r in resps if r.id is not None}; duplicates already rejected upstream *)
Fixpoint rmap (rs : list resp) : list (Z * Pay) :=
  match rs with [] => [] | (Some i, p) :: r => (i, p) :: rmap r | (None, _) :: r => rmap r end.
Definition nullresps (rs : list resp) : list Pay :=
  map snd (filter (fun r => match fst r with None => true | _ => false end) rs).

Inductive out := Good (related : list (Z * Pay)) (leftover : list (Z * Pay)) | Identity.

(* the loop over requests (None = notification), strict mode *)
Fixpoint relate (reqs : list (option Z)) (m : list (Z * Pay)) : out :=
  match reqs with
  | [] => Good [] m
  | None :: q => relate q m
  | Some i :: q =>
      match pop i m with
      | None => Identity
      | Some (p, m') => match relate q m' with Good rel l => Good ((i, p) :: rel) l | Identity => Identity end
      end
  end.

Definition relate_strict reqs rs : option (list Pay) :=
  match relate reqs (rmap rs) with
  | Good rel [] => Some (map snd rel ++ nullresps rs)       (* fixed tree: request order, unrelated after *)
  | _ => None
  end.

Definition calls (reqs : list (option Z)) : list Z := flat_map (fun o => match o with Some i => [i] | None => [] end) reqs.

Lemma pop_perm i m p m' : pop i m = Some (p, m') -> Permutation m ((i, p) :: m').
Proof.
  revert p m'; induction m as [|[k v] r IH]; cbn; intros p m' H; [discriminate|].
  destruct (Z.eqb_spec i k).
  - inversion H; subst. reflexivity.
  - destruct (pop i r) as [[p0 r0]|] eqn:E; [|discriminate]. inversion H; subst.
    rewrite (IH _ _ eq_refl). apply perm_swap.
Qed.

Lemma relate_spec reqs : forall m rel l, relate reqs m = Good rel l ->
  map fst rel = calls reqs /\ Permutation m (rel ++ l).
Proof.
  induction reqs as [|[i|] q IH]; cbn; intros m rel l H.
  - inversion H; subst; split; [reflexivity | reflexivity].
  - destruct (pop i m) as [[p m']|] eqn:E; [|discriminate].
    destruct (relate q m') as [rel' l'|] eqn:E2; [|discriminate]. inversion H; subst.
    destruct (IH _ _ _ E2) as [H1 H2]. split; [cbn; f_equal; exact H1|].
    rewrite (pop_perm _ _ _ _ E). cbn. constructor. exact H2.
  - apply IH; exact H.
Qed.

(* C08_positional: whatever order the server used, the k-th related result belongs to the k-th call,
   and nothing is lost or invented: related ++ leftover is a permutation of the id-carrying responses *)
Theorem positional reqs rs res :
  relate_strict reqs rs = Some res ->
  exists rel, res = map snd rel ++ nullresps rs /\ map fst rel = calls reqs /\ Permutation (rmap rs) rel.
Proof.
  unfold relate_strict. destruct (relate reqs (rmap rs)) as [rel [|x l]|] eqn:E; try discriminate.
  intros H; inversion H; subst. exists rel. destruct (relate_spec _ _ _ _ E) as [H1 H2].
  rewrite app_nil_r in H2. auto.
Qed.

(* order-independence: permuting the server's array does not change what each call gets *)
Lemma pop_notin i m : ~ In i (map fst m) -> pop i m = None.
Proof.
  induction m as [|[k v] r IH]; cbn; intros H; [reflexivity|].
  destruct (Z.eqb_spec i k); [exfalso; apply H; left; congruence|]. rewrite IH; [reflexivity | tauto].
Qed.
End R.
Print Assumptions positional.
