From Coq Require Import ZArith List String Ascii Bool Lia.
Import ListNotations.
Open Scope string_scope.

Inductive json :=
| JNull | JBool (b : bool) | JInt (z : Z) | JFloat (tok : string)
| JStr (s : string) | JArr (l : list json) | JObj (kvs : list (string * json)).

Section Ind.
  Variable P : json -> Prop.
  Hypothesis Hnull : P JNull.
  Hypothesis Hbool : forall b, P (JBool b).
  Hypothesis Hint : forall z, P (JInt z).
  Hypothesis Hfloat : forall t, P (JFloat t).
  Hypothesis Hstr : forall s, P (JStr s).
  Hypothesis Harr : forall l, Forall P l -> P (JArr l).
  Hypothesis Hobj : forall kvs, Forall (fun kv => P (snd kv)) kvs -> P (JObj kvs).
  Fixpoint json_ind' (j : json) : P j :=
    match j with
    | JNull => Hnull | JBool b => Hbool b | JInt z => Hint z | JFloat t => Hfloat t | JStr s => Hstr s
    | JArr l => Harr l ((fix go (l : list json) : Forall P l :=
         match l with [] => Forall_nil _ | x :: xs => Forall_cons _ (json_ind' x) (go xs) end) l)
    | JObj kvs => Hobj kvs ((fix go (l : list (string*json)) : Forall (fun kv => P (snd kv)) l :=
         match l with [] => Forall_nil _ | (k,v) :: xs => Forall_cons (k,v) (json_ind' v) (go xs) end) kvs)
    end.
End Ind.

Fixpoint json_eqb (a b : json) {struct a} : bool :=
  match a, b with
  | JNull, JNull => true
  | JBool x, JBool y => Bool.eqb x y
  | JInt x, JInt y => Z.eqb x y
  | JFloat x, JFloat y => String.eqb x y
  | JStr x, JStr y => String.eqb x y
  | JArr x, JArr y =>
      (fix go (x y : list json) : bool :=
         match x, y with [], [] => true | a :: x', b :: y' => json_eqb a b && go x' y' | _, _ => false end) x y
  | JObj x, JObj y =>
      (fix go (x y : list (string*json)) : bool :=
         match x, y with [], [] => true
         | (k,a) :: x', (k',b) :: y' => String.eqb k k' && json_eqb a b && go x' y' | _, _ => false end) x y
  | _, _ => false
  end.

Fixpoint get (k : string) (kvs : list (string * json)) : option json :=
  match kvs with [] => None | (k',v) :: r => if String.eqb k k' then Some v else get k r end.

Inductive id := IInt (z : Z) | IStr (s : string).
Inductive exn := EDeser | EIdentity | EAssert.
Inductive res (A : Type) := Ok (a : A) | Err (e : exn).
Arguments Ok {A}. Arguments Err {A}.
Inductive params := PList (l : list json) | PDict (kvs : list (string*json)).
Record request := { r_method : string; r_params : params; r_id : option id }.

Definition parse_id (o : option json) : res (option id) :=
  match o with
  | None | Some JNull => Ok None
  | Some (JInt z) => Ok (Some (IInt z))
  | Some (JBool b) => Ok (Some (IInt (if b then 1 else 0)))
  | Some (JStr s) => Ok (Some (IStr s))
  | _ => Err EDeser end.

Definition request_from_json (j : json) : res request :=
  match j with
  | JObj kvs =>
    match get "jsonrpc" kvs with
    | Some (JStr v) => if negb (String.eqb v "2.0") then Err EDeser else
      match parse_id (get "id" kvs) with
      | Err e => Err e
      | Ok i =>
        match get "method" kvs with
        | Some (JStr m) =>
          match get "params" kvs with
          | None => Ok {| r_method := m; r_params := PList []; r_id := i |}
          | Some (JArr l) => Ok {| r_method := m; r_params := PList l; r_id := i |}
          | Some (JObj d) => Ok {| r_method := m; r_params := PDict d; r_id := i |}
          | _ => Err EDeser end
        | _ => Err EDeser end
      end
    | _ => Err EDeser end
  | _ => Err EDeser end.

